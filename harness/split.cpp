// C09 - split / tokenize / replace against the reference partition, join as
// the inverse of split, termination and bounded allocation, under ASan+UBSan.
#include "vrt.h"
#include "vrt_alloc.h"
#include "vrt_st.h"
#include "ref_text.h"
#include "ref_unicode.h"
#include "gen_text.h"
#include "gen_scale.h"
#include "ambient.h"
#include <cstdlib>
#include <optional>

using vrt::Rng;
using vrt::sfmt;
typedef std::string S;
static const size_t SMAX = static_cast<size_t>(-1);

static std::string show(const S &s) { return vrt::hex(s.data(), s.size()); }
static std::string showv(const std::vector<S> &v)
{
    std::string o = "[";
    for (size_t i = 0; i < v.size() && i < 12; ++i) { if (i) o += "|"; o += show(v[i]); }
    if (v.size() > 12) o += sfmt("|...(%zu pieces)", v.size());
    return o + "]";
}

// where two piece lists first differ (for results with thousands of pieces / pieces of hundreds of KiB)
static std::string diffv(const std::vector<S> &got, const std::vector<S> &want)
{
    size_t i = 0;
    while (i < got.size() && i < want.size() && got[i] == want[i]) ++i;
    std::string o = sfmt("pieces: got %zu want %zu; first difference at piece #%zu", got.size(), want.size(), i);
    if (i < got.size()) o += " got[" + scale::brief(got[i]) + "]";
    if (i < want.size()) o += " want[" + scale::brief(want[i]) + "]";
    return o;
}

enum Outcome { OK, UNICODE_ERROR, FAILED };

// run a call returning std::vector<ST::string>
template <typename F>
static Outcome call_vec(const char *op, const std::string &what, F &&f, std::vector<S> &out)
{
    vrt::cur_rewind();
    vrt::cur_printf("op=%s %s\n", op, what.c_str());
    vrt::evals();
    out.clear();
    try {
        vrt::alloc::LibScope ls;
        std::vector<ST::string> r = f();
        vrt::alloc::HarnessScope hs;
        for (const ST::string &p : r) {
            if (p.c_str()[p.size()] != 0) vrt::violation(sfmt("C09:%s:no-terminator", op), what);
            out.emplace_back(p.c_str(), p.size());
        }
        return OK;
    } catch (const ST::unicode_error &) {
        return UNICODE_ERROR;
    } catch (const std::bad_alloc &) {
        vrt::alloc::HarnessScope hs;
        if (vrt::alloc::reg().runaway)
            vrt::violation(sfmt("C09:%s:runaway-allocation", op), sfmt("more than 64 MiB requested inside one call; %s", what.c_str()));
        else
            vrt::violation(sfmt("C09:%s:bad_alloc", op), what);
        return FAILED;
    }
}
template <typename F>
static Outcome call_str(const char *op, const std::string &what, F &&f, S &out)
{
    vrt::cur_rewind();
    vrt::cur_printf("op=%s %s\n", op, what.c_str());
    vrt::evals();
    try {
        vrt::alloc::LibScope ls;
        ST::string r = f();
        vrt::alloc::HarnessScope hs;
        if (r.c_str()[r.size()] != 0) vrt::violation(sfmt("C09:%s:no-terminator", op), what);
        out.assign(r.c_str(), r.size());
        return OK;
    } catch (const ST::unicode_error &) {
        return UNICODE_ERROR;
    } catch (const std::bad_alloc &) {
        vrt::alloc::HarnessScope hs;
        if (vrt::alloc::reg().runaway)
            vrt::violation(sfmt("C09:%s:runaway-allocation", op), what);
        else
            vrt::violation(sfmt("C09:%s:bad_alloc", op), what);
        return FAILED;
    }
}

static bool any_invalid(const std::vector<S> &v)
{
    for (const S &p : v) if (!ref::utf8_ok(p)) return true;
    return false;
}
static bool has_high(const S &s)
{
    for (unsigned char c : s) if (c & 0x80) return true;
    return false;
}

// ---------------------------------------------------------------- split
// forms: which overloads get the call; held: the separator as the caller holds it (same bytes as sep, NUL-terminated) when the caller
// manages that storage itself, otherwise an exact-size copy is made here
enum { SF_STR = 1, SF_CSTR = 2, SF_CHAR8 = 4, SF_CHAR = 8, SF_ALL = 15 };
static void split_case(const vrt::Box<ST::string> &st, const S &s, const S &sep, size_t max, bool ci, unsigned forms = SF_ALL, const char *held = nullptr)
{
    ST::case_sensitivity_t cs = ci ? ST::case_insensitive : ST::case_sensitive;
    const std::vector<S> want = ref::split(s, sep, max, ci);
    std::string what = sfmt("subject=%s sep=%s max=%zu ci=%d", show(s).c_str(), show(sep).c_str(), max, ci);
    if (s.size() > 96) what += " [subject " + scale::brief(s) + sfmt(", sep len=%zu]", sep.size());
    std::vector<S> got;
    auto judge = [&](const char *form, Outcome o, bool may_throw) {
        if (o == FAILED) return;
        if (o == UNICODE_ERROR) {
            // only the validating const char* form may reject, and only pieces that are not valid UTF-8
            if (!(may_throw && any_invalid(want)))
                vrt::violation(sfmt("C09:split:%s:unexpected-unicode_error", form), what);
            else
                vrt::count("split.revalidation_rejected");
            return;
        }
        if (got != want)
            vrt::violation(sfmt("C09:split:%s:wrong-pieces", form), sfmt("%s got=%s want=%s%s", what.c_str(), showv(got).c_str(), showv(want).c_str(),
                                                                         s.size() > 96 ? (" " + diffv(got, want)).c_str() : ""));
        if (max != SMAX && got.size() > max + 1)
            vrt::violation(sfmt("C09:split:%s:too-many-pieces", form), sfmt("%s pieces=%zu", what.c_str(), got.size()));
        if (!ci && ref::join(got, sep) != s)
            vrt::violation(sfmt("C09:split:%s:join-not-inverse", form), sfmt("%s got=%s", what.c_str(), showv(got).c_str()));
        if (ci) {
            // case-insensitively: total length and order are still preserved
            size_t total = 0;
            for (const S &p : got) total += p.size();
            if (!got.empty() && total + (got.size() - 1) * sep.size() != s.size())
                vrt::violation(sfmt("C09:split:%s:length-not-conserved", form), what);
        }
    };
    Outcome o;
    if (forms & SF_STR) {
        vrt::Box<ST::string> ssep(vrt::mk(sep));
        o = call_vec("split", what + " form=ST::string", [&] { return st->split(*ssep, max, cs); }, got);
        judge("ST::string", o, false);
        if (max == SMAX && !ci) {
            o = call_vec("split", what + " form=ST::string/default-max", [&] { return st->split(*ssep); }, got);
            judge("ST::string", o, false);
        }
    }
    if ((forms & (SF_CSTR | SF_CHAR8)) && sep.find('\0') == S::npos) {
        std::optional<vrt::Exact<char>> c;
        if (!held) { c.emplace(sep.data(), sep.size(), true); held = c->data(); }
        if (forms & SF_CSTR) {
            o = call_vec("split", what + " form=const char*", [&] { return st->split(held, max, cs); }, got);
            judge("cstr", o, has_high(sep));
        }
        if (forms & SF_CHAR8) {
            o = call_vec("split", what + " form=const char8_t*", [&] { return st->split(reinterpret_cast<const char8_t *>(held), max, cs); }, got);
            judge("char8_t", o, has_high(sep));
        }
        vrt::count("split.form.cstr");
    }
    if ((forms & SF_CHAR) && sep.size() == 1 && sep[0] > 0 && static_cast<unsigned char>(sep[0]) < 0x80) {
        o = call_vec("split", what + " form=char", [&] { return st->split(sep[0], max, cs); }, got);
        judge("char", o, false);
        vrt::count("split.form.char");
    }
    vrt::count("split.cases");
    if (want.size() > 1) vrt::count("split.with_cuts");
    if (want.size() > 255) vrt::count("split.pieces>255");
    if (want.size() > 65535) vrt::count("split.pieces>65535");
    if (max != SMAX && ref::split(s, sep, SMAX, ci).size() > max + 1) vrt::count("split.limited_by_max");
    if (sep.empty()) vrt::count(s.find('\0') != S::npos ? "split.empty_sep_on_NUL_text" : "split.empty_sep");
    if (sep.size() > s.size()) vrt::count("split.sep_longer_than_subject");
    vrt::distinct(vrt::fnv_u64(ci, vrt::fnv_u64(max, vrt::fnv1a(sep.data(), sep.size(), vrt::fnv1a(s.data(), s.size(), 21)))));
}

// ---------------------------------------------------------------- replace
// forms: which groups of overloads get the call; held_from / held_to: pattern and replacement as the caller holds them (NUL-terminated,
// same bytes as from / to) when the caller manages that storage itself
enum { RF_STR = 1, RF_CSTR = 2, RF_STR_CSTR = 4, RF_CSTR_STR = 8, RF_DEPRECATED = 16, RF_ALL = 31 };
static void replace_case(const vrt::Box<ST::string> &st, const S &s, const S &from, const S &to, bool ci, unsigned forms = RF_ALL,
                         const char *held_from = nullptr, const char *held_to = nullptr)
{
    ST::case_sensitivity_t cs = ci ? ST::case_insensitive : ST::case_sensitive;
    size_t k = 0;
    const S want = ref::replace(s, from, to, ci, &k);
    std::string what = sfmt("subject=%s from=%s to=%s ci=%d", show(s).c_str(), show(from).c_str(), show(to).c_str(), ci);
    if (s.size() > 96) what += " [subject " + scale::brief(s) + sfmt(", from len=%zu, to len=%zu, %zu occurrences]", from.size(), to.size(), k);
    if (want.size() != s.size() + k * to.size() - k * from.size()) {
        vrt::violation("harness:replace-reference-length", what);   // reference self-check
        return;
    }
    // the string overload converts its byte result through the validating
    // constructor: a result that is not valid UTF-8 may be rejected (DESIGN 4/C09)
    const bool result_invalid = !ref::utf8_ok(want) && !(s.empty() || from.empty());
    vrt::Box<ST::string> sfrom(vrt::mk(from)), sto(vrt::mk(to));
    S got, got2;
    auto judge = [&](const char *form, Outcome o, bool may_throw, const S &g) {
        if (o == FAILED) return;
        if (o == UNICODE_ERROR) {
            if (!may_throw) vrt::violation(sfmt("C09:replace:%s:unexpected-unicode_error", form), what);
            else vrt::count("replace.revalidation_rejected");
            return;
        }
        if (g != want) {
            const size_t fd = scale::first_diff(g, want);
            vrt::violation(sfmt("C09:replace:%s:wrong-result", form), s.size() <= 96 ? sfmt("%s got=%s want=%s", what.c_str(), show(g).c_str(), show(want).c_str())
                           : sfmt("%s got: %s; want: %s; first difference at result offset %zu", what.c_str(), scale::brief(g, fd).c_str(), scale::brief(want, fd).c_str(), fd));
        }
    };
    if (forms & RF_STR) {
        // poison differential: bytes that differ between two runs with different
        // fresh-memory fill were never written (the two scans of replace disagree)
        vrt::alloc::set_poison(0xA5);
        Outcome o1 = call_str("replace", what + " form=str,str", [&] { return st->replace(*sfrom, *sto, cs); }, got);
        vrt::alloc::set_poison(0x5A);
        Outcome o2 = call_str("replace", what + " form=str,str", [&] { return st->replace(*sfrom, *sto, cs); }, got2);
        vrt::alloc::set_poison(-1);
        if (o1 == OK && o2 == OK && got != got2)
            vrt::violation("C09:replace:unwritten-result-bytes", sfmt("%s run1=%s run2=%s", what.c_str(), show(got).c_str(), show(got2).c_str()));
        if (o1 != o2)
            vrt::violation("C09:replace:nondeterministic-outcome", what);
        judge("str,str", o1, result_invalid, got);
        if (to == from) {
            // the same object as pattern and as replacement (case-insensitively this still rewrites differently-cased occurrences),
            // and the subject itself in either role
            Outcome o = call_str("replace", what + " form=same object twice", [&] { return st->replace(*sfrom, *sfrom, cs); }, got);
            judge("same-object-twice", o, result_invalid, got);
            vrt::count("replace.same_object_twice");
        }
        if (from == s) {
            Outcome o = call_str("replace", what + " form=subject as pattern", [&] { return st->replace(*st, *sto, cs); }, got);
            judge("subject-as-pattern", o, result_invalid, got);
        }
        if (to == s) {
            Outcome o = call_str("replace", what + " form=subject as replacement", [&] { return st->replace(*sfrom, *st, cs); }, got);
            judge("subject-as-replacement", o, result_invalid, got);
        }
    }
    const bool from_c = from.find('\0') == S::npos, to_c = to.find('\0') == S::npos;
    std::optional<vrt::Exact<char>> cf, ct;
    if (!held_from) { cf.emplace(from.data(), from.size(), true); held_from = cf->data(); }
    if (!held_to) { ct.emplace(to.data(), to.size(), true); held_to = ct->data(); }
    const char8_t *from8 = reinterpret_cast<const char8_t *>(held_from), *to8 = reinterpret_cast<const char8_t *>(held_to);
    // const char* forms validate their arguments (default mode: check_validity)
    if ((forms & RF_CSTR) && from_c && to_c) {
        Outcome o = call_str("replace", what + " form=cstr,cstr", [&] { return st->replace(held_from, held_to, cs); }, got);
        judge("cstr,cstr", o, result_invalid || !ref::utf8_ok(from) || !ref::utf8_ok(to), got);
        o = call_str("replace", what + " form=char8_t,char8_t", [&] { return st->replace(from8, to8, cs); }, got);
        judge("char8_t,char8_t", o, result_invalid || !ref::utf8_ok(from) || !ref::utf8_ok(to), got);
        o = call_str("replace", what + " form=cstr,cstr,assume_valid", [&] { return st->replace(held_from, held_to, cs, ST::assume_valid); }, got);
        judge("cstr,cstr,assume_valid", o, result_invalid, got);
        vrt::count("replace.form.cstr");
    }
    if ((forms & RF_STR_CSTR) && to_c) {
        Outcome o = call_str("replace", what + " form=str,cstr", [&] { return st->replace(*sfrom, held_to, cs); }, got);
        judge("str,cstr", o, result_invalid || !ref::utf8_ok(to), got);
        o = call_str("replace", what + " form=str,char8_t", [&] { return st->replace(*sfrom, to8, cs); }, got);
        judge("str,char8_t", o, result_invalid || !ref::utf8_ok(to), got);
    }
    if ((forms & RF_CSTR_STR) && from_c) {
        Outcome o = call_str("replace", what + " form=cstr,str", [&] { return st->replace(held_from, *sto, cs); }, got);
        judge("cstr,str", o, result_invalid || !ref::utf8_ok(from), got);
        o = call_str("replace", what + " form=char8_t,str", [&] { return st->replace(from8, *sto, cs); }, got);
        judge("char8_t,str", o, result_invalid || !ref::utf8_ok(from), got);
    }
    if (forms & RF_DEPRECATED) {
        // deprecated overload that takes (and ignores) a validation mode
        Outcome o = call_str("replace", what + " form=str,str,validation [deprecated]", [&] { return st->replace(*sfrom, *sto, cs, ST::assume_valid); }, got);
        judge("str,str,validation", o, result_invalid, got);
    }
    vrt::count("replace.cases");
    if (k) vrt::count("replace.with_matches");
    if (k > 1) vrt::count("replace.multiple_matches");
    if (k >= 1000) vrt::count("replace.occurrences>=1000");
    if (k > 65535) vrt::count("replace.occurrences>65535");
    if (to.size() > from.size() && k) vrt::count("replace.grows");
    if (to.size() < from.size() && k) vrt::count("replace.shrinks");
    if (from.empty()) vrt::count("replace.empty_pattern");
    if ((s.size() < 16) != (want.size() < 16)) vrt::count("replace.crosses_sso_limit");
    vrt::distinct(vrt::fnv_u64(ci, vrt::fnv1a(to.data(), to.size(), vrt::fnv1a(from.data(), from.size(), vrt::fnv1a(s.data(), s.size(), 22)))));
}

// ---------------------------------------------------------------- tokenize
// held: the delimiters as the caller holds them (same bytes as *delims, NUL-terminated) when the caller manages that storage itself
static void tokenize_case(const vrt::Box<ST::string> &st, const S &s, const S *delims, const char *held = nullptr)
{
    S set = delims ? *delims : S(" \t\r\n");
    std::string what = sfmt("subject=%s delims=%s%s", show(s).c_str(), show(set).c_str(), delims ? "" : "(default)");
    if (s.size() > 96) what += " [subject " + scale::brief(s) + "]";
    const std::vector<S> want = ref::tokenize(s, set);
    std::vector<S> got;
    std::optional<vrt::Exact<char>> c;
    if (!held) { c.emplace(set.data(), set.size(), true); held = c->data(); }
    Outcome o = call_vec("tokenize", what, [&] { return delims ? st->tokenize(held) : st->tokenize(); }, got);
    if (o == UNICODE_ERROR) vrt::violation("C09:tokenize:unexpected-unicode_error", what);
    else if (o == OK && got != want)
        vrt::violation("C09:tokenize:wrong-tokens", sfmt("%s got=%s want=%s%s", what.c_str(), showv(got).c_str(), showv(want).c_str(),
                                                         s.size() > 96 ? (" " + diffv(got, want)).c_str() : ""));
    vrt::count("tokenize.cases");
    if (want.size() > 255) vrt::count("tokenize.tokens>255");
    if (want.size() > 65535) vrt::count("tokenize.tokens>65535");
    if (want.size() > 1) vrt::count("tokenize.multiple_tokens");
    if (want.empty() && !s.empty()) vrt::count("tokenize.only_delimiters");
    vrt::distinct(vrt::fnv1a(set.data(), set.size(), vrt::fnv1a(s.data(), s.size(), 23)));
}


// ---------------------------------------------------------------- generators of the scale phase
// len bytes drawn from `alphabet`
static S fill_random(Rng &r, size_t len, const S &alphabet)
{
    S s(len, '\0');
    for (size_t i = 0; i < len;) {
        uint64_t v = r.next();
        for (int k = 0; k < 8 && i < len; ++k, v >>= 8) s[i++] = alphabet[(v & 0xFF) % alphabet.size()];
    }
    return s;
}
// backgrounds that cannot match a separator over a disjoint alphabet: ASCII (constant / random), well-formed UTF-8 with two-byte
// characters (so that replace's result stays valid and is compared, not rejected), raw high bytes
struct Background {
    S alphabet;       // the bytes it may contain
    bool utf8_pairs;  // "x" and U+00E9 mixed; occurrences planted into it get their edges repaired
};
static S make_background(Rng &r, size_t len, const Background &bg)
{
    if (!bg.utf8_pairs) return r.chance(1, 3) ? S(len, bg.alphabet[r.below(bg.alphabet.size())]) : fill_random(r, len, bg.alphabet);
    S s;
    s.reserve(len + 2);
    while (s.size() < len) {
        uint64_t v = r.next();
        for (int k = 0; k < 32 && s.size() < len; ++k, v >>= 2) {
            if ((v & 3) && s.size() + 2 <= len) s += "\xc3\xa9";
            else s += 'x';
        }
    }
    return s;
}
// overwrite [at, at+piece) and keep a two-byte-character background well formed around it
static void plant_in(S &h, size_t at, const S &piece, const Background &bg)
{
    for (size_t k = 0; k < piece.size(); ++k) h[at + k] = piece[k];
    if (!bg.utf8_pairs) return;
    if (at > 0 && static_cast<unsigned char>(h[at - 1]) == 0xC3) h[at - 1] = 'x';
    if (at + piece.size() < h.size() && static_cast<unsigned char>(h[at + piece.size()]) == 0xA9) h[at + piece.size()] = 'x';
}
static Background pick_background(Rng &r, const S &avoid)
{
    static const char *const ascii[] = {"x", "xy", "xyz.", "@[", "X", "x "};
    static const char *const raw[] = {"\xff", "\xe9\xeb", "\xe9"};
    for (;;) {
        Background bg;
        const unsigned k = static_cast<unsigned>(r.below(8));
        bg.utf8_pairs = k == 5 || k == 6;
        bg.alphabet = bg.utf8_pairs ? S("x\xc3\xa9") : k == 7 ? S(raw[r.below(3)]) : S(ascii[r.below(6)]);
        bool clash = false;
        for (unsigned char x : bg.alphabet) for (unsigned char y : avoid) if (ref::fold(x) == ref::fold(y)) clash = true;
        if (!clash) return bg;
    }
}
// an occurrence of n as the text spells it: exactly, or (when the case is mixed) with its ASCII letters in the other case
static S spelled(Rng &r, const S &n, bool exact)
{
    if (exact || r.chance(1, 3)) return n;
    return r.chance(1, 2) ? ref::uppered(n) : ref::folded(n);
}
// a byte that is NOT in `set` but equals a member modulo 128 / modulo 64
static bool alias_of_member(Rng &r, const S &set, char &out)
{
    if (set.empty()) return false;
    for (int tries = 0; tries < 16; ++tries) {
        const unsigned m = static_cast<unsigned char>(set[r.below(set.size())]);
        const unsigned cand[4] = {m ^ 0x80u, (m & 0x3Fu) | 0x80u, (m & 0x3Fu) | 0xC0u, m ^ 0x40u};
        const unsigned c = cand[r.below(4)];
        if (c != 0 && !ref::in_set(set, static_cast<char>(c))) { out = static_cast<char>(c); return true; }
    }
    return false;
}

// ---------------------------------------------------------------- helpers of the same_storage / soak / alignment phases
// Caller-side storage: n bytes and a NUL in a heap block that ends right behind the NUL and whose data starts at an address congruent
// to `align` modulo 16 (the bytes in front of it, if any, belong to the block and repeat the data, so an under-read changes a
// result).  The content is rewritten in place: same address, same length, other bytes.
struct Placed {
    char *base, *p;
    size_t n, lead;
    Placed(size_t len, unsigned align) : n(len), lead(align % 16)
    {
        void *m = nullptr;
        if (posix_memalign(&m, 16, lead + len + 1) != 0 || !m) { fprintf(stderr, "vrt: out of memory\n"); _exit(98); }
        base = static_cast<char *>(m);
        p = base + lead;
        memset(base, 0x80, lead);
        p[len] = '\0';
    }
    Placed(const Placed &) = delete;
    Placed &operator=(const Placed &) = delete;
    ~Placed() { free(base); }
    const char *write(const S &s)
    {
        memcpy(p, s.data(), n);
        for (size_t i = 0; i < lead && n; ++i) base[lead - 1 - i] = s[n - 1 - i % n];
        return p;
    }
};
static bool is_letter(char c) { return (c >= 'a' && c <= 'z') || (c >= 'A' && c <= 'Z'); }
static char other_case(char c) { return is_letter(c) ? static_cast<char>(c ^ 0x20) : c; }
// a byte of the same kind (letter / other) as c that differs from it by more than letter case
static char different_byte(Rng &r, char c)
{
    if (is_letter(c)) return static_cast<char>(((c & 0x20) ? 'a' : 'A') + (ref::fold(static_cast<unsigned char>(c)) - 'a' + 1 + r.below(25)) % 26);
    static const char other[] = "-_#+";
    for (;;) { const char d = other[r.below(4)]; if (d != c) return d; }
}
enum { NM_HARD, NM_CASE, NM_CASE_THEN_HARD, NM_KINDS };
// a copy of sep that differs from it at index j: by more than letter case (NM_HARD), by letter case only (NM_CASE), or by letter case at
// j and by more than case at a later index (NM_CASE_THEN_HARD); `mixed`: other letters change case as well.  false: not possible at j.
static bool near_miss(Rng &r, const S &sep, size_t j, unsigned kind, bool mixed, S &out)
{
    out = sep;
    size_t j2 = sep.size();
    if (kind == NM_HARD) out[j] = different_byte(r, sep[j]);
    else {
        if (!is_letter(sep[j])) return false;
        out[j] = other_case(sep[j]);
        if (kind == NM_CASE_THEN_HARD) {
            if (j + 1 >= sep.size()) return false;
            j2 = r.chance(1, 3) ? sep.size() - 1 : j + 1 + r.below(sep.size() - j - 1);
            out[j2] = different_byte(r, sep[j2]);
        }
    }
    if (mixed)
        for (size_t k = 0; k < sep.size(); ++k)
            if (k != j && k != j2 && r.chance(1, 4)) out[k] = other_case(out[k]);
    return true;
}
// the letters of n in random case
static S random_case(Rng &r, const S &n)
{
    S o(n);
    for (auto &c : o) if (r.chance(1, 2)) c = other_case(c);
    return o;
}

static void body()
{
    ambient::enable(3);
    vrt::require("split.cases", 1000);
    vrt::require("split.with_cuts", 500);
    vrt::require("split.limited_by_max", 100);
    vrt::require("split.empty_sep_on_NUL_text", 10);
    vrt::require("split.form.char", 100);
    vrt::require("split.form.cstr", 100);
    vrt::require("split.huge_max", 100);
    vrt::require("replace.cases", 1000);
    vrt::require("replace.same_object_twice", 200);
    vrt::require("replace.multiple_matches", 100);
    vrt::require("replace.grows", 100);
    vrt::require("replace.shrinks", 100);
    vrt::require("replace.crosses_sso_limit", 10);
    vrt::require("replace.empty_pattern", 10);
    vrt::require("tokenize.cases", 500);
    vrt::require("tokenize.multiple_tokens", 100);

    // ASCII + NUL only in the exhaustive sweeps: results stay valid UTF-8, so the
    // re-validating overloads do not spend the budget on throwing (non-ASCII and
    // invalid UTF-8 are covered by the random phase)
    S alpha = "abA,;";
    alpha.push_back('\0');
    const size_t smax = vrt::thorough() ? 6 : 5, pmax = vrt::thorough() ? 3 : 2;
    const uint64_t ns = gen::count_strings(alpha.size(), smax), np = gen::count_strings(alpha.size(), pmax);
    vrt::note(sfmt("split exhaustive sweep: all subjects of length <= %zu x separators of length <= %zu over {a,b,A,',',';',NUL} x max_splits in {0,1,2,SIZE_MAX} x both case modes x every overload form", smax, pmax));
    static const size_t maxes[] = {0, 1, 2, SMAX};
    vrt::phase("split_exhaustive", ns, [&](uint64_t i, Rng &) {
        S s, sep;
        gen::nth_string(i, alpha, smax, s);
        vrt::Box<ST::string> st(vrt::mk(s));
        for (uint64_t j = 0; j < np; ++j) {
            gen::nth_string(j, alpha, pmax, sep);
            for (size_t m : maxes) {
                split_case(st, s, sep, m, false);
                split_case(st, s, sep, m, true);
            }
        }
        if (vrt::str_of(*st) != s) vrt::violation("C09:split:subject-changed", show(s));
        if (vrt::want_sample("split_exhaustive") && s.size() == smax && s.find(',') != S::npos)
            vrt::sample("split_exhaustive", sfmt("subject=%s x all %llu separators x max in {0,1,2,SIZE_MAX} x {cs,ci}", show(s).c_str(), static_cast<unsigned long long>(np)));
    });

    const size_t rsmax = vrt::thorough() ? 5 : 4, rpmax = 2;
    const uint64_t rns = gen::count_strings(alpha.size(), rsmax), rnp = gen::count_strings(alpha.size(), rpmax);
    vrt::note(sfmt("replace exhaustive sweep: all subjects of length <= %zu x patterns of length <= %zu x 8 replacement shapes x both case modes", rsmax, rpmax));
    vrt::phase("replace_exhaustive", rns, [&](uint64_t i, Rng &) {
        S s, from;
        gen::nth_string(i, alpha, rsmax, s);
        vrt::Box<ST::string> st(vrt::mk(s));
        for (uint64_t j = 0; j < rnp; ++j) {
            gen::nth_string(j, alpha, rpmax, from);
            S nul(1, '\0');
            const S tos[] = {S(), S("a"), S(","), S("ab"), from, from + from, S("A,b\xc3\xa9"), S("0123456789abcdefXYZ"), nul};
            for (const S &to : tos) {
                replace_case(st, s, from, to, false);
                replace_case(st, s, from, to, true);
            }
        }
        if (vrt::str_of(*st) != s) vrt::violation("C09:replace:subject-changed", show(s));
    });

    // random longer subjects: adjacent / overlapping / trailing occurrences, growth and
    // shrinkage across the small-string limit
    vrt::phase("random", vrt::tier_count(40000, 3000000), [&](uint64_t, Rng &r) {
        S al;
        switch (r.below(5)) {
        case 0: al = "ab,"; break;
        case 1: al = "aAbB,;"; break;
        case 4: al = "@`[{^~_\x7f,\x0c; \t)kK"; break;     // non-letters next to their bit-5 "twins": folding must touch A-Z only
        case 2: al = "ab, \t\xc3\xa9"; break;
        default: al = "aA,"; al.push_back('\0'); break;
        }
        if (r.chance(1, 6)) al = r.chance(2, 3) ? S("iI,;x") : S("iI\xc9\xe9,");     // letters / bytes that locale-dependent case mapping treats differently
        S s = gen::bytes_over(r, gen::pick_len(r) % 80, al);
        S sep;
        switch (r.below(7)) {
        case 0: sep = ""; break;
        case 1: sep = s; break;
        case 2: sep = s + "a"; break;
        case 3: case 4:
            if (!s.empty()) {
                size_t b = r.below(s.size());
                sep = s.substr(b, 1 + r.below(std::min<size_t>(3, s.size() - b)));
                if (r.chance(1, 3)) sep = ref::uppered(sep);
                break;
            }
            /* fall through */
        default: { S u = gen::bytes_over(r, 1, al); sep = r.chance(1, 3) ? u + u : r.chance(1, 2) ? u : gen::bytes_over(r, 1 + r.below(3), al); }
        }
        vrt::Box<ST::string> st(vrt::mk(s));
        bool ci = r.chance(1, 2);
        size_t occ = ref::split(s, sep, SMAX, ci).size() - 1;
        size_t max;
        switch (r.below(7)) {
        case 0: max = 0; break;
        case 1: max = SMAX; break;
        case 6: {   // limits far beyond the number of occurrences ("all values of max_splits from 0 to SIZE_MAX")
            static const size_t huge[] = {SMAX - 1, SMAX - 2, SMAX / 2, SMAX / 2 + 1, SMAX / 2 - 1, size_t(1) << 32, (size_t(1) << 32) - 1, size_t(1) << 31,
                                          (size_t(1) << 31) - 1, SMAX / 8, SMAX / 16 + 1, size_t(1) << 40, 1000003};
            max = r.pick(huge);
            vrt::count("split.huge_max");
            break;
        }
        case 2: max = occ; break;
        case 3: max = occ ? occ - 1 : 1; break;
        case 4: max = occ + 1; break;
        default: max = r.below(5); break;
        }
        split_case(st, s, sep, max, ci);
        S to;
        switch (r.below(5)) {
        case 0: to = ""; break;
        case 1: to = sep; break;
        case 2: to = sep + sep; break;
        case 3: to = gen::bytes_over(r, r.below(24), al); break;
        default: to = gen::bytes_over(r, 1 + r.below(2), al); break;
        }
        replace_case(st, s, sep, to, ci);
        if (r.chance(1, 2)) {
            S d = gen::bytes_over(r, r.below(4), al);
            size_t z = d.find('\0');
            if (z != S::npos) d.erase(z);
            tokenize_case(st, s, &d);
        } else tokenize_case(st, s, nullptr);
        if (vrt::want_sample("random") && occ > 1 && s.size() > 10)
            vrt::sample("random", sfmt("subject=%s sep=%s max=%zu ci=%d to=%s", show(s).c_str(), show(sep).c_str(), max, ci, show(to).c_str()));
    });

    // tokenize: directed
    vrt::phase("tokenize", vrt::tier_count(20000, 1000000), [&](uint64_t, Rng &r) {
        S dl = r.chance(1, 2) ? S(" \t\r\n") : S(",;");
        S other = "xyZ\xc3\xa9";
        if (r.chance(1, 3)) other.push_back('\0');
        S s;
        size_t runs = r.below(6);
        for (size_t k = 0; k < runs; ++k) {
            s += gen::bytes_over(r, r.below(4), dl);
            s += gen::bytes_over(r, r.below(9), other);
        }
        s += gen::bytes_over(r, r.below(3), dl);
        vrt::Box<ST::string> st(vrt::mk(s));
        if (dl[0] == ' ' && r.chance(1, 2)) tokenize_case(st, s, nullptr);
        else tokenize_case(st, s, &dl);
        S empty;
        if (r.chance(1, 20)) tokenize_case(st, s, &empty);
    });
    // ---- scale: subjects of 4 KiB .. ~1.3 MiB.  The case index walks a grid block size B x multiple q x family.  What sits on / next to
    // the multiple q*B, per family: the distance from the beginning of the text - or from the place where the previous search ended - to a
    // separator / pattern occurrence that straddles or touches that point (with match-free stretches of 64 KiB and more in front of it);
    // the number of pieces / tokens / replaced occurrences (past 255 and 65535); the length of a run of delimiters or of a token; the
    // number of densely packed pattern occurrences of a growing / shrinking replace.
    {
        vrt::require("scale.cases", 200);
        vrt::require("scale.planted.cases", 80);
        vrt::require("scale.planted.occurrence_straddles_block_boundary", 80);
        vrt::require("scale.planted.measured_from.beginning", 40);
        vrt::require("scale.planted.measured_from.previous_occurrence", 40);
        vrt::require("scale.planted.match_free_stretch>=64KiB", 40);
        vrt::require("scale.planted.long_separator", 10);
        vrt::require("scale.many_pieces.cases", 40);
        vrt::require("scale.token_runs.cases", 40);
        vrt::require("scale.token_runs.token_edge_aliases_delimiter", 20);
        vrt::require("scale.dense_replace.cases", 40);
        vrt::require("scale.subject>=64KiB", 40);
        vrt::require("scale.subject>=256KiB", 20);
        vrt::require("split.pieces>255", 20);
        vrt::require("split.pieces>65535", 10);
        vrt::require("split.max_near_255_or_65535", 20);
        vrt::require("tokenize.tokens>255", 10);
        vrt::require("tokenize.tokens>65535", 5);
        vrt::require("replace.occurrences>=1000", 20);
        vrt::require("replace.occurrences>65535", 5);
        const std::vector<size_t> &BL = scale::blocks();
        const uint64_t G = BL.size() * 8;
        enum { PLANT_BEGIN, PLANT_AFTER_PREFIX, MANY_PIECES, TOKEN_RUNS, DENSE_REPLACE, NKINDS };
        vrt::phase("scale", vrt::tier_count(NKINDS * G, 20 * NKINDS * G), [&](uint64_t i, Rng &r) {
            size_t B = BL[i % BL.size()], q = 1 + (i / BL.size()) % 8;
            const unsigned kind = static_cast<unsigned>((i / G) % NKINDS);
            const size_t cap = 1u << 20;
            while (q > 1 && q * B > cap) q = (q + 1) / 2;
            const size_t dist = q * B;
            size_t subject_len = 0;
            if (kind == PLANT_BEGIN || kind == PLANT_AFTER_PREFIX) {
                static const char *const nalpha[] = {"ab", "aAbB", "iI", "Kk", "a`{", ":", ",;", "zZ9", "ab\x80", "Ii\xc9"};
                S al = nalpha[r.below(sizeof(nalpha) / sizeof(nalpha[0]))];
                const Background bg = pick_background(r, al);
                if (r.chance(1, 6)) al.push_back('\0');
                const size_t nlen = r.chance(1, 8) ? 1 : r.chance(1, 3) ? 9 + r.below(292) : 2 + r.below(7);
                const S n = gen::bytes_over(r, nlen, al);
                const bool exact = r.chance(1, 2);
                // where the occurrences go: the gap between the place a search (re)starts and the point an occurrence straddles is a grid distance
                std::vector<size_t> ats;
                size_t pos = 0, straddling = 0, long_gaps = 0;
                if (kind == PLANT_AFTER_PREFIX) { const size_t p0 = r.below(48); ats.push_back(p0); pos = p0 + nlen; }
                const unsigned nocc = 1 + static_cast<unsigned>(r.below(4));
                for (unsigned j = 0; j < nocc; ++j) {
                    size_t gap = dist;
                    if (j > 0 && r.chance(1, 2)) gap = (1 + r.below(4)) * scale::block(r, 262144);
                    if (j > 0 && pos + gap + nlen > cap + 200000) break;
                    const size_t back = (nlen >= 2 && r.chance(3, 4)) ? 1 + r.below(nlen - 1) : r.chance(1, 2) ? 0 : nlen;
                    const long d = r.chance(1, 5) ? scale::nudge(r) : 0;
                    long at = static_cast<long>(pos + gap) + d - static_cast<long>(back);
                    if (at < static_cast<long>(pos)) at = static_cast<long>(pos);
                    if (back > 0 && back < nlen && static_cast<size_t>(at) + back == pos + gap) ++straddling;
                    if (static_cast<size_t>(at) - pos >= 65536) ++long_gaps;
                    ats.push_back(static_cast<size_t>(at));
                    pos = static_cast<size_t>(at) + nlen;
                }
                const size_t margin = r.chance(1, 3) ? r.below(40) : r.chance(1, 2) ? 1000 + r.below(70000) : 131072 + r.below(70000);
                const size_t len = pos + margin;
                S h = make_background(r, len, bg);
                for (size_t at : ats) plant_in(h, at, spelled(r, n, exact), bg);
                vrt::Box<ST::string> st(vrt::mk(h));
                const size_t K = ats.size();
                const size_t maxes[] = {K, K ? K - 1 : 0, 1, 0, K + 1, 2};
                const bool ci1 = r.chance(1, 2);
                split_case(st, h, n, SMAX, ci1);
                split_case(st, h, n, SMAX, !ci1);
                split_case(st, h, n, maxes[r.below(6)], r.chance(1, 2));
                S to;
                switch (r.below(6)) {
                case 0: to = ""; break;
                case 1: to = S(nlen, '#'); break;
                case 2: to = n + n; break;
                case 3: to = S(nlen > 1 ? nlen - 1 : 0, '-'); break;
                case 4: to = S(nlen + 1 + r.below(5), '+'); break;
                default: to = gen::bytes_over(r, 1 + r.below(300), "#-+"); break;
                }
                replace_case(st, h, n, to, ci1);
                replace_case(st, h, n, to, !ci1);
                if (vrt::str_of(*st) != h) vrt::violation("C09:split:subject-changed", scale::brief(h));
                vrt::count("scale.planted.cases");
                vrt::count(kind == PLANT_BEGIN ? "scale.planted.measured_from.beginning" : "scale.planted.measured_from.previous_occurrence");
                if (kind == PLANT_BEGIN && K > 1) vrt::count("scale.planted.measured_from.previous_occurrence");
                if (straddling) vrt::count("scale.planted.occurrence_straddles_block_boundary");
                if (long_gaps) vrt::count("scale.planted.match_free_stretch>=64KiB");
                if (nlen >= 9) vrt::count("scale.planted.long_separator");
                subject_len = len;
                if (vrt::want_sample("scale") && K > 1 && straddling)
                    vrt::sample("scale", sfmt("subject %s sep=%s block=%zu x %zu: %zu occurrence(s), first at %zu, last at %zu, each planted a grid distance behind the place the previous search ended; replacement of %zu bytes",
                                              scale::brief(h, ats[K - 1]).c_str(), show(n).c_str(), B, q, K, ats[0], ats[K - 1], to.size()));
            } else if (kind == MANY_PIECES) {
                size_t cnt = dist;
                while (cnt > 300000) cnt /= 2;
                cnt = static_cast<size_t>(std::max<long>(2, static_cast<long>(cnt) + scale::nudge(r)));
                const bool one = r.chance(3, 4);
                S sep;
                if (one) sep = S(1, "," ";" "a" "|" "\x01" "\x7f" "Z"[r.below(7)]);
                else sep = gen::bytes_over(r, 2 + r.below(r.chance(1, 4) ? 299 : 7), r.chance(1, 2) ? S(",;") : S("aAb,"));
                if (!one) cnt = std::max<size_t>(2, std::min(cnt, (cap - 1) / (sep.size() + 2)));
                const bool exact = r.chance(1, 2);
                static const char *const units[] = {"x", "y", "\xc3\xa9", "X", "."};
                const unsigned nunits = 1 + static_cast<unsigned>(r.below(5));
                const unsigned empty_in = 2 + static_cast<unsigned>(r.below(6));      // one piece in that many is empty
                S s;
                s.reserve(cnt * (sep.size() + 3));
                for (size_t p = 0; p < cnt; ++p) {
                    const uint64_t v = r.next();
                    size_t plen = (v & 0xFF) % empty_in == 0 ? 0 : 1 + ((v >> 8) & 3);
                    if (((v >> 16) & 0x3FF) == 0) plen = 16 + ((v >> 26) & 31);                        // a piece that needs heap storage
                    if (((v >> 32) & 0xFFFF) == 0) plen = 4096 + ((v >> 48) & 0xFF);
                    for (size_t k = 0; k < plen; ++k) s += units[(v >> (40 + 2 * (k & 7))) % nunits];
                    if (p + 1 < cnt) s += spelled(r, sep, exact);
                }
                vrt::Box<ST::string> st(vrt::mk(s));
                const size_t near_count[] = {cnt - 1, cnt - 2, cnt, SMAX, SMAX, SMAX - 1};
                const size_t near_width[] = {254, 255, 256, 257, 65534, 65535, 65536, 65537, cnt / 2};
                const bool ci1 = r.chance(1, 2);
                split_case(st, s, sep, near_count[r.below(6)], ci1);
                const size_t m2 = near_width[r.below(9)];
                split_case(st, s, sep, m2, !ci1);
                if (m2 < cnt - 1) vrt::count("split.max_near_255_or_65535");
                if (sep.find('\0') == S::npos) {
                    S d = sep;
                    if (r.chance(1, 2)) d += '#';
                    tokenize_case(st, s, &d);
                }
                if (cnt <= 70000 || r.chance(1, 3)) {
                    static const char *const tos[] = {"", "#", "##", "-+-+-"};
                    const S to = r.chance(1, 5) ? sep + sep : S(tos[r.below(4)]);
                    replace_case(st, s, sep, to, r.chance(1, 2));
                }
                if (vrt::str_of(*st) != s) vrt::violation("C09:split:subject-changed", scale::brief(s));
                vrt::count("scale.many_pieces.cases");
                subject_len = s.size();
                if (vrt::want_sample("scale.many_pieces"))
                    vrt::sample("scale.many_pieces", sfmt("subject %s: %zu pieces (block=%zu x %zu) joined by sep=%s, max_splits %zu", scale::brief(s).c_str(), cnt, B, q, show(sep).c_str(), m2));
            } else if (kind == TOKEN_RUNS) {
                static const std::vector<S> sets = [] {
                    std::vector<S> o = {",;", " \t", "|", "\xc2\xa0 ", "\xe9\x80,", ",", "\x7f\x01"};
                    S punct;
                    for (int ch = 0x20; ch < 0x40; ++ch) punct += static_cast<char>(ch);
                    o.push_back(punct);
                    return o;
                }();
                const bool dflt = r.chance(1, 4);
                const S set = dflt ? S(" \t\r\n") : sets[r.below(sets.size())];
                S non;
                for (int ch = 1; ch < 256; ++ch) if (!ref::in_set(set, static_cast<char>(ch))) non += static_cast<char>(ch);
                S tok_alpha;
                for (int k = 0; k < 3; ++k) tok_alpha += non[r.below(non.size())];
                if (r.chance(1, 8)) tok_alpha.push_back('\0');
                // segments: run, token, run, token ... run; one of them has the grid length, the others are short or have another grid length
                const size_t nseg = 2 * (1 + r.below(5)) + 1, big = r.below(nseg);
                S s;
                size_t aliased = 0;
                for (size_t g = 0; g < nseg; ++g) {
                    const bool is_run = g % 2 == 0;
                    size_t sl;
                    if (g == big) sl = static_cast<size_t>(std::max<long>(1, static_cast<long>(dist) + scale::nudge(r)));
                    else if (r.chance(1, 4)) sl = scale::length(r, 65536, 16);
                    else sl = (is_run && (g == 0 || g + 1 == nseg)) ? r.below(20) : 1 + r.below(20);
                    if (is_run) { s += fill_random(r, sl, set); continue; }
                    S tk = r.chance(1, 3) ? S(sl, tok_alpha[0]) : fill_random(r, sl, tok_alpha);
                    char a;
                    if (r.chance(1, 2) && alias_of_member(r, set, a)) { tk[0] = a; ++aliased; }
                    if (r.chance(1, 2) && alias_of_member(r, set, a)) { tk[sl - 1] = a; ++aliased; }
                    s += tk;
                }
                vrt::Box<ST::string> st(vrt::mk(s));
                tokenize_case(st, s, dflt ? nullptr : &set);
                const char c0 = set[0];
                if (r.chance(1, 3) && c0 > 0 && static_cast<size_t>(std::count(s.begin(), s.end(), c0)) <= 300000) {
                    // the same text cut at every single delimiter byte: a run of delimiters is a run of empty pieces
                    const size_t near_width[] = {SMAX, 255, 256, 65535, 65536, 1};
                    split_case(st, s, S(1, c0), near_width[r.below(6)], r.chance(1, 2));
                }
                if (vrt::str_of(*st) != s) vrt::violation("C09:tokenize:subject-changed", scale::brief(s));
                vrt::count("scale.token_runs.cases");
                if (aliased) vrt::count("scale.token_runs.token_edge_aliases_delimiter");
                if (big % 2 == 0) vrt::count("scale.token_runs.long_run_of_delimiters"); else vrt::count("scale.token_runs.long_token");
                subject_len = s.size();
                if (vrt::want_sample("scale.token_runs"))
                    vrt::sample("scale.token_runs", sfmt("subject %s delims=%s%s: %zu segments (runs of delimiters and tokens alternating), segment #%zu is %zu x %zu long",
                                                         scale::brief(s).c_str(), show(set).c_str(), dflt ? "(default)" : "", nseg, big, B, q));
            } else {
                // DENSE_REPLACE: K occurrences (K on the grid) packed with gaps of 0..3 bytes, replaced by something shorter / longer
                size_t K = dist;
                while (K > 150000) K /= 2;
                K = static_cast<size_t>(std::max<long>(2, static_cast<long>(K) + scale::nudge(r)));
                S s, from, to;
                const bool self_overlap = r.chance(1, 6);
                if (self_overlap) {
                    static const char *const pats[] = {"aa", "aaa", "aA", "abab", "aaaaaaaaa"};
                    from = pats[r.below(5)];
                    s = "x";
                    if (from == "abab") for (size_t k = 0; k < K; ++k) s += (k % 2 ? 'b' : 'a'); else s += S(K, 'a');
                    if (r.chance(1, 2)) for (size_t k = 1; k < s.size(); k += 1 + r.below(7)) s[k] = static_cast<char>(s[k] - 32);
                    s += "yz";
                } else {
                    static const char *const falpha[] = {"ab", "aAbB", "iI", ",;", "Kk"};
                    const S al = falpha[r.below(5)];
                    const size_t flen = r.chance(1, 4) ? 1 : r.chance(1, 3) ? 9 + r.below(292) : 2 + r.below(7);
                    from = gen::bytes_over(r, flen, al);
                    K = std::max<size_t>(2, std::min(K, cap / (flen + 2)));
                    const Background bg = pick_background(r, al);
                    const bool exact = r.chance(1, 2);
                    const S filler = bg.utf8_pairs ? S("x") : bg.alphabet;
                    s.reserve(K * (flen + 3));
                    for (size_t k = 0; k < K; ++k) {
                        const uint64_t v = r.next();
                        for (size_t g = (v & 3); g > 0; --g) s += filler[(v >> (8 * g)) % filler.size()];
                        s += spelled(r, from, exact);
                    }
                    s += filler[0];
                }
                const size_t room = (size_t(4) << 20) / K;         // keep the result under ~4 MiB + the subject
                switch (r.below(6)) {
                case 0: to = ""; break;
                case 1: to = S(from.size(), '#'); break;
                case 2: to = S(from.size() - 1, '-'); break;
                case 3: to = S(from.size() + 1, '+'); break;
                case 4: to = from + from.substr(0, std::min(from.size(), room)); break;
                default: to = gen::bytes_over(r, 1 + r.below(std::min<size_t>(300, std::max<size_t>(1, room))), "#-+"); break;
                }
                vrt::Box<ST::string> st(vrt::mk(s));
                const bool ci1 = r.chance(1, 2);
                replace_case(st, s, from, to, ci1);
                if (r.chance(1, 2)) replace_case(st, s, from, to, !ci1);
                if (r.chance(1, 3)) {
                    const size_t maxes[] = {SMAX, K, K - 1, 65535, 65536, 255};
                    split_case(st, s, from, maxes[r.below(6)], r.chance(1, 2));
                }
                if (vrt::str_of(*st) != s) vrt::violation("C09:replace:subject-changed", scale::brief(s));
                vrt::count("scale.dense_replace.cases");
                if (self_overlap) vrt::count("scale.dense_replace.self_overlapping_run");
                subject_len = s.size();
                if (vrt::want_sample("scale.dense_replace") && !self_overlap)
                    vrt::sample("scale.dense_replace", sfmt("subject %s: %zu occurrences (block=%zu x %zu) of from=%s packed 0..3 bytes apart, replacement of %zu bytes",
                                                            scale::brief(s).c_str(), K, B, q, show(from).c_str(), to.size()));
            }
            vrt::count("scale.cases");
            if (subject_len >= 65536) vrt::count("scale.subject>=64KiB");
            if (subject_len >= 262144) vrt::count("scale.subject>=256KiB");
            if (subject_len >= 1u << 20) vrt::count("scale.subject>=1MiB");
        });
    }

    // ---- same_storage: 3..6 texts of IDENTICAL size, one after the other in the same storage.  The object holding the text is destroyed
    // and its successor built right away (forced re-issue of the object block and of the heap block, see rt/vrt_st.h); separator,
    // delimiter set, pattern and replacement sit in caller-side blocks that are rewritten in place (two separators of the same length
    // with the same first and last byte, two delimiter sets of the same length ...).  The texts share their first and last 16 bytes and
    // differ in between in where - and how many - separators, delimiter runs and pattern occurrences they hold.  Every text goes
    // through split (each form on its own), tokenize and replace in an order that changes from text to text; the last call on one
    // text is repeated, with the very same argument storage, as the first call on its successor; calls that throw (a pattern that is
    // not UTF-8, a text with a stray byte through the validating forms) come in between.
    {
        const double sc = std::min(1.0, vrt::opt().scale);
        vrt::require("same_storage.cases", static_cast<uint64_t>(200 * sc));
        vrt::require("same_storage.successors", static_cast<uint64_t>(600 * sc));
        vrt::require("same_storage.object_at_the_same_address", static_cast<uint64_t>(400 * sc));
        vrt::require("same_storage.heap_block_at_the_same_address", static_cast<uint64_t>(400 * sc));
        vrt::require("same_storage.caller_block_rewritten_in_place", static_cast<uint64_t>(2000 * sc));
        vrt::require("same_storage.last_call_repeated_first_on_successor", static_cast<uint64_t>(600 * sc));
        vrt::require("same_storage.throwing_call_in_between", static_cast<uint64_t>(300 * sc));
        static const size_t sizes[] = {20, 40, 64, 100, 256, 300, 1024, 1500, 4096, 5000, 16384, 70000};
        const size_t NS = sizeof(sizes) / sizeof(sizes[0]);
        vrt::phase("same_storage", vrt::tier_count(NS * 32, NS * 640), [&](uint64_t i, Rng &r) {
            const size_t N = sizes[i % NS];
            const size_t shared = std::min<size_t>(16, N / 4), W = N - 2 * shared;
            const size_t ncontents = 3 + r.below(4);
            const size_t mark0 = vrt::cur_mark();
            static const char *const alphas[] = {"ab", "aAbB", ":=", "iIjJ", ",;", "Kk-"};
            static const char *const delimpairs[][2] = {{",;", " \t"}, {" ", ","}, {"|/", ":="}, {" \t\r\n", ",;:="}, {"-_.", ", ;"}};
            const S al = r.pick(alphas);
            const size_t dp = r.below(sizeof(delimpairs) / sizeof(delimpairs[0]));
            const S dA = delimpairs[dp][0], dB = delimpairs[dp][1];
            Background bg;
            bg.utf8_pairs = r.chance(1, 3);
            bg.alphabet = bg.utf8_pairs ? S("x\xc3\xa9") : r.chance(1, 2) ? S("xyz") : S("x");
            size_t L = r.chance(1, 2) ? 1 : r.chance(2, 3) ? 2 + r.below(6) : 8 + r.below(17);
            L = std::min(L, std::max<size_t>(1, W / 8));
            const S sep = gen::bytes_over(r, L, al);
            S sep2;
            for (int tries = 0;; ++tries) {
                sep2 = sep;
                if (L >= 3 && tries < 50) { for (size_t k = 1; k + 1 < L; ++k) sep2[k] = al[r.below(al.size())]; }
                else sep2 = gen::bytes_over(r, L, al);
                if (ref::folded(sep2) != ref::folded(sep)) break;
                if (tries > 200) { sep2 = S(L, '|'); break; }
            }
            const size_t TL = r.chance(1, 3) ? L : r.below(2 * L + 3);
            const S to1 = gen::bytes_over(r, TL, "#-+"), to2 = r.chance(1, 3) ? S(TL, '#') : gen::bytes_over(r, TL, "#-+");
            const size_t M = (W - L) / (L + 1) + 1, nslots = std::min<size_t>(10, M);
            std::vector<size_t> slot;
            while (slot.size() < nslots) {
                const size_t v = r.below(M);
                if (std::find(slot.begin(), slot.end(), v) == slot.end()) slot.push_back(v);
            }
            std::sort(slot.begin(), slot.end());
            for (size_t &v : slot) v = shared + v * (L + 1);
            const bool exact = r.chance(2, 3), stray_bytes = r.chance(1, 4);
            const S head = gen::bytes_over(r, shared, "xy"), tail = gen::bytes_over(r, shared, "xy");
            Placed held_sep(L, static_cast<unsigned>(r.below(16))), held_delims(dA.size(), static_cast<unsigned>(r.below(16))), held_to(TL, static_cast<unsigned>(r.below(16)));
            std::optional<vrt::Box<ST::string>> st;
            std::vector<unsigned char> occ(nslots, 0), prev_occ;
            int repeat_op = -1;
            unsigned repeat_form = 0;
            size_t repeat_max = SMAX;
            bool repeat_ci = false;
            S s;
            // one call: 0 split(sep) 1 split(sep2) 2 tokenize(dA) 3 tokenize(dB) 4 replace(sep -> to1) 5 replace(sep2 -> to2) 6 replace(sep -> to2)
            auto one = [&](int op, unsigned form, size_t max, bool ci) {
                switch (op) {
                case 0: split_case(*st, s, sep, max, ci, form, held_sep.write(sep)); break;
                case 1: split_case(*st, s, sep2, max, ci, form, held_sep.write(sep2)); break;
                case 2: tokenize_case(*st, s, &dA, held_delims.write(dA)); break;
                case 3: tokenize_case(*st, s, &dB, held_delims.write(dB)); break;
                case 4: replace_case(*st, s, sep, to1, ci, form, held_sep.write(sep), held_to.write(to1)); break;
                case 5: replace_case(*st, s, sep2, to2, ci, form, held_sep.write(sep2), held_to.write(to2)); break;
                default: replace_case(*st, s, sep, to2, ci, form, held_sep.write(sep), held_to.write(to2)); break;
                }
                vrt::count("same_storage.caller_block_rewritten_in_place");
            };
            for (size_t c = 0; c < ncontents; ++c) {
                prev_occ = occ;
                for (int tries = 0; tries < 20 && (occ == prev_occ || tries == 0); ++tries) {
                    if (c > 0 && r.chance(1, 3)) {          // the previous text plus one more separator in an earlier / later place
                        occ = prev_occ;
                        const size_t k = r.below(nslots);
                        occ[k] = occ[k] == 1 ? 0 : 1;
                    } else for (auto &x : occ) x = r.chance(1, 2) ? 0 : static_cast<unsigned char>(1 + r.below(4));
                }
                S mid = make_background(r, W, bg);
                s = head + mid + tail;
                for (size_t k = 0; k < nslots; ++k) {
                    if (!occ[k]) continue;
                    S piece = occ[k] == 1 ? sep : occ[k] == 2 ? sep2 : gen::bytes_over(r, L, occ[k] == 3 ? dA : dB);
                    if (!exact && occ[k] <= 2) piece = random_case(r, piece);
                    plant_in(s, slot[k], piece, bg);
                }
                const bool stray = stray_bytes && r.chance(1, 2);
                if (stray) s[shared + r.below(W)] = '\xe9';            // not UTF-8: the validating forms may reject this text
                if (st) {
                    const uintptr_t prev_obj = reinterpret_cast<uintptr_t>(st->p), prev_data = reinterpret_cast<uintptr_t>((*st)->c_str());
                    vrt::placement_force_parks() = 4;
                    st.reset();
                    st.emplace(vrt::mk(s));
                    vrt::placement_force_parks() = 0;
                    vrt::count("same_storage.successors");
                    if (reinterpret_cast<uintptr_t>(st->p) == prev_obj) vrt::count("same_storage.object_at_the_same_address");
                    if (reinterpret_cast<uintptr_t>((*st)->c_str()) == prev_data) vrt::count("same_storage.heap_block_at_the_same_address");
                } else st.emplace(vrt::mk(s));
                vrt::cur_mark() = mark0;
                vrt::cur_rewind();
                vrt::cur_printf("same_storage: text %zu of %zu, %s sep=%s sep2=%s\n", c, ncontents, scale::brief(s).c_str(), show(sep).c_str(), show(sep2).c_str());
                vrt::cur_mark_here();
                if (repeat_op >= 0) {
                    one(repeat_op, repeat_form, repeat_max, repeat_ci);
                    vrt::count("same_storage.last_call_repeated_first_on_successor");
                }
                std::vector<int> ops = {0, 1, 2, 3, 4, 5, 6, 7};
                for (size_t k = ops.size(); k > 1; --k) std::swap(ops[k - 1], ops[r.below(k)]);
                for (int op : ops) {
                    const bool ci = r.chance(1, 3);
                    if (op == 7) {
                        // calls that throw: a pattern that is not UTF-8 through the validating form; a separator with a non-ASCII character
                        // (the pieces are then validated)
                        replace_case(*st, s, "\xff", to1, ci, RF_CSTR);
                        split_case(*st, s, "\xc3\xa9", SMAX, ci, SF_CSTR | SF_CHAR8);
                        vrt::count("same_storage.throwing_call_in_between");
                    } else if (op <= 1) {
                        unsigned forms[4] = {SF_STR, SF_CSTR, SF_CHAR8, SF_CHAR};
                        for (size_t k = 4; k > 1; --k) std::swap(forms[k - 1], forms[r.below(k)]);
                        const size_t maxes[] = {SMAX, SMAX, 0, 1, 2, nslots};
                        for (unsigned f : forms) one(op, f, r.pick(maxes), ci);
                    } else if (op <= 3) one(op, 0, 0, false);
                    else {
                        unsigned forms[4] = {RF_STR, RF_CSTR, RF_STR_CSTR, RF_CSTR_STR};
                        for (size_t k = 4; k > 1; --k) std::swap(forms[k - 1], forms[r.below(k)]);
                        one(op, forms[0], 0, ci);
                        one(op, forms[1], 0, ci);
                    }
                }
                if (c + 1 < ncontents) {
                    repeat_op = static_cast<int>(r.below(7));
                    repeat_ci = r.chance(1, 4);
                    repeat_max = r.chance(1, 2) ? SMAX : r.below(4);
                    if (repeat_op <= 1) { const unsigned f[] = {SF_STR, SF_CSTR, SF_CHAR8, static_cast<unsigned>(L == 1 ? SF_CHAR : SF_CSTR)}; repeat_form = r.pick(f); }
                    else { const unsigned f[] = {RF_STR, RF_CSTR, RF_STR_CSTR, RF_CSTR_STR}; repeat_form = r.pick(f); }
                    one(repeat_op, repeat_form, repeat_max, repeat_ci);
                }
                if (vrt::str_of(**st) != s) vrt::violation("C09:split:subject-changed", scale::brief(s));
                if (stray) vrt::count("same_storage.texts_with_a_stray_byte");
            }
            st.reset();
            vrt::count("same_storage.cases");
            if (N >= 256) vrt::count("same_storage.subject>=256");
            if (vrt::want_sample("same_storage") && N >= 256)
                vrt::sample("same_storage", sfmt("%zu texts of %zu bytes one after the other in the same storage (same first and last %zu bytes), separators %s / %s, delimiter sets %s / %s and replacements of %zu bytes in caller blocks rewritten in place",
                                                 ncontents, N, shared, show(sep).c_str(), show(sep2).c_str(), show(dA).c_str(), show(dB).c_str(), TL));
        });
    }

    // ---- soak / soak_replace: more than 2^17 consecutive tokenize calls with 75000 split calls in between - and, in a second phase, 75000
    // replace calls - inside ONE case (one process, one thread), on texts of 16..64 (tokenize) and 40..300 bytes, so that state kept
    // between calls (a delimiter table stamped with a call counter, a skip table with a generation number, a counter that enables a
    // fast path after N calls, a memo of the previous argument) goes through its whole cycle.  Delimiter sets and separators come from
    // small core sets nearly always; a few calls - most of them early in the case - use a RARE byte, which then stays out of every
    // delimiter set / separator for tens of thousands of calls while the texts keep containing it (all texts are rich in the rare
    // bytes).  Runs of 64..300 identical "boring" calls (the same pure-ASCII objects, the same arguments, nothing to cut) are followed
    // directly by same-sized texts at the same addresses with the separator / a delimiter / a two-byte character in their last bytes.
    {
        // a thorough run has more of these cases, not longer ones (a case stays a few seconds of CPU)
        const uint64_t soak_cases = vrt::thorough() ? 128 : 16;
        const size_t tok_iters = static_cast<size_t>(vrt::tier_count(150000, 200000)), rep_iters = static_cast<size_t>(vrt::tier_count(75000, 100000));
        vrt::require("soak.tokenize.calls", soak_cases * tok_iters * 9 / 10);
        vrt::require("soak.split.calls", soak_cases * tok_iters / 2 * 9 / 10);
        vrt::require("soak.replace.calls", soak_cases * rep_iters * 9 / 10);
        vrt::require("soak.tokenize.delimiter_sets_with_a_rare_byte", soak_cases * 10);
        if (tok_iters >= 100000) vrt::require("soak.tokenize.rare_byte_out_of_all_sets_for_65535_calls_and_in_the_text", soak_cases);
        vrt::require("soak.separators_with_a_rare_byte", soak_cases * 10);
        vrt::require("soak.boring_runs", soak_cases * (tok_iters + rep_iters) / 6000);
        auto soak = [&](Rng &r, bool replace_phase) {
            const size_t iters = replace_phase ? rep_iters : tok_iters;
            static const char core[] = "abcdefgh";
            static const char rare_pool[] = "0123456789#%";                       // 12 bytes that no core set contains
            static const char *const core_sets[] = {" ", " \t", ",;", ", ", ";", " ,;\t", "\t"};
            std::optional<vrt::Box<ST::string>> st, tk;                           // the text of split / replace; the (shorter) one of tokenize
            S h, ht, d, sep, to;
            unsigned sform = SF_STR, rform = RF_STR;
            size_t max = SMAX;
            bool ci = false, dflt = false;
            uint64_t n_tok = 0, n_split = 0, n_replace = 0;
            size_t boring_left = 0;
            long last_in_set[256];                                                // number of the last tokenize call whose set held the byte
            for (long &x : last_in_set) x = -1;
            long tok_call = 0;
            auto run_ops = [&](size_t it) {
                if (replace_phase) { replace_case(*st, h, sep, to, ci, rform); ++n_replace; return; }
                tokenize_case(*tk, ht, dflt ? nullptr : &d);
                ++n_tok;
                for (unsigned char ch : dflt ? S(" \t\r\n") : d) last_in_set[ch] = tok_call;
                for (const char *p = rare_pool; *p; ++p)
                    if (last_in_set[static_cast<unsigned char>(*p)] >= 0 && tok_call - last_in_set[static_cast<unsigned char>(*p)] == 65535 && ht.find(*p) != S::npos)
                        vrt::count("soak.tokenize.rare_byte_out_of_all_sets_for_65535_calls_and_in_the_text");
                ++tok_call;
                if (it % 2 == 0) { split_case(*st, h, sep, max, ci, sform); ++n_split; }
            };
            auto rebuild_at_same_address = [&](std::optional<vrt::Box<ST::string>> &o, const S &text) {
                vrt::placement_force_parks() = 4;
                o.reset();
                o.emplace(vrt::mk(text));
                vrt::placement_force_parks() = 0;
            };
            for (size_t it = 0; it < iters; ++it) {
                if (boring_left > 0) {
                    if (--boring_left > 0) { run_ops(it); continue; }
                    // the call right after the run: same sizes, same addresses, same arguments - and something in the last few bytes
                    const size_t n = h.size(), nt = ht.size(), L = sep.size();
                    const unsigned what = static_cast<unsigned>(1 + r.below(15));
                    const S set = dflt ? S(" \t\r\n") : d;
                    if (what & 1) h.replace(n - L - r.below(7), L, sep);
                    if (what & 2) { const size_t t = n - 2 - r.below(6); h[t] = '\xc3'; h[t + 1] = '\xa9'; const size_t u = nt - 2 - r.below(6); ht[u] = '\xc3'; ht[u + 1] = '\xa9'; }
                    if (what & 4) { ht[nt - 1] = set[r.below(set.size())]; if (r.chance(1, 2)) ht[0] = set[r.below(set.size())]; }
                    if (what & 8) { h.replace(r.below(3), L, sep); ht[nt - 2 - r.below(6)] = set[r.below(set.size())]; }
                    rebuild_at_same_address(st, h);
                    if (!replace_phase) rebuild_at_same_address(tk, ht);
                    run_ops(it);
                    vrt::count("soak.boring_runs");
                    continue;
                }
                const bool boring = r.chance(1, replace_phase ? 300 : 500);
                // tokenize: a core set, rarely (early in the case more often) with a rare byte in it
                const bool rare_delim = !boring && r.chance(1, it < 3000 ? 150 : 20000);
                dflt = !rare_delim && r.chance(1, 10);
                d = r.pick(core_sets);
                if (rare_delim) {
                    const char c = rare_pool[r.below(12)];
                    if (r.chance(1, 2)) d = S(1, c); else d.insert(r.below(d.size() + 1), 1, c);
                    if (!replace_phase) vrt::count("soak.tokenize.delimiter_sets_with_a_rare_byte");
                }
                // split / replace: separators over the core letters (or one core delimiter), rarely a long one with a rare byte
                const bool rare_sep = !boring && r.chance(1, it < 3000 ? 300 : 3000);
                const size_t L = rare_sep ? 12 + r.below(19) : r.chance(1, 3) ? 1 : 2 + r.below(10);
                sep.clear();
                if (L == 1 && r.chance(1, 2)) sep = S(1, " ,;\t"[r.below(4)]);
                else for (size_t k = 0; k < L; ++k) sep += core[r.below(8)];
                if (rare_sep) { sep[r.below(L)] = rare_pool[r.below(12)]; vrt::count("soak.separators_with_a_rare_byte"); }
                ci = r.chance(1, 5);
                sform = 1u << ((it / 2) % 4);
                if (sform == SF_CHAR && L != 1) sform = SF_CSTR;
                static const unsigned rforms[] = {RF_STR, RF_CSTR, RF_STR_CSTR, RF_CSTR_STR};
                rform = rforms[it % 4];
                max = r.chance(3, 4) ? SMAX : r.below(4);
                switch (r.below(4)) {
                case 0: to.clear(); break;
                case 1: to = S(L, '#'); break;
                case 2: to = sep + sep; break;
                default: to = gen::bytes_over(r, 1 + r.below(20), "#-+"); break;
                }
                const size_t hlen = 40 + L + (r.chance(1, 8) ? r.below(260) : r.below(100));
                h.clear();
                if (boring) {
                    for (size_t k = 0; k < hlen; ++k) h += "mnopqrst"[r.below(8)];
                    boring_left = 64 + r.below(237);
                } else {
                    while (h.size() < hlen) {
                        const unsigned v = static_cast<unsigned>(r.below(100));
                        if (v < 38) h += rare_pool[r.below(12)];
                        else if (v < 80) h += core[r.below(8)];
                        else if (v < 95 || h.size() + 2 > hlen) h += " ,;\t"[r.below(4)];
                        else h += "\xc3\xa9";
                    }
                }
                // tokenize gets the first 16..64 bytes (whole characters) as a text of its own
                ht = h.substr(0, 16 + r.below(49));
                if (static_cast<unsigned char>(ht[ht.size() - 1]) == 0xC3) ht[ht.size() - 1] = 'x';
                if (!boring) {
                    auto put = [&](size_t at, const S &piece) {
                        // keep two-byte characters whole around the piece
                        if (at > 0 && static_cast<unsigned char>(h[at - 1]) == 0xC3) --at;
                        for (size_t k = 0; k < piece.size(); ++k) h[at + k] = piece[k];
                        if (at + piece.size() < h.size() && static_cast<unsigned char>(h[at + piece.size()]) == 0xA9) h[at + piece.size()] = 'x';
                    };
                    const unsigned shape = static_cast<unsigned>(r.below(8));
                    const size_t at = r.below(hlen - L + 1);
                    if (shape != 0) put(at, ci && r.chance(1, 2) ? ref::uppered(sep) : sep);
                    if (shape == 1) h[at + r.below(L)] = '!';                                          // near-miss only
                    if (shape == 2 && at > L + 2) put(r.below(at - L), sep);                           // an earlier occurrence as well
                    if (shape == 3 && at + 2 * L + 2 < hlen) put(at + L + r.below(hlen - at - 2 * L), sep);
                    if (shape == 4 && at + 2 * L <= hlen) put(at + L, sep);                            // two in a row
                }
                st.reset();
                st.emplace(vrt::mk(h));
                if (!replace_phase) { tk.reset(); tk.emplace(vrt::mk(ht)); }
                run_ops(it);
            }
            st.reset();
            tk.reset();
            vrt::count("soak.tokenize.calls", n_tok);
            vrt::count("soak.split.calls", n_split);
            vrt::count("soak.replace.calls", n_replace);
            vrt::distinct(vrt::fnv_u64(r.next(), 97));
            const char *cls = replace_phase ? "soak_replace" : "soak";
            if (vrt::want_sample(cls))
                vrt::sample(cls, replace_phase ? sfmt("%zu consecutive replace calls in one process; last: text %s from=%s to=%s", iters, scale::brief(h).c_str(), show(sep).c_str(), show(to).c_str())
                                               : sfmt("%zu consecutive tokenize calls in one process, a split call after every other one; last: text %s delims=%s, text %s sep=%s",
                                                      iters, show(ht).c_str(), show(d).c_str(), scale::brief(h).c_str(), show(sep).c_str()));
        };
        vrt::phase("soak", soak_cases, [&](uint64_t, Rng &r) { soak(r, false); });
        vrt::phase("soak_replace", soak_cases, [&](uint64_t, Rng &r) { soak(r, true); });
    }

    // ---- align: separators of 8..250 bytes handed to split as const char* / const char8_t* at every start address modulo 16, in both case
    // modes, on texts holding NEAR-MISSES: copies of the separator that differ from it at exactly one index j (every j in turn) by more
    // than letter case, by letter case only, or by letter case at j and by more than case further on - in front of and behind real
    // occurrences, each at an address congruent or not congruent to the separator's address modulo 8.  The same bytes also serve as
    // a delimiter set for tokenize at that address.
    {
        const double sc = std::min(1.0, vrt::opt().scale);
        vrt::require("align.texts", static_cast<uint64_t>(12000 * sc));
        vrt::require("align.near_miss_congruent_mod_8", static_cast<uint64_t>(5000 * sc));
        vrt::require("align.near_miss_not_congruent_mod_8", static_cast<uint64_t>(5000 * sc));
        vrt::require("align.separator_not_8_byte_aligned", static_cast<uint64_t>(8000 * sc));
        vrt::require("align.difference_by_case_in_first_8_minus_addr_mod_8_bytes", static_cast<uint64_t>(600 * sc));
        vrt::require("align.difference_in_the_7_bytes_before_last_multiple_of_8", static_cast<uint64_t>(600 * sc));
        static const size_t lens[] = {8, 9, 12, 15, 16, 17, 20, 23, 24, 25, 31, 32, 33, 36, 39, 40, 41, 47, 48, 49, 56, 63, 64, 65, 100, 128, 131, 250};
        const size_t NL = sizeof(lens) / sizeof(lens[0]);
        vrt::phase("align", vrt::tier_count(16 * NL, 16 * NL * 20), [&](uint64_t i, Rng &r) {
            const uint64_t g = (i * 7919) % (16 * NL);          // walks the whole grid alignment x length, in an order that a short run samples evenly
            const unsigned al = static_cast<unsigned>(g % 16);
            const size_t n = lens[g / 16];
            static const char letters[] = "abcdefghijklmnopqrstuvwxyzABCDEFGHIJKLMNOPQRSTUVWXYZ";
            S sep(n, '\0');
            for (auto &ch : sep) ch = r.chance(1, 8) ? "-_#+"[r.below(4)] : letters[r.below(52)];
            static const char *const bgs[] = {"0123456789", " .,;", "\xe9\xeb", "@[`{", "0"};
            const S bg = r.pick(bgs);
            const bool ascii_bg = !has_high(bg);
            Placed held(n, al);
            held.write(sep);
            const uintptr_t sa = reinterpret_cast<uintptr_t>(held.p);
            // the index that differs: every one for separators up to 64 bytes; for longer ones the first and the last 17, those around
            // the last multiple of 8 and a dozen others
            std::vector<size_t> js;
            for (size_t j = 0; j < n; ++j)
                if (n <= 64 || j < 17 || j + 17 >= n || j + 9 >= 8 * (n / 8)) js.push_back(j);
            for (int k = 0; n > 64 && k < 12; ++k) js.push_back(17 + r.below(n - 34));
            for (size_t j : js) {
                for (unsigned kind = 0; kind < NM_KINDS; ++kind) {
                    S m1, m2;
                    const bool mixed = r.chance(1, 2);
                    if (!near_miss(r, sep, j, kind, mixed, m1) || !near_miss(r, sep, j, kind, mixed, m2)) { vrt::count("align.index_cannot_differ_that_way"); continue; }
                    const unsigned w1 = (al + (r.chance(1, 2) ? 0 : 1 + r.below(7))) % 8, w2 = (al + (r.chance(1, 2) ? 0 : 1 + r.below(7))) % 8;
                    const size_t o1 = 8 * r.below(3) + w1;
                    S h = gen::bytes_over(r, o1, bg);
                    h += m1;
                    h += gen::bytes_over(r, r.below(12), bg);
                    const unsigned occ = static_cast<unsigned>(r.below(3));          // no real occurrence / exact / in another case
                    if (occ) h += occ == 1 ? sep : random_case(r, sep);
                    h += gen::bytes_over(r, r.below(12), bg);
                    while (h.size() % 8 != w2) h += bg[r.below(bg.size())];
                    const size_t o2 = h.size();
                    h += m2;
                    h += gen::bytes_over(r, r.below(10), bg);
                    if (r.chance(1, 3)) { h += sep; h += gen::bytes_over(r, r.below(6), bg); }
                    vrt::Box<ST::string> st(vrt::mk(h));
                    const uintptr_t hb = reinterpret_cast<uintptr_t>(st->c_str());
                    vrt::count((hb + o1 - sa) % 8 == 0 ? "align.near_miss_congruent_mod_8" : "align.near_miss_not_congruent_mod_8");
                    vrt::count((hb + o2 - sa) % 8 == 0 ? "align.near_miss_congruent_mod_8" : "align.near_miss_not_congruent_mod_8");
                    split_case(st, h, sep, SMAX, false, SF_ALL, held.p);
                    split_case(st, h, sep, SMAX, true, SF_ALL, held.p);
                    split_case(st, h, sep, 1 + r.below(2), r.chance(1, 2), SF_CSTR | SF_CHAR8, held.p);
                    if (ascii_bg && r.chance(1, 4)) replace_case(st, h, sep, r.chance(1, 2) ? S("#") : sep + "+", r.chance(1, 2), RF_STR | RF_CSTR, held.p);
                    vrt::count("align.texts");
                    if (sa % 8) vrt::count("align.separator_not_8_byte_aligned");
                    if (kind != NM_HARD && sa % 8 && j < 8 - sa % 8) vrt::count("align.difference_by_case_in_first_8_minus_addr_mod_8_bytes");
                    if (kind == NM_HARD && j < 8 * (n / 8) && j + 7 >= 8 * (n / 8)) vrt::count("align.difference_in_the_7_bytes_before_last_multiple_of_8");
                    if (vrt::want_sample("align") && kind == NM_HARD && j + 2 == 8 * (n / 8) && al % 8)
                        vrt::sample("align", sfmt("text=%s sep=%s at an address = %u mod 16: near-misses at offsets %zu and %zu differ from it at index %zu only",
                                                  show(h).c_str(), show(sep).c_str(), al, o1, o2, j));
                }
            }
            // the same bytes as the delimiter set of tokenize at that address: tokens that begin / end with a byte that is no delimiter
            // but the other case of one, or a neighbour of one
            for (int rep = 0; rep < 8; ++rep) {
                auto outsider = [&]() {
                    for (int tries = 0; tries < 32; ++tries) {
                        const char m = sep[r.below(n)], c = r.chance(1, 2) ? other_case(m) : different_byte(r, m);
                        if (!ref::in_set(sep, c)) return c;
                    }
                    return '0';
                };
                S s = gen::bytes_over(r, r.below(12), sep);
                for (int t = 0, nt = 1 + static_cast<int>(r.below(5)); t < nt; ++t) {
                    s += outsider();
                    s += gen::bytes_over(r, r.below(8), bg);
                    s += outsider();
                    s += gen::bytes_over(r, 1 + r.below(12), sep);
                }
                vrt::Box<ST::string> st(vrt::mk(s));
                tokenize_case(st, s, &sep, held.p);
                vrt::count("align.tokenize_texts");
            }
            vrt::count("align.cases");
        });
    }

    // ---- pieces / tokens / results of 256 MiB and more out of a text just above that size (such texts come from the library's own
    // non-validating producers).  The const char* form of split builds its pieces through the validating constructor, whose documented
    // contract is "less than 256 MiB", so it gets the same text cut in the middle instead (two pieces of 128 MiB).
    // About 0.6 GB and 2-3 s per case, two cases.
    if (vrt::opt().scale >= 1.0) {
        vrt::require("huge.results", 8);
        vrt::phase("huge_pieces", 2, [&](uint64_t i, Rng &) {
            const size_t total = (size_t(1) << 28) + 50, half = total / 2, s1 = 20, s2 = total - 8;
            vrt::cur_printf("pieces of a %zu-byte text\n", total);
            ST::char_buffer b;
            b.allocate(total, 'x');
            b[s1] = 'A'; b[s1 + 1] = '='; b[half] = '|'; b[s2] = 'A'; b[s2 + 1] = '=';
            const ST::string L = ST::string::from_validated(std::move(b));
            const char *base = L.c_str();
            auto piece = [&](const char *op, const ST::string &p, size_t from, size_t n) {
                vrt::evals();
                vrt::count("huge.results");
                if (p.size() != n || memcmp(p.c_str(), base + from, n) != 0 || p.c_str()[n] != 0)
                    vrt::violation(sfmt("C09:%s:wrong-pieces", op), sfmt("huge subject (%zu bytes): piece of %zu bytes, expected the %zu bytes from offset %zu", total, p.size(), n, from));
            };
            auto pieces = [&](const char *op, const std::vector<ST::string> &v, std::initializer_list<std::pair<size_t, size_t>> want) {
                if (v.size() != want.size()) {
                    vrt::violation(sfmt("C09:%s:wrong-pieces", op), sfmt("huge subject (%zu bytes): %zu pieces, expected %zu", total, v.size(), want.size()));
                    return;
                }
                size_t k = 0;
                for (const auto &w : want) piece(op, v[k++], w.first, w.second);
            };
            try {
                if (i == 0) {
                    const ST::string sep_cs = ST_LITERAL("A="), sep_ci = ST_LITERAL("a=");
                    pieces("split:ST::string", L.split(sep_cs, 1), {{0, s1}, {s1 + 2, total - s1 - 2}});
                    pieces("split:ST::string", L.split(sep_ci, ST_AUTO_SIZE, ST::case_insensitive), {{0, s1}, {s1 + 2, s2 - s1 - 2}, {s2 + 2, total - s2 - 2}});
                    pieces("split:ST::string", L.split(ST_LITERAL("no such separator")), {{0, total}});
                    pieces("split:char", L.split('A', 1), {{0, s1}, {s1 + 1, total - s1 - 1}});
                    pieces("split:char", L.split('a', ST_AUTO_SIZE, ST::case_insensitive), {{0, s1}, {s1 + 1, s2 - s1 - 1}, {s2 + 1, total - s2 - 1}});
                    {
                        const ST::string R = L.replace(sep_ci, ST_LITERAL("--+"), ST::case_insensitive);
                        vrt::evals();
                        vrt::count("huge.results");
                        const char *g = R.c_str();
                        bool ok = R.size() == total + 2 && g[R.size()] == 0;
                        ok = ok && memcmp(g, base, s1) == 0 && memcmp(g + s1, "--+", 3) == 0 && memcmp(g + s1 + 3, base + s1 + 2, s2 - s1 - 2) == 0
                             && memcmp(g + s2 + 1, "--+", 3) == 0 && memcmp(g + s2 + 4, base + s2 + 2, total - s2 - 2) == 0;
                        if (!ok) vrt::violation("C09:replace:str,str:wrong-result", sfmt("huge subject (%zu bytes), 2 occurrences, 3 bytes for 2: result of %zu bytes (fnv %016llx)", total, R.size(),
                                                                                         static_cast<unsigned long long>(vrt::fnv1a(g, std::min<size_t>(R.size(), 4096)))));
                    }
                } else {
                    pieces("tokenize", L.tokenize("=A"), {{0, s1}, {s1 + 2, s2 - s1 - 2}, {s2 + 2, total - s2 - 2}});
                    pieces("split:cstr", L.split("|"), {{0, half}, {half + 1, total - half - 1}});
                    pieces("split:cstr", L.split("|x", 1), {{0, half}, {half + 2, total - half - 2}});
                }
            } catch (const std::exception &e) {
                vrt::violation(sfmt("C09:huge-pieces:%s", vrt::demangle(typeid(e).name()).c_str()), e.what());
            }
        });
    }
    vrt::alloc::check_pairing("split");
}

VRT_MAIN(body)
