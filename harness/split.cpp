// C09 - split / tokenize / replace against the reference partition, join as
// the inverse of split, termination and bounded allocation, under ASan+UBSan.
#include "vrt.h"
#include "vrt_alloc.h"
#include "vrt_st.h"
#include "ref_text.h"
#include "ref_unicode.h"
#include "gen_text.h"

using vrt::Rng;
using vrt::sfmt;
typedef std::string S;
static const size_t SMAX = static_cast<size_t>(-1);

static std::string show(const S &s) { return vrt::hex(s.data(), s.size()); }
static std::string showv(const std::vector<S> &v)
{
    std::string o = "[";
    for (size_t i = 0; i < v.size() && i < 12; ++i) { if (i) o += "|"; o += show(v[i]); }
    if (v.size() > 12) o += sfmt("|...(%zu pieces)", v.size());
    return o + "]";
}

enum Outcome { OK, UNICODE_ERROR, FAILED };

// run a call returning std::vector<ST::string>
template <typename F>
static Outcome call_vec(const char *op, const std::string &what, F &&f, std::vector<S> &out)
{
    vrt::cur_rewind();
    vrt::cur_printf("op=%s %s\n", op, what.c_str());
    vrt::evals();
    out.clear();
    try {
        vrt::alloc::LibScope ls;
        std::vector<ST::string> r = f();
        vrt::alloc::HarnessScope hs;
        for (const ST::string &p : r) {
            if (p.c_str()[p.size()] != 0) vrt::violation(sfmt("C09:%s:no-terminator", op), what);
            out.emplace_back(p.c_str(), p.size());
        }
        return OK;
    } catch (const ST::unicode_error &) {
        return UNICODE_ERROR;
    } catch (const std::bad_alloc &) {
        vrt::alloc::HarnessScope hs;
        if (vrt::alloc::reg().runaway)
            vrt::violation(sfmt("C09:%s:runaway-allocation", op), sfmt("more than 64 MiB requested inside one call; %s", what.c_str()));
        else
            vrt::violation(sfmt("C09:%s:bad_alloc", op), what);
        return FAILED;
    }
}
template <typename F>
static Outcome call_str(const char *op, const std::string &what, F &&f, S &out)
{
    vrt::cur_rewind();
    vrt::cur_printf("op=%s %s\n", op, what.c_str());
    vrt::evals();
    try {
        vrt::alloc::LibScope ls;
        ST::string r = f();
        vrt::alloc::HarnessScope hs;
        if (r.c_str()[r.size()] != 0) vrt::violation(sfmt("C09:%s:no-terminator", op), what);
        out.assign(r.c_str(), r.size());
        return OK;
    } catch (const ST::unicode_error &) {
        return UNICODE_ERROR;
    } catch (const std::bad_alloc &) {
        vrt::alloc::HarnessScope hs;
        if (vrt::alloc::reg().runaway)
            vrt::violation(sfmt("C09:%s:runaway-allocation", op), what);
        else
            vrt::violation(sfmt("C09:%s:bad_alloc", op), what);
        return FAILED;
    }
}

static bool any_invalid(const std::vector<S> &v)
{
    for (const S &p : v) if (!ref::utf8_ok(p)) return true;
    return false;
}
static bool has_high(const S &s)
{
    for (unsigned char c : s) if (c & 0x80) return true;
    return false;
}

// ---------------------------------------------------------------- split
static void split_case(const vrt::Box<ST::string> &st, const S &s, const S &sep, size_t max, bool ci)
{
    ST::case_sensitivity_t cs = ci ? ST::case_insensitive : ST::case_sensitive;
    const std::vector<S> want = ref::split(s, sep, max, ci);
    std::string what = sfmt("subject=%s sep=%s max=%zu ci=%d", show(s).c_str(), show(sep).c_str(), max, ci);
    std::vector<S> got;
    auto judge = [&](const char *form, Outcome o, bool may_throw) {
        if (o == FAILED) return;
        if (o == UNICODE_ERROR) {
            // only the validating const char* form may reject, and only pieces that are not valid UTF-8
            if (!(may_throw && any_invalid(want)))
                vrt::violation(sfmt("C09:split:%s:unexpected-unicode_error", form), what);
            else
                vrt::count("split.revalidation_rejected");
            return;
        }
        if (got != want)
            vrt::violation(sfmt("C09:split:%s:wrong-pieces", form), sfmt("%s got=%s want=%s", what.c_str(), showv(got).c_str(), showv(want).c_str()));
        if (max != SMAX && got.size() > max + 1)
            vrt::violation(sfmt("C09:split:%s:too-many-pieces", form), sfmt("%s pieces=%zu", what.c_str(), got.size()));
        if (!ci && ref::join(got, sep) != s)
            vrt::violation(sfmt("C09:split:%s:join-not-inverse", form), sfmt("%s got=%s", what.c_str(), showv(got).c_str()));
        if (ci) {
            // case-insensitively: total length and order are still preserved
            size_t total = 0;
            for (const S &p : got) total += p.size();
            if (!got.empty() && total + (got.size() - 1) * sep.size() != s.size())
                vrt::violation(sfmt("C09:split:%s:length-not-conserved", form), what);
        }
    };
    vrt::Box<ST::string> ssep(vrt::mk(sep));
    Outcome o = call_vec("split", what + " form=ST::string", [&] { return st->split(*ssep, max, cs); }, got);
    judge("ST::string", o, false);
    if (max == SMAX && !ci) {
        o = call_vec("split", what + " form=ST::string/default-max", [&] { return st->split(*ssep); }, got);
        judge("ST::string", o, false);
    }
    if (sep.find('\0') == S::npos) {
        vrt::Exact<char> c(sep.data(), sep.size(), true);
        o = call_vec("split", what + " form=const char*", [&] { return st->split(c.data(), max, cs); }, got);
        judge("cstr", o, has_high(sep));
        o = call_vec("split", what + " form=const char8_t*", [&] { return st->split(reinterpret_cast<const char8_t *>(c.data()), max, cs); }, got);
        judge("char8_t", o, has_high(sep));
        vrt::count("split.form.cstr");
    }
    if (sep.size() == 1 && sep[0] > 0 && static_cast<unsigned char>(sep[0]) < 0x80) {
        o = call_vec("split", what + " form=char", [&] { return st->split(sep[0], max, cs); }, got);
        judge("char", o, false);
        vrt::count("split.form.char");
    }
    vrt::count("split.cases");
    if (want.size() > 1) vrt::count("split.with_cuts");
    if (max != SMAX && ref::split(s, sep, SMAX, ci).size() > max + 1) vrt::count("split.limited_by_max");
    if (sep.empty()) vrt::count(s.find('\0') != S::npos ? "split.empty_sep_on_NUL_text" : "split.empty_sep");
    if (sep.size() > s.size()) vrt::count("split.sep_longer_than_subject");
    vrt::distinct(vrt::fnv_u64(ci, vrt::fnv_u64(max, vrt::fnv1a(sep.data(), sep.size(), vrt::fnv1a(s.data(), s.size(), 21)))));
}

// ---------------------------------------------------------------- replace
static void replace_case(const vrt::Box<ST::string> &st, const S &s, const S &from, const S &to, bool ci)
{
    ST::case_sensitivity_t cs = ci ? ST::case_insensitive : ST::case_sensitive;
    size_t k = 0;
    const S want = ref::replace(s, from, to, ci, &k);
    std::string what = sfmt("subject=%s from=%s to=%s ci=%d", show(s).c_str(), show(from).c_str(), show(to).c_str(), ci);
    if (want.size() != s.size() + k * to.size() - k * from.size()) {
        vrt::violation("harness:replace-reference-length", what);   // reference self-check
        return;
    }
    // the string overload converts its byte result through the validating
    // constructor: a result that is not valid UTF-8 may be rejected (DESIGN 4/C09)
    const bool result_invalid = !ref::utf8_ok(want) && !(s.empty() || from.empty());
    vrt::Box<ST::string> sfrom(vrt::mk(from)), sto(vrt::mk(to));
    S got, got2;
    auto judge = [&](const char *form, Outcome o, bool may_throw, const S &g) {
        if (o == FAILED) return;
        if (o == UNICODE_ERROR) {
            if (!may_throw) vrt::violation(sfmt("C09:replace:%s:unexpected-unicode_error", form), what);
            else vrt::count("replace.revalidation_rejected");
            return;
        }
        if (g != want)
            vrt::violation(sfmt("C09:replace:%s:wrong-result", form), sfmt("%s got=%s want=%s", what.c_str(), show(g).c_str(), show(want).c_str()));
    };
    // poison differential: bytes that differ between two runs with different
    // fresh-memory fill were never written (the two scans of replace disagree)
    vrt::alloc::set_poison(0xA5);
    Outcome o1 = call_str("replace", what + " form=str,str", [&] { return st->replace(*sfrom, *sto, cs); }, got);
    vrt::alloc::set_poison(0x5A);
    Outcome o2 = call_str("replace", what + " form=str,str", [&] { return st->replace(*sfrom, *sto, cs); }, got2);
    vrt::alloc::set_poison(-1);
    if (o1 == OK && o2 == OK && got != got2)
        vrt::violation("C09:replace:unwritten-result-bytes", sfmt("%s run1=%s run2=%s", what.c_str(), show(got).c_str(), show(got2).c_str()));
    if (o1 != o2)
        vrt::violation("C09:replace:nondeterministic-outcome", what);
    judge("str,str", o1, result_invalid, got);
    if (to == from) {
        // the same object as pattern and as replacement (case-insensitively this still rewrites differently-cased occurrences),
        // and the subject itself in either role
        Outcome o = call_str("replace", what + " form=same object twice", [&] { return st->replace(*sfrom, *sfrom, cs); }, got);
        judge("same-object-twice", o, result_invalid, got);
        vrt::count("replace.same_object_twice");
    }
    if (from == s) {
        Outcome o = call_str("replace", what + " form=subject as pattern", [&] { return st->replace(*st, *sto, cs); }, got);
        judge("subject-as-pattern", o, result_invalid, got);
    }
    if (to == s) {
        Outcome o = call_str("replace", what + " form=subject as replacement", [&] { return st->replace(*sfrom, *st, cs); }, got);
        judge("subject-as-replacement", o, result_invalid, got);
    }
    const bool from_c = from.find('\0') == S::npos, to_c = to.find('\0') == S::npos;
    vrt::Exact<char> cf(from.data(), from.size(), true), ct(to.data(), to.size(), true);
    // const char* forms validate their arguments (default mode: check_validity)
    if (from_c && to_c) {
        Outcome o = call_str("replace", what + " form=cstr,cstr", [&] { return st->replace(cf.data(), ct.data(), cs); }, got);
        judge("cstr,cstr", o, result_invalid || !ref::utf8_ok(from) || !ref::utf8_ok(to), got);
        o = call_str("replace", what + " form=char8_t,char8_t", [&] {
            return st->replace(reinterpret_cast<const char8_t *>(cf.data()), reinterpret_cast<const char8_t *>(ct.data()), cs); }, got);
        judge("char8_t,char8_t", o, result_invalid || !ref::utf8_ok(from) || !ref::utf8_ok(to), got);
        o = call_str("replace", what + " form=cstr,cstr,assume_valid", [&] { return st->replace(cf.data(), ct.data(), cs, ST::assume_valid); }, got);
        judge("cstr,cstr,assume_valid", o, result_invalid, got);
        vrt::count("replace.form.cstr");
    }
    if (to_c) {
        Outcome o = call_str("replace", what + " form=str,cstr", [&] { return st->replace(*sfrom, ct.data(), cs); }, got);
        judge("str,cstr", o, result_invalid || !ref::utf8_ok(to), got);
        o = call_str("replace", what + " form=str,char8_t", [&] { return st->replace(*sfrom, reinterpret_cast<const char8_t *>(ct.data()), cs); }, got);
        judge("str,char8_t", o, result_invalid || !ref::utf8_ok(to), got);
    }
    if (from_c) {
        Outcome o = call_str("replace", what + " form=cstr,str", [&] { return st->replace(cf.data(), *sto, cs); }, got);
        judge("cstr,str", o, result_invalid || !ref::utf8_ok(from), got);
        o = call_str("replace", what + " form=char8_t,str", [&] { return st->replace(reinterpret_cast<const char8_t *>(cf.data()), *sto, cs); }, got);
        judge("char8_t,str", o, result_invalid || !ref::utf8_ok(from), got);
    }
    {
        // deprecated overload that takes (and ignores) a validation mode
        Outcome o = call_str("replace", what + " form=str,str,validation [deprecated]", [&] { return st->replace(*sfrom, *sto, cs, ST::assume_valid); }, got);
        judge("str,str,validation", o, result_invalid, got);
    }
    vrt::count("replace.cases");
    if (k) vrt::count("replace.with_matches");
    if (k > 1) vrt::count("replace.multiple_matches");
    if (to.size() > from.size() && k) vrt::count("replace.grows");
    if (to.size() < from.size() && k) vrt::count("replace.shrinks");
    if (from.empty()) vrt::count("replace.empty_pattern");
    if ((s.size() < 16) != (want.size() < 16)) vrt::count("replace.crosses_sso_limit");
    vrt::distinct(vrt::fnv_u64(ci, vrt::fnv1a(to.data(), to.size(), vrt::fnv1a(from.data(), from.size(), vrt::fnv1a(s.data(), s.size(), 22)))));
}

// ---------------------------------------------------------------- tokenize
static void tokenize_case(const vrt::Box<ST::string> &st, const S &s, const S *delims)
{
    S set = delims ? *delims : S(" \t\r\n");
    std::string what = sfmt("subject=%s delims=%s%s", show(s).c_str(), show(set).c_str(), delims ? "" : "(default)");
    const std::vector<S> want = ref::tokenize(s, set);
    std::vector<S> got;
    vrt::Exact<char> c(set.data(), set.size(), true);
    Outcome o = call_vec("tokenize", what, [&] { return delims ? st->tokenize(c.data()) : st->tokenize(); }, got);
    if (o == UNICODE_ERROR) vrt::violation("C09:tokenize:unexpected-unicode_error", what);
    else if (o == OK && got != want)
        vrt::violation("C09:tokenize:wrong-tokens", sfmt("%s got=%s want=%s", what.c_str(), showv(got).c_str(), showv(want).c_str()));
    vrt::count("tokenize.cases");
    if (want.size() > 1) vrt::count("tokenize.multiple_tokens");
    if (want.empty() && !s.empty()) vrt::count("tokenize.only_delimiters");
    vrt::distinct(vrt::fnv1a(set.data(), set.size(), vrt::fnv1a(s.data(), s.size(), 23)));
}

static void body()
{
    vrt::require("split.cases", 1000);
    vrt::require("split.with_cuts", 500);
    vrt::require("split.limited_by_max", 100);
    vrt::require("split.empty_sep_on_NUL_text", 10);
    vrt::require("split.form.char", 100);
    vrt::require("split.form.cstr", 100);
    vrt::require("split.huge_max", 100);
    vrt::require("replace.cases", 1000);
    vrt::require("replace.same_object_twice", 200);
    vrt::require("replace.multiple_matches", 100);
    vrt::require("replace.grows", 100);
    vrt::require("replace.shrinks", 100);
    vrt::require("replace.crosses_sso_limit", 10);
    vrt::require("replace.empty_pattern", 10);
    vrt::require("tokenize.cases", 500);
    vrt::require("tokenize.multiple_tokens", 100);

    // ASCII + NUL only in the exhaustive sweeps: results stay valid UTF-8, so the
    // re-validating overloads do not spend the budget on throwing (non-ASCII and
    // invalid UTF-8 are covered by the random phase)
    S alpha = "abA,;";
    alpha.push_back('\0');
    const size_t smax = vrt::thorough() ? 6 : 5, pmax = vrt::thorough() ? 3 : 2;
    const uint64_t ns = gen::count_strings(alpha.size(), smax), np = gen::count_strings(alpha.size(), pmax);
    vrt::note(sfmt("split exhaustive sweep: all subjects of length <= %zu x separators of length <= %zu over {a,b,A,',',';',NUL} x max_splits in {0,1,2,SIZE_MAX} x both case modes x every overload form", smax, pmax));
    static const size_t maxes[] = {0, 1, 2, SMAX};
    vrt::phase("split_exhaustive", ns, [&](uint64_t i, Rng &) {
        S s, sep;
        gen::nth_string(i, alpha, smax, s);
        vrt::Box<ST::string> st(vrt::mk(s));
        for (uint64_t j = 0; j < np; ++j) {
            gen::nth_string(j, alpha, pmax, sep);
            for (size_t m : maxes) {
                split_case(st, s, sep, m, false);
                split_case(st, s, sep, m, true);
            }
        }
        if (vrt::str_of(*st) != s) vrt::violation("C09:split:subject-changed", show(s));
        if (vrt::want_sample("split_exhaustive") && s.size() == smax && s.find(',') != S::npos)
            vrt::sample("split_exhaustive", sfmt("subject=%s x all %llu separators x max in {0,1,2,SIZE_MAX} x {cs,ci}", show(s).c_str(), static_cast<unsigned long long>(np)));
    });

    const size_t rsmax = vrt::thorough() ? 5 : 4, rpmax = 2;
    const uint64_t rns = gen::count_strings(alpha.size(), rsmax), rnp = gen::count_strings(alpha.size(), rpmax);
    vrt::note(sfmt("replace exhaustive sweep: all subjects of length <= %zu x patterns of length <= %zu x 8 replacement shapes x both case modes", rsmax, rpmax));
    vrt::phase("replace_exhaustive", rns, [&](uint64_t i, Rng &) {
        S s, from;
        gen::nth_string(i, alpha, rsmax, s);
        vrt::Box<ST::string> st(vrt::mk(s));
        for (uint64_t j = 0; j < rnp; ++j) {
            gen::nth_string(j, alpha, rpmax, from);
            S nul(1, '\0');
            const S tos[] = {S(), S("a"), S(","), S("ab"), from, from + from, S("A,b\xc3\xa9"), S("0123456789abcdefXYZ"), nul};
            for (const S &to : tos) {
                replace_case(st, s, from, to, false);
                replace_case(st, s, from, to, true);
            }
        }
        if (vrt::str_of(*st) != s) vrt::violation("C09:replace:subject-changed", show(s));
    });

    // random longer subjects: adjacent / overlapping / trailing occurrences, growth and
    // shrinkage across the small-string limit
    vrt::phase("random", vrt::tier_count(40000, 3000000), [&](uint64_t, Rng &r) {
        S al;
        switch (r.below(5)) {
        case 0: al = "ab,"; break;
        case 1: al = "aAbB,;"; break;
        case 4: al = "@`[{^~_\x7f,\x0c; \t)kK"; break;     // non-letters next to their bit-5 "twins": folding must touch A-Z only
        case 2: al = "ab, \t\xc3\xa9"; break;
        default: al = "aA,"; al.push_back('\0'); break;
        }
        S s = gen::bytes_over(r, gen::pick_len(r) % 80, al);
        S sep;
        switch (r.below(7)) {
        case 0: sep = ""; break;
        case 1: sep = s; break;
        case 2: sep = s + "a"; break;
        case 3: case 4:
            if (!s.empty()) {
                size_t b = r.below(s.size());
                sep = s.substr(b, 1 + r.below(std::min<size_t>(3, s.size() - b)));
                if (r.chance(1, 3)) sep = ref::uppered(sep);
                break;
            }
            /* fall through */
        default: { S u = gen::bytes_over(r, 1, al); sep = r.chance(1, 3) ? u + u : r.chance(1, 2) ? u : gen::bytes_over(r, 1 + r.below(3), al); }
        }
        vrt::Box<ST::string> st(vrt::mk(s));
        bool ci = r.chance(1, 2);
        size_t occ = ref::split(s, sep, SMAX, ci).size() - 1;
        size_t max;
        switch (r.below(7)) {
        case 0: max = 0; break;
        case 1: max = SMAX; break;
        case 6: {   // limits far beyond the number of occurrences ("all values of max_splits from 0 to SIZE_MAX")
            static const size_t huge[] = {SMAX - 1, SMAX - 2, SMAX / 2, SMAX / 2 + 1, SMAX / 2 - 1, size_t(1) << 32, (size_t(1) << 32) - 1, size_t(1) << 31,
                                          (size_t(1) << 31) - 1, SMAX / 8, SMAX / 16 + 1, size_t(1) << 40, 1000003};
            max = r.pick(huge);
            vrt::count("split.huge_max");
            break;
        }
        case 2: max = occ; break;
        case 3: max = occ ? occ - 1 : 1; break;
        case 4: max = occ + 1; break;
        default: max = r.below(5); break;
        }
        split_case(st, s, sep, max, ci);
        S to;
        switch (r.below(5)) {
        case 0: to = ""; break;
        case 1: to = sep; break;
        case 2: to = sep + sep; break;
        case 3: to = gen::bytes_over(r, r.below(24), al); break;
        default: to = gen::bytes_over(r, 1 + r.below(2), al); break;
        }
        replace_case(st, s, sep, to, ci);
        if (r.chance(1, 2)) {
            S d = gen::bytes_over(r, r.below(4), al);
            size_t z = d.find('\0');
            if (z != S::npos) d.erase(z);
            tokenize_case(st, s, &d);
        } else tokenize_case(st, s, nullptr);
        if (vrt::want_sample("random") && occ > 1 && s.size() > 10)
            vrt::sample("random", sfmt("subject=%s sep=%s max=%zu ci=%d to=%s", show(s).c_str(), show(sep).c_str(), max, ci, show(to).c_str()));
    });

    // tokenize: directed
    vrt::phase("tokenize", vrt::tier_count(20000, 1000000), [&](uint64_t, Rng &r) {
        S dl = r.chance(1, 2) ? S(" \t\r\n") : S(",;");
        S other = "xyZ\xc3\xa9";
        if (r.chance(1, 3)) other.push_back('\0');
        S s;
        size_t runs = r.below(6);
        for (size_t k = 0; k < runs; ++k) {
            s += gen::bytes_over(r, r.below(4), dl);
            s += gen::bytes_over(r, r.below(9), other);
        }
        s += gen::bytes_over(r, r.below(3), dl);
        vrt::Box<ST::string> st(vrt::mk(s));
        if (dl[0] == ' ' && r.chance(1, 2)) tokenize_case(st, s, nullptr);
        else tokenize_case(st, s, &dl);
        S empty;
        if (r.chance(1, 20)) tokenize_case(st, s, &empty);
    });
    vrt::alloc::check_pairing("split");
}

VRT_MAIN(body)
