// C04 - ST::string has value semantics: reads never mutate, results never
// alias.  A pool of strings (each in a heap block of exactly sizeof(ST::string)
// bytes) is driven through random histories; before every step every live
// string is snapshotted (bytes, size, data pointer), after it only the object
// the step was applied to as a mutator may differ.  Every returned string or
// buffer must own its storage; then one of {source, result} is overwritten or
// destroyed first and the other is re-compared.
#include "vrt.h"
#include "vrt_alloc.h"
#include "vrt_st.h"
#include "ref_text.h"
#include "ref_unicode.h"
#include "gen_text.h"
#include "gen_scale.h"
#include <sstream>
#include <memory>
#include <type_traits>
#include <utility>

using vrt::Rng;
using vrt::sfmt;
namespace va = vrt::alloc;
typedef std::string S;

static std::string show(const S &s) { return vrt::hex(s.data(), s.size(), 1, 40); }

struct Snap {
    const char *data;
    size_t size;
    S bytes;
};

// where a result lives: the object (what a reference to the result is bound to) and the storage its data pointer designates
struct Stor {
    const char *what;
    const void *obj;
    size_t objsize;
    const void *data;
    size_t units, unit;      // elements, bytes per element
    size_t limit;            // ST types: fewer elements than this live inside the object
    bool st;                 // an ST::string / ST::buffer (storage rules apply) or a std:: string (only the overlap rules)
};

// ---- where the objects live.  ST::string has alignment 8, but whatever malloc, operator new, a local variable or a
// std::vector element gives a program is 16-byte aligned; an object at an address 8 mod 16 exists only as a member behind an
// int, as std::pair<int, ST::string>::second, inside a std::map node ...  Half of the stand-alone pool objects therefore live 8 bytes
// into a block of sizeof(ST::string) + 8 bytes (the END of the object is still the end of the block, so a write past the object lands in
// the red zone; the 8 bytes in front are poisoned under ASan).  Some pools also keep their first slots inside one block, laid
// out the way the members of a struct / the elements of an array are: there a write that leaves one object lands in its
// neighbour, which ASan cannot see and the monitors can (they look at every live string before and after every step).  A released
// stand-alone block is, one time in four, handed to the next object of the same kind (rt/vrt_st.h "address reuse").
template <typename Obj>
struct Places {
    enum { NONE = 0, RECORDS, ARRAY, PAIRS };
    struct Record { int id; Obj a; Obj b; };                 // (only its layout is used)
    static const size_t MEMBER = (sizeof(int) + alignof(Obj) - 1) / alignof(Obj) * alignof(Obj);      // offset of a member behind an int
    static_assert(sizeof(Record) == MEMBER + 2 * sizeof(Obj) && sizeof(std::pair<int, Obj>) == MEMBER + sizeof(Obj) && MEMBER % 8 == 0 && sizeof(Obj) % 8 == 0,
                  "layout of an object that is a member behind an int");
    static const size_t MAXFIXED = 4;
    int layout = NONE;
    char *block[2] = {nullptr, nullptr};
    size_t block_bytes[2] = {0, 0};
    char *fixed[MAXFIXED] = {nullptr, nullptr, nullptr, nullptr};       // slot k < nfixed lives here
    size_t nfixed = 0;
    char *canary[2] = {nullptr, nullptr};                               // the `int` members (and their padding)
    size_t ncanary = 0;

    static void poison(void *p, size_t n) { vrt::RecyclePool::poison(p, n); }
    static void unpoison(void *p, size_t n) { vrt::RecyclePool::unpoison(p, n); }
    static char *raw(size_t bytes)
    {
        void *p = malloc(bytes);
        if (!p) { fprintf(stderr, "vrt: out of memory\n"); _exit(98); }
        return static_cast<char *>(p);
    }
    Places() { }
    Places(const Places &) = delete;
    Places &operator=(const Places &) = delete;
    void init(int want)
    {
        layout = want;
        auto add_block = [&](size_t k, size_t bytes) { block[k] = raw(bytes); block_bytes[k] = bytes; memset(block[k], 0xC5, bytes); poison(block[k], bytes); };
        auto add_canary = [&](char *at) { unpoison(at, MEMBER); canary[ncanary++] = at; };
        switch (layout) {
        case RECORDS:         // two `struct { int id; Obj a; Obj b; }`, each in a block of its own: all four objects at 8 mod 16
            for (size_t k = 0; k < 2; ++k) {
                add_block(k, sizeof(Record));
                add_canary(block[k]);
                fixed[nfixed++] = block[k] + MEMBER;
                fixed[nfixed++] = block[k] + MEMBER + sizeof(Obj);
            }
            break;
        case ARRAY: {         // `Obj arr[3]`, in half of the pools behind an 8-byte header
            const size_t lead = (vrt::placement_here() && (vrt::placement_next() & 1)) ? 8 : 0;
            add_block(0, lead + 3 * sizeof(Obj));
            for (size_t k = 0; k < 3; ++k) fixed[nfixed++] = block[0] + lead + k * sizeof(Obj);
            break;
        }
        case PAIRS: {         // `std::pair<int, Obj> arr[2]`
            const size_t stride = MEMBER + sizeof(Obj);
            add_block(0, 2 * stride);
            for (size_t k = 0; k < 2; ++k) { add_canary(block[0] + k * stride); fixed[nfixed++] = block[0] + k * stride + MEMBER; }
            break;
        }
        default: layout = NONE; break;
        }
    }
    ~Places()
    {
        for (size_t k = 0; k < 2; ++k)
            if (block[k]) { unpoison(block[k], block_bytes[k]); free(block[k]); }
    }
    bool canaries_intact() const
    {
        for (size_t k = 0; k < ncanary; ++k)
            for (size_t b = 0; b < MEMBER; ++b)
                if (static_cast<unsigned char>(canary[k][b]) != 0xC5) return false;
        return true;
    }
    // a layout for a pool, from the per-case placement stream: half of the pools have stand-alone objects only
    static int draw_layout()
    {
        if (!vrt::placement_here() || !vrt::placement_shifts()) return NONE;
        switch ((vrt::placement_next() >> 5) & 7) {
        case 0: case 1: return RECORDS;
        case 2: return ARRAY;
        case 3: return PAIRS;
        default: return NONE;
        }
    }
    // memory for a stand-alone object: a block that ends where the object ends; the object starts at 0 or 8 mod 16
    struct Own { void *base = nullptr; size_t bytes = 0; };
    static void *obtain(Own &o, int lead_wanted)           // lead_wanted: 0 / 8, or -1 = from the placement stream
    {
        size_t lead = 0;
        if (lead_wanted >= 0) lead = static_cast<size_t>(lead_wanted);
        else if (vrt::placement_here() && vrt::placement_shifts() && (vrt::placement_next() & 1)) lead = 8;
        o.bytes = sizeof(Obj) + lead;
        o.base = vrt::recycle_pool().take(o.bytes);
        if (!o.base) o.base = raw(o.bytes);
        if (lead) poison(o.base, lead);
        return static_cast<char *>(o.base) + lead;
    }
    static void release(Own &o)
    {
        if (o.bytes > sizeof(Obj)) unpoison(o.base, o.bytes - sizeof(Obj));
        if (!vrt::recycle_pool().park(o.base, o.bytes)) free(o.base);
        o.base = nullptr;
        o.bytes = 0;
    }
    static void tally(const void *obj)
    {
        if (reinterpret_cast<uintptr_t>(obj) % 16 == 8) { static uint64_t &c = vrt::counter("placement.objects_at_8_mod_16"); ++c; }
        else { static uint64_t &c = vrt::counter("placement.objects_16_byte_aligned"); ++c; }
    }
};

typedef Places<ST::string> SP;
// scripted step: the next stand-alone box starts 0 / 8 bytes into its block (-1: from the placement stream)
static int g_lead_next = -1;

// An ST::string in memory that ends where the object ends (what vrt::Box gives), at an address that is 0 or 8 mod 16 - or at a
// fixed place inside a block it shares with its neighbours.
struct At { void *where; };
struct SBox {
    ST::string *p = nullptr;
    SP::Own own;
    bool fixed = false;
    template <typename... A>
    explicit SBox(A &&...a)
    {
        void *mem = SP::obtain(own, g_lead_next);
        g_lead_next = -1;
        SP::tally(mem);
        try { p = new (mem) ST::string(std::forward<A>(a)...); } catch (...) { SP::release(own); throw; }
    }
    SBox(At at, ST::string &&v) : fixed(true)
    {
        SP::unpoison(at.where, sizeof(ST::string));
        SP::tally(at.where);
        p = new (at.where) ST::string(std::move(v));
    }
    SBox(const SBox &) = delete;
    SBox &operator=(const SBox &) = delete;
    ~SBox()
    {
        if (!p) return;
        p->~string();
        if (fixed) SP::poison(p, sizeof(ST::string));          // (the place stays; nothing may touch it until the next string is built there)
        else SP::release(own);
    }
    ST::string &operator*() { return *p; }
    ST::string *operator->() { return p; }
    const ST::string &operator*() const { return *p; }
    const ST::string *operator->() const { return p; }
    const char *lo() const { return reinterpret_cast<const char *>(p); }
    const char *hi() const { return reinterpret_cast<const char *>(p) + sizeof(ST::string); }
    bool inside(const void *q) const
    {
        const char *c = static_cast<const char *>(q);
        return c >= lo() && c < hi();
    }
};

struct Pool {
    static const size_t N = 12;
    SBox *obj[N] = {};
    S shadow[N];
    bool moved_from[N] = {};
    S history;
    // a moved-from string may report any value, but not an absurd one (nothing bigger than what this pool has been given can come
    // out of a move): 100000 covers the short phases, the scale phase raises it to the largest length in play
    size_t sane_max = 100000;
    // scale phase (same operations, same monitors, big values): main length of the case, cap for values grown by +=
    bool scale_mode = false;
    size_t scale_n = 0, grow_cap = 0;
    // soak phase: values of 64..300 bytes
    bool soak_mode = false;
    // where the strings live: slots k < places.nfixed are neighbours inside one block (struct { int id; ST::string a; ST::string b; },
    // ST::string arr[3], std::pair<int, ST::string> arr[2]), the others stand alone, half of them at an address 8 mod 16
    SP places;

    explicit Pool(int layout = -1) { places.init(layout >= 0 ? layout : SP::draw_layout()); }
    ~Pool() { for (size_t i = 0; i < N; ++i) kill(i); }
    void kill(size_t i) { delete obj[i]; obj[i] = nullptr; moved_from[i] = false; }
    void make(size_t i, const S &v)
    {
        kill(i);
        obj[i] = i < places.nfixed ? new SBox(At{places.fixed[i]}, vrt::mk(v)) : new SBox(vrt::mk(v));
        shadow[i] = v;
    }
    void fail(const char *what, const std::string &detail)
    {
        vrt::violation(sfmt("C04:%s", what), sfmt("%s | history: %s", detail.c_str(), history.c_str()));
    }
    void log(const std::string &d)
    {
        if (history.size() < 1400) { history += d; history += "; "; }
        vrt::cur_printf("%s\n", d.c_str());
    }

    // storage of `s` (living in `box`) must be its own: in-object when short, otherwise one
    // registry block that no pool object and no other given object points at
    void owns(const char *what, const SBox &box, const std::string &ctx, ssize_t except_slot = -1)
    {
        const ST::string &s = *box;
        const char *d = s.c_str();
        if (d[s.size()] != 0) fail("no-terminator", sfmt("%s %s", what, ctx.c_str()));
        if (s.size() < 16) {
            if (!box.inside(d)) fail("short-result-not-in-object", sfmt("%s size=%zu %s", what, s.size(), ctx.c_str()));
            return;
        }
        va::Block *b = va::find(d);
        if (!b || b->size != s.size() + 1) { fail("result-storage-not-an-own-block", sfmt("%s size=%zu %s", what, s.size(), ctx.c_str())); return; }
        for (size_t i = 0; i < N; ++i)
            if (obj[i] && static_cast<ssize_t>(i) != except_slot && (**obj[i]).c_str() == d)
                fail("result-shares-storage-with-a-live-string", sfmt("%s aliases slot %zu %s", what, i, ctx.c_str()));
    }

    // the same for a result that was NOT moved into a box of its own but is looked at where the caller's reference to it points
    // (`const auto &b = s.op();` / `auto &&b = s.op();`): neither the object nor its data may overlap a live string or its storage;
    // returns false when they do (the caller then keeps away from destroying that string)
    bool own_storage(const Stor &x, const std::string &ctx)
    {
        bool ok = true;
        const char *ob = static_cast<const char *>(x.obj), *oe = ob + x.objsize;
        const char *db = static_cast<const char *>(x.data), *de = db + (x.units + 1) * x.unit;
        for (size_t k = 0; k < N; ++k) {
            if (!obj[k]) continue;
            if (ob < obj[k]->hi() && obj[k]->lo() < oe) {
                fail("bound-result-is-part-of-a-live-string", sfmt("%s: the object the caller's reference designates lies inside the string in slot %zu (a reference to a member, not a value) %s", x.what, k, ctx.c_str()));
                ok = false;
            }
            const ST::string &s = **obj[k];
            const char *sb = s.c_str(), *se = sb + s.size() + 1;
            if (db < se && sb < de) {
                fail("bound-result-shares-storage-with-a-live-string", sfmt("%s: size=%zu data overlaps the storage of slot %zu %s", x.what, x.units, k, ctx.c_str()));
                ok = false;
            }
        }
        if (!ok || !x.st) return ok;
        if (x.units < x.limit) {
            if (!(db >= ob && de <= oe)) { fail("short-result-not-in-object", sfmt("%s size=%zu %s", x.what, x.units, ctx.c_str())); return true; }
        } else {
            va::Block *b = va::find(x.data);
            if (!b || b->size != (x.units + 1) * x.unit) { fail("result-storage-not-an-own-block", sfmt("%s size=%zu %s", x.what, x.units, ctx.c_str())); return true; }
        }
        static const char zeros[8] = {};
        if (memcmp(db + x.units * x.unit, zeros, x.unit) != 0) fail("no-terminator", sfmt("%s %s", x.what, ctx.c_str()));
        return true;
    }

    // (the vector is reused from step to step: at scale a fresh copy of every live value per step would mostly cost page faults)
    void snapshot(std::vector<Snap> &v)
    {
        v.resize(N);
        for (size_t i = 0; i < N; ++i) {
            if (obj[i]) { const ST::string &s = **obj[i]; v[i].data = s.c_str(); v[i].size = s.size(); v[i].bytes.assign(s.c_str(), s.size()); }
            else { v[i].data = nullptr; v[i].size = 0; v[i].bytes.clear(); }
        }
    }
    // storage of a long string must be a live registry block before anything is read through it
    static bool readable(const ST::string &s) { return s.size() < 16 || va::find(s.c_str()) != nullptr; }
    static bool same_bytes(const ST::string &s, const S &want) { return s.size() == want.size() && (want.empty() || memcmp(s.c_str(), want.data(), want.size()) == 0); }
    static std::string show_at(const ST::string &s, const S &want)
    {
        const S got(s.c_str(), s.size());
        if (got.size() <= 64 && want.size() <= 64) return sfmt("is %s, expected %s", show(got).c_str(), show(want).c_str());
        const size_t at = scale::first_diff(got, want);
        return sfmt("is %s, expected %s", scale::brief(got, at).c_str(), scale::brief(want, at).c_str());
    }
    // after a step: everything except `mutated` must be bit-identical (bytes, size, data pointer)
    void unchanged_except(const std::vector<Snap> &before, ssize_t mutated, ssize_t mutated2, const std::string &op)
    {
        for (size_t i = 0; i < N; ++i) {
            if (!obj[i] || static_cast<ssize_t>(i) == mutated || static_cast<ssize_t>(i) == mutated2 || !before[i].data) continue;
            const ST::string &s = **obj[i];
            // (nothing is read through a data pointer that is neither inside the object nor a live block: a write that left a neighbouring object may have replaced it)
            if (s.size() < 16 && !obj[i]->inside(s.c_str())) { fail("bystander-data-pointer-changed", sfmt("slot %zu (size %zu): its data pointer no longer designates its own in-object storage after %s", i, s.size(), op.c_str())); continue; }
            if (!readable(s)) { fail("bystander-storage-released", sfmt("slot %zu (size %zu): its heap block is no longer live after %s", i, s.size(), op.c_str())); continue; }
            if (!same_bytes(s, before[i].bytes))
                fail("bystander-value-changed", sfmt("slot %zu %s (expected = before) after %s", i, show_at(s, before[i].bytes).c_str(), op.c_str()));
            else if (s.c_str() != before[i].data)
                fail("data-pointer-changed-by-a-read", sfmt("slot %zu after %s", i, op.c_str()));
        }
        vrt::evals();
    }
    // every live string equals its model and owns its storage
    void check_models(const std::string &op)
    {
        for (size_t i = 0; i < N; ++i) {
            if (!obj[i]) continue;
            const ST::string &s = **obj[i];
            if (moved_from[i]) {
                if (s.size() > sane_max) { fail("moved-from:absurd-size", op); obj[i] = nullptr; continue; }
                if (s.size() < 16 && !obj[i]->inside(s.c_str())) { fail("moved-from:points-into-another-object", sfmt("slot %zu after %s", i, op.c_str())); continue; }
                if (s.size() >= 16 && !va::find(s.c_str())) { fail("moved-from:dangling", sfmt("slot %zu after %s", i, op.c_str())); continue; }
                shadow[i].assign(s.c_str(), s.size());
                moved_from[i] = false;
                vrt::count("moved_from.adopted");
            }
            if (s.size() < 16 && !obj[i]->inside(s.c_str())) { fail("short-content-not-in-object", sfmt("slot %zu (size %zu) after %s", i, s.size(), op.c_str())); obj[i] = nullptr; continue; }      // (given up: nothing is read or released through it)
            if (!readable(s)) { fail("storage-released", sfmt("slot %zu (size %zu): its heap block is no longer live after %s", i, s.size(), op.c_str())); continue; }
            if (!same_bytes(s, shadow[i]))
                fail("value-differs-from-model", sfmt("slot %zu %s after %s", i, show_at(s, shadow[i]).c_str(), op.c_str()));
            owns("pool string", *obj[i], sfmt("slot %zu after %s", i, op.c_str()), static_cast<ssize_t>(i));
        }
        // exclusive ownership inside the pool
        for (size_t i = 0; i < N; ++i)
            for (size_t j = i + 1; j < N; ++j)
                if (obj[i] && obj[j] && (**obj[i]).size() >= 16 && (**obj[i]).c_str() == (**obj[j]).c_str())
                    fail("two-strings-share-storage", sfmt("slots %zu and %zu after %s", i, j, op.c_str()));
        if (!places.canaries_intact()) fail("neighbouring-member-overwritten", sfmt("the int member in front of a string inside a struct / pair no longer holds its value, after %s", op.c_str()));
        va::check_pairing("value");
    }
};

static S pick_value(Rng &r)
{
    static const size_t lens[] = {0, 1, 15, 16, 17, 40, 300, 3, 14, 18, 31, 32};
    size_t n = r.chance(1, 4) ? r.below(40) : r.pick(lens);
    S s;
    switch (r.below(4)) {
    case 0: s = gen::bytes_over(r, n, "ab ,"); break;
    case 1: while (s.size() < n) ref::enc_utf8(s, r.chance(1, 2) ? 0xE9 : 0x1F600); break;
    case 2: s = gen::bytes_over(r, n, S("aA\0 x", 5)); break;
    default: s = gen::bytes_over(r, n, "abcdefghijklmnopqrstuvwxyz  ,;"); break;
    }
    return s;
}

// ---- scale: values of exactly `len` bytes (4 KiB .. a few MiB): well-formed UTF-8 text over a dozen or more symbols (so that no
// search in the reference model or the library degenerates), built from a random tile repeated with a period that is no power of
// two; separators, blanks and upper-case letters are rare but present, some values start and end with blanks
static S big_value(Rng &r, size_t len)
{
    static const char *const units_ascii[] = {"a", "b", "c", "d", "e", "f", "g", "h", "k", "m", "n", "o", "p", "r", "s", "t", "u", "w", "x", "y"};
    static const char *const units_multi[] = {"\xC3\xA9", "\xC3\x89", "\xE2\x82\xAC", "\xF0\x9F\x98\x80", "\xC4\xB0", "\xEF\xBF\xBD"};
    static const char *const units_rare[] = {" ", ",", ";", "A", "Q", "Z", "\t", "0", "7", "-"};
    const unsigned flavour = static_cast<unsigned>(r.below(4));          // 0: lower-case ASCII, 1: + upper case, 2: + multi-byte, 3: mostly multi-byte
    static const size_t periods[] = {1021, 2039, 4093, 8191, 16381, 32749, 65521, 131071};
    size_t np = 1;
    while (np < sizeof(periods) / sizeof(periods[0]) && periods[np] < len) ++np;
    const size_t P = std::min(len, periods[r.below(np)]);
    S tile;
    tile.reserve(P + 4);
    while (tile.size() < P) {
        const unsigned k = static_cast<unsigned>(r.below(100));
        if (k < 3) tile += r.pick(units_rare);
        else if (flavour == 1 && k < 25) tile += static_cast<char>('A' + r.below(26));
        else if ((flavour == 2 && k < 20) || (flavour == 3 && k < 80)) tile += r.pick(units_multi);
        else tile += r.pick(units_ascii);
    }
    const bool blanks = len >= 64 && r.chance(1, 4);
    const size_t lead = blanks ? 1 + r.below(5) : 0, trail = blanks ? 1 + r.below(5) : 0, body = len - trail;
    S v(lead, ' ');
    v.reserve(len + tile.size());
    while (v.size() < body) v += tile;
    v.resize(body);
    // a character cut by the end of the body becomes ASCII
    size_t b = body;
    while (b > lead && body - b < 4 && (static_cast<unsigned char>(v[b - 1]) & 0xC0) == 0x80) --b;
    if (b > lead && static_cast<unsigned char>(v[b - 1]) >= 0xC0) {
        const unsigned char lc = static_cast<unsigned char>(v[b - 1]);
        const size_t need = lc >= 0xF0 ? 4 : lc >= 0xE0 ? 3 : 2;
        if (body - (b - 1) < need) for (size_t k = b - 1; k < body; ++k) v[k] = 'x';
    }
    for (size_t k = 0; k < trail; ++k) v += (k & 1) ? '\t' : ' ';
    // something unique near both ends and in the middle (the tile repeats); only ASCII bytes are replaced
    if (len >= 64) {
        static const char marks[] = "jlqvz";
        const size_t where[] = {8, len / 2, len - 32};
        for (size_t w : where)
            for (size_t k = w; k < w + 16 && k < len; ++k)
                if (static_cast<unsigned char>(v[k]) < 0x80 && v[k] != ' ' && v[k] != '\t') { v[k] = marks[r.below(5)]; break; }
    }
    return v;
}

// the length of the next value of a scale case: the main length n of the case and its neighbours, another boundary length, half of
// it, the exact size of a string that is alive right now - or one of the small size classes
// soak: values above the small-string limit (64..300 bytes): words, mixed UTF-8, mixed case, or plain ASCII whose only non-ASCII
// characters are the last 2..7 bytes
static S soak_value(Rng &r)
{
    const size_t len = 64 + r.below(237);
    switch (r.below(5)) {
    case 0: return gen::bytes_over(r, len, "abcdefghijklmnopqrstuvwxyz  ,;");
    case 1: return scale::utf8_background(r, len, scale::MIXED_UTF8);
    case 2: return gen::bytes_over(r, len, "abcdefghABCDEFGH ,");
    case 3: return pick_value(r);
    default: {
        static const char *const tails[] = {"\xC3\xA9", "\xE2\x82\xAC", "\xF0\x9F\x98\x80", "\xC3\x89\xE2\x82\xAC", "\xE2\x82\xAC\xEF\xBF\xBD", "\xF0\x9F\x98\x80\xE2\x82\xAC"};
        const S tail = r.pick(tails);
        return gen::bytes_over(r, len - tail.size(), "abcdefghijklmnop") + tail;
    }
    }
}

static S pick_for(Pool &p, Rng &r)
{
    if (p.soak_mode) return soak_value(r);
    if (!p.scale_mode) return pick_value(r);
    const size_t n = p.scale_n;
    size_t len;
    switch (r.below(10)) {
    case 0: case 1: case 2: { const long v = static_cast<long>(n) + scale::nudge(r); len = v < 0 ? 0 : static_cast<size_t>(v); break; }
    case 3: len = n; break;
    case 4: len = scale::length(r, std::min<size_t>(n, 262144), 2048); break;
    case 5: len = r.chance(1, 2) ? n / 2 : n / 2 + n / 4; break;
    case 6: { const size_t k = r.below(Pool::N); len = (p.obj[k] && !p.moved_from[k]) ? p.shadow[k].size() : n; break; }
    default: return pick_value(r);
    }
    vrt::count("scale.big_values");
    return len < 256 ? gen::bytes_over(r, len, "abcdefghijklmnopqrstuvwxyz  ,;") : big_value(r, len);
}

// scale: the needle of the searching operations is a short piece of t (an object of its own) instead of the whole of a big t - the
// reference model scans naively (and so may the library); everything that does not search takes t itself
struct Needle {
    std::unique_ptr<SBox> box;
    S bytes;
    Needle(Pool &p, Rng &r, const S &mt)
    {
        if (p.scale_mode && mt.size() > 64) {
            const size_t k = 2 + r.below(7), at = r.chance(1, 2) ? scale::offset_any(r, mt.size() - k) : r.below(mt.size() - k + 1);
            bytes = mt.substr(at, k);
            box.reset(new SBox(vrt::mk(bytes)));
        }
    }
};
static bool dense(Pool &p, size_t pieces)
{
    if (p.scale_mode && pieces > 4096) { vrt::count("scale.skipped_more_than_4096_pieces"); return true; }
    return false;
}

// A const operation on slot i; returns the results as boxed strings with their expected values
struct Produced {
    std::vector<SBox *> results;
    std::vector<S> expected;
    ~Produced() { for (auto *p : results) delete p; }
    void add(ST::string &&s, const S &want) { results.push_back(new SBox(std::move(s))); expected.push_back(want); }
};

static std::string const_op(Pool &p, Rng &r, size_t i, size_t j, Produced &out, int forced = -1)
{
    const ST::string &s = **p.obj[i];
    const ST::string &t = **p.obj[j];
    const S &ms = p.shadow[i], &mt = p.shadow[j];
    const bool ci = r.chance(1, 3);
    ST::case_sensitivity_t cs = ci ? ST::case_insensitive : ST::case_sensitive;
    std::string d;
    Needle needle(p, r, mt);
    const ST::string &tn = needle.box ? **needle.box : t;
    const S &mtn = needle.box ? needle.bytes : mt;
    const bool at_scale = p.scale_mode && ms.size() > 256;
    switch (forced >= 0 ? static_cast<uint64_t>(forced) : r.below(30)) {
    case 0: out.add(s.substr(0), ms); d = "substr(whole)"; vrt::count("op.result_equals_source"); break;
    case 1: {
        long st; size_t c;
        if (at_scale) { st = static_cast<long>(scale::offset_any(r, ms.size())); if (r.chance(1, 3)) st = -st; c = r.chance(1, 3) ? static_cast<size_t>(-1) : r.chance(1, 2) ? scale::offset_any(r, ms.size()) : r.below(40); }
        else { st = r.range(-5, 20); c = r.below(40); }
        out.add(s.substr(st, c), ref::substr(ms, st, c)); d = sfmt("substr(%ld,%zu)", st, c); break; }
    case 2: { size_t n = (at_scale && r.chance(3, 4)) ? scale::offset_any(r, ms.size()) : r.below(ms.size() + 3); out.add(s.left(n), ref::left(ms, n)); d = sfmt("left(%zu)", n); break; }
    case 3: { size_t n = (at_scale && r.chance(3, 4)) ? scale::offset_any(r, ms.size()) : r.below(ms.size() + 3); out.add(s.right(n), ref::right(ms, n)); d = sfmt("right(%zu)", n); break; }
    case 4: out.add(s.trim(), ref::trim(ms, " \t\r\n")); d = "trim"; if (ref::trim(ms, " \t\r\n") == ms) vrt::count("op.result_equals_source"); break;
    case 5: out.add(s.trim_left("a "), ref::trim_left(ms, "a ")); out.add(s.trim_right(" ,"), ref::trim_right(ms, " ,")); d = "trim_left/right"; break;
    case 6: out.add(s.before_first(tn, cs), ref::before_first(ms, mtn, ci)); out.add(s.after_first(tn, cs), ref::after_first(ms, mtn, ci)); d = sfmt("before/after_first(s%zu)", j); break;
    case 7: out.add(s.before_last(tn, cs), ref::before_last(ms, mtn, ci)); out.add(s.after_last(tn, cs), ref::after_last(ms, mtn, ci)); d = sfmt("before/after_last(s%zu)", j); break;
    case 8: out.add(s.before_first(','), ref::before_first(ms, ",", false)); out.add(s.after_last(','), ref::after_last(ms, ",", false)); d = "before_first/after_last(',')"; break;
    case 9: out.add(s.to_upper(), ref::uppered(ms)); out.add(s.to_lower(), ref::folded(ms)); d = "to_upper/lower"; break;
    case 10: case 11: {
        // replace: the string overload re-validates its result (DESIGN 4/C09)
        S want = ref::replace(ms, mtn, "<>", ci);
        try { out.add(s.replace(tn, ST::string("<>"), cs), want); } catch (const ST::unicode_error &) { if (ref::utf8_ok(want)) p.fail("replace-threw", "valid result rejected"); }
        d = sfmt("replace(s%zu,\"<>\")", j);
        if (want == ms) vrt::count("op.result_equals_source");
        break;
    }
    case 12: {
        S want = ref::replace(ms, ms, ms, false);
        try { out.add(s.replace(s, s), want); } catch (const ST::unicode_error &) { if (ref::utf8_ok(want)) p.fail("replace-threw", "valid result rejected"); }
        d = "replace(self,self)"; vrt::count("op.self_referential");
        break;
    }
    case 13: {
        size_t mx = r.chance(1, 2) ? static_cast<size_t>(-1) : r.below(3);
        d = sfmt("split(s%zu)", j);
        std::vector<S> want = ref::split(ms, mtn, mx, ci);
        if (dense(p, want.size())) break;
        std::vector<ST::string> v = s.split(tn, mx, cs);
        if (v.size() != want.size()) p.fail("split-piece-count", d);
        for (size_t k = 0; k < v.size() && k < want.size(); ++k) out.add(std::move(v[k]), want[k]);
        break;
    }
    case 14: {
        d = "split(',')";
        std::vector<S> want = ref::split(ms, ",", static_cast<size_t>(-1), false);
        if (dense(p, want.size())) break;
        std::vector<ST::string> v = s.split(',');
        if (v.size() != want.size()) p.fail("split-piece-count", d);
        for (size_t k = 0; k < v.size() && k < want.size(); ++k) out.add(std::move(v[k]), want[k]);
        break;
    }
    case 15: {
        d = "tokenize";
        std::vector<S> want = ref::tokenize(ms, " ,");
        if (dense(p, want.size())) break;
        std::vector<ST::string> v = s.tokenize(" ,");
        if (v.size() != want.size()) p.fail("tokenize-count", d);
        for (size_t k = 0; k < v.size() && k < want.size(); ++k) out.add(std::move(v[k]), want[k]);
        break;
    }
    case 16: out.add(s + t, ms + mt); out.add(t + s, mt + ms); d = sfmt("s + s%zu", j); break;
    case 17: out.add(s + s, ms + ms); d = "s + s"; vrt::count("op.self_referential"); break;
    case 18: out.add(s + "lit", ms + "lit"); out.add("lit" + s, "lit" + ms); out.add(s + U'€', ms + "\xE2\x82\xAC"); out.add('x' + s, "x" + ms); d = "s + literal/char"; break;
    case 19: { ST::string c(s); out.add(std::move(c), ms); d = "copy-construct"; vrt::count("op.result_equals_source"); break; }
    case 20: {
        ST::char_buffer b = s.to_utf8();
        if (b.size() != ms.size() || S(b.data(), b.size()) != ms) p.fail("to_utf8-value", "");
        if (b.size() >= 16 && b.data() == s.c_str()) p.fail("to_utf8-aliases-source", "");
        b.data()[0] = b.size() ? '!' : 0;            // writing into the returned buffer must not reach the source
        out.add(ST::string::from_validated(std::move(b)), (ms.empty() ? S() : "!" + ms.substr(1)));
        d = "to_utf8 (then write into the buffer)";
        break;
    }
    case 21: {
        // conversions only read; results are independent buffers
        ST::utf16_buffer a = s.to_utf16(); ST::utf32_buffer b = s.to_utf32(); ST::wchar_buffer c = s.to_wchar(); ST::char_buffer l = s.to_latin_1();
        S x = s.to_std_string();
        std::u16string y = s.to_std_u16string();
        (void)a; (void)b; (void)c; (void)l;
        if (x != ms) p.fail("to_std_string-value", "");
        d = "to_utf16/32/wchar/latin_1/std_string";
        break;
    }
    case 22: {
        volatile unsigned long sink = static_cast<unsigned long>(s.find(tn, cs)) + static_cast<unsigned long>(s.find_last(tn, cs)) + s.contains(tn) + s.starts_with(t, cs) + s.ends_with(t, cs) +
                                      static_cast<unsigned long>(s.compare(t, cs)) + static_cast<unsigned long>(s.compare_n(t, 3)) + ST::hash()(s) + ST::hash_i()(s) + (s == t) + (s < t) +
                                      static_cast<unsigned long>(s.to_int()) + (s.to_double() > 0 ? 1u : 0u);
        (void)sink;
        d = sfmt("find/contains/compare/hash/to_int with s%zu", j);
        break;
    }
    case 23: {
        try { out.add(ST::format("[{}|{>5}|{}]", s, t, s), "[" + ms + "|" + S(mt.size() < 5 ? 5 - mt.size() : 0, ' ') + mt + "|" + ms + "]"); }
        catch (const ST::unicode_error &) { }
        d = sfmt("format with s and s%zu", j);
        break;
    }
    case 24: {
        std::ostringstream os;
        os << s;
        if (os.str() != ms) p.fail("ostream-insert-value", "");
        ST::string_stream ss;
        ss << s << t;
        if (S(ss.raw_buffer(), ss.size()) != ms + mt) p.fail("string_stream-insert-value", "");
        d = "stream insertion";
        break;
    }
    case 25: {
        // iterate / index / view
        size_t n = 0;
        for (auto it = s.begin(); it != s.end(); ++it) n += static_cast<unsigned char>(*it) != 0x100;
        for (auto it = s.rbegin(); it != s.rend(); ++it) ++n;
        std::string_view v = s.view();
        if (n != 2 * ms.size() || S(v) != ms || (ms.size() && (s.front() != ms.front() || s.back() != ms.back()))) p.fail("iteration-value", "");
        d = "iterate/view";
        break;
    }
    case 26: { const size_t cnt = (p.scale_mode && r.chance(1, 2)) ? scale::length(r, static_cast<size_t>(4) << 20, 16) : r.below(20); out.add(ST::string::fill(cnt, 'z'), S(cnt, 'z')); d = sfmt("fill(%zu)", cnt); break; }
    case 27: { S want; for (unsigned char c : ms) ref::enc_utf8(want, c); out.add(ST::string::from_latin_1(s.to_utf8()), want); d = "from_latin_1(to_utf8)"; break; }
    case 28: out.add(ST::string::from_std_string(s.to_std_string(), ST::assume_valid), ms); out.add(ST::string(s.c_str(), s.size(), ST::assume_valid), ms); d = "rebuild from bytes"; vrt::count("op.result_equals_source"); break;
    default: {
        // a pattern that (almost always) does not occur: the result equals the source; the expectation comes from the reference model
        // all the same (random text contained "zzzq" once in 14 M steps of a thorough run and the fixed expectation was a false alarm)
        const S want = ref::replace(ms, "zzzq", "y", ci);
        out.add(s.replace("zzzq", "y", cs, ST::assume_valid), want);
        d = "replace(no match)";
        if (want == ms) vrt::count("op.result_equals_source");
        break;
    }
    }
    return sfmt("s%zu[%zu].%s", i, ms.size(), d.c_str());
}

// ---- results held the way `const auto &b = s.op();` / `auto &&b = s.op();` holds them (on an operation that returns a value this
// is a lifetime-extended temporary of the caller's; an operation that hands out a reference to something inside the string would
// be bound to THAT).  The storage / independence monitors are applied to what the reference designates, not to a copy.
static void describe(const ST::string &x, std::vector<Stor> &v) { v.push_back(Stor{"ST::string", &x, sizeof(x), x.c_str(), x.size(), 1, 16, true}); }
template <typename T>
static void describe(const ST::buffer<T> &x, std::vector<Stor> &v)
{
    v.push_back(Stor{"ST::buffer", &x, sizeof(x), x.data(), x.size(), sizeof(T), (sizeof(ST::buffer<T>) - sizeof(T *) - sizeof(size_t)) / sizeof(T), true});
}
template <typename T>
static void describe(const std::basic_string<T> &x, std::vector<Stor> &v) { v.push_back(Stor{"std::basic_string", &x, sizeof(x), x.data(), x.size(), sizeof(T), 0, false}); }
static void describe(const std::vector<ST::string> &x, std::vector<Stor> &v) { for (const ST::string &e : x) describe(e, v); }

static void scribble(ST::string &x, Rng &r)
{
    switch (r.below(3)) {
    case 0: x = "overwritten-result-value-0123456789"; break;
    case 1: x += "+"; break;
    default: x.clear(); break;
    }
}
template <typename T>
static void scribble(ST::buffer<T> &x, Rng &r)
{
    switch (r.below(3)) {
    case 0: if (x.size()) { x.data()[0] = T('!'); x.data()[x.size() - 1] = T('!'); x.data()[x.size() / 2] = T('!'); } break;
    case 1: x.allocate(x.size(), T('w')); break;
    default: x.clear(); break;
    }
}
template <typename T>
static void scribble(std::basic_string<T> &x, Rng &) { for (auto &c : x) c = T('!'); x.push_back(T('+')); }
static void scribble(std::vector<ST::string> &x, Rng &r) { for (ST::string &e : x) scribble(e, r); }

// `b` is the caller's reference; R is const-qualified when the reference is
template <typename R>
static void probe_bound(Pool &p, Rng &r, size_t i, const std::vector<Snap> &before, R &b, const S *want, const std::string &d)
{
    std::vector<Stor> st;
    describe(b, st);
    bool sound = true;
    for (const Stor &x : st) sound = p.own_storage(x, d) && sound;
    for (size_t k = 0; k < st.size(); ++k)
        for (size_t m = 0; m < k; ++m)
            if (st[k].units >= st[k].limit && st[k].data == st[m].data) p.fail("two-results-share-storage", d);
    std::vector<S> snap;
    for (const Stor &x : st) snap.emplace_back(static_cast<const char *>(x.data), x.units * x.unit);
    if (want && st.size() == 1 && snap[0] != *want)
        p.fail("wrong-result", sfmt("%s: %s, expected %s", d.c_str(), snap[0].size() > 64 ? scale::brief(snap[0], scale::first_diff(snap[0], *want)).c_str() : show(snap[0]).c_str(),
                                    want->size() > 64 ? scale::brief(*want, scale::first_diff(snap[0], *want)).c_str() : show(*want).c_str()));
    p.unchanged_except(before, -1, -1, d);
    vrt::count("bound.results", st.size());
    vrt::count(std::is_const<R>::value ? "bound.const_lvalue_reference" : "bound.forwarding_reference");
    if (st.empty()) return;
    const bool source_first = r.chance(1, 2) || std::is_const<R>::value;
    if (source_first) {
        // modify / reassign / move from / destroy the SOURCE: what the reference designates keeps its place, size and bytes
        ST::string &s = **p.obj[i];
        unsigned how = static_cast<unsigned>(r.below(6));
        if (!sound && how >= 4) how = 3;           // never read through a reference into an object that is gone
        const char *what;
        switch (how) {
        case 0: { S nv = (p.scale_mode && p.shadow[i].size() > 256) ? big_value(r, p.shadow[i].size() + 3) : S(p.shadow[i].size() + 3, '#'); s = vrt::mk(nv); p.shadow[i].swap(nv); what = "overwrite source"; break; }
        case 1: { size_t j = r.below(Pool::N); if (!p.obj[j] || p.moved_from[j]) j = i; s = static_cast<const ST::string &>(**p.obj[j]); p.shadow[i] = p.shadow[j]; what = "copy-assign to source"; break; }
        case 2: s += "x"; p.shadow[i] += "x"; what = "append to source"; break;
        case 3: s.clear(); p.shadow[i].clear(); what = "clear source"; break;
        case 4: { ST::string taken(std::move(s)); p.moved_from[i] = true; what = "move from source"; break; }
        default: p.kill(i); what = "destroy source"; break;
        }
        p.log(what);
        std::vector<Stor> now;
        describe(b, now);
        if (now.size() != st.size()) p.fail("bound-result-changed-with-its-source", sfmt("%s then %s: number of results changed", d.c_str(), what));
        for (size_t k = 0; k < now.size() && k < st.size(); ++k) {
            if (now[k].data != st[k].data || now[k].units != st[k].units)
                p.fail("bound-result-changed-with-its-source", sfmt("%s then %s: result %zu had size %zu, has %zu%s", d.c_str(), what, k, st[k].units, now[k].units, now[k].data != st[k].data ? " (and another data pointer)" : ""));
            else if (!snap[k].empty() && memcmp(now[k].data, snap[k].data(), snap[k].size()) != 0)
                p.fail("bound-result-changed-with-its-source", sfmt("%s then %s: bytes of result %zu changed", d.c_str(), what, k));
        }
        vrt::count("independence.bound_source_first");
    } else {
        if constexpr (!std::is_const<R>::value) scribble(b, r);
        p.unchanged_except(before, -1, -1, d + " + write through the bound result");
        vrt::count("independence.bound_result_first");
    }
}

// `form` alternates between the two spellings a caller would use
#define BOUND(EXPR, WANT)                                                                          \
    do {                                                                                           \
        if (form) { const auto &b = (EXPR); probe_bound(p, r, i, before, b, (WANT), d); }         \
        else { auto &&b = (EXPR); probe_bound(p, r, i, before, b, (WANT), d); }                   \
    } while (0)

static std::string bound_op(Pool &p, Rng &r, size_t i, size_t j, const std::vector<Snap> &before, int forced = -1)
{
    const ST::string &s = **p.obj[i];
    const ST::string &t = **p.obj[j];
    const S ms = p.shadow[i], mt = p.shadow[j];          // copies: the probe changes the source (and its model)
    const bool ci = r.chance(1, 3);
    const ST::case_sensitivity_t cs = ci ? ST::case_insensitive : ST::case_sensitive;
    const bool form = r.chance(1, 2);
    Needle needle(p, r, mt);
    const ST::string &tn = needle.box ? **needle.box : t;
    const S &mtn = needle.box ? needle.bytes : mt;
    const bool at_scale = p.scale_mode && ms.size() > 256;
    const S *none = nullptr;
    const unsigned which = forced >= 0 ? static_cast<unsigned>(forced) : static_cast<unsigned>(r.below(30));
    std::string d = sfmt("s%zu[%zu] bound to %s = ", i, ms.size(), form ? "const auto &" : "auto &&");
    S want;
    try {
        switch (which) {
        case 0: case 1: d += "to_utf8()"; BOUND(s.to_utf8(), &ms); vrt::count("bound.to_utf8"); break;
        case 2: d += "substr(0)"; BOUND(s.substr(0), &ms); break;
        case 3: {
            long st; size_t c;
            if (at_scale) { st = static_cast<long>(scale::offset_any(r, ms.size())); if (r.chance(1, 3)) st = -st; c = r.chance(1, 2) ? static_cast<size_t>(-1) : scale::offset_any(r, ms.size()); }
            else { st = r.range(-5, 20); c = r.chance(1, 2) ? static_cast<size_t>(-1) : r.below(40); }
            d += sfmt("substr(%ld,%zu)", st, c); want = ref::substr(ms, st, c); BOUND(s.substr(st, c), &want); break;
        }
        case 4: { const size_t n = (at_scale && r.chance(3, 4)) ? scale::offset_any(r, ms.size()) : r.below(ms.size() + 3); d += sfmt("left(%zu)", n); want = ref::left(ms, n); BOUND(s.left(n), &want); break; }
        case 5: { const size_t n = (at_scale && r.chance(3, 4)) ? scale::offset_any(r, ms.size()) : r.below(ms.size() + 3); d += sfmt("right(%zu)", n); want = ref::right(ms, n); BOUND(s.right(n), &want); break; }
        case 6: d += "trim()"; want = ref::trim(ms, " \t\r\n"); BOUND(s.trim(), &want); break;
        case 7: d += "trim_left(\"a \")"; want = ref::trim_left(ms, "a "); BOUND(s.trim_left("a "), &want); break;
        case 8: d += "trim_right(\" ,\")"; want = ref::trim_right(ms, " ,"); BOUND(s.trim_right(" ,"), &want); break;
        case 9: d += sfmt("before_first(s%zu)", j); want = ref::before_first(ms, mtn, ci); BOUND(s.before_first(tn, cs), &want); break;
        case 10: d += sfmt("after_last(s%zu)", j); want = ref::after_last(ms, mtn, ci); BOUND(s.after_last(tn, cs), &want); break;
        case 11: d += "after_first(',')"; want = ref::after_first(ms, ",", false); BOUND(s.after_first(','), &want); break;
        case 12: d += "before_last(\",\")"; want = ref::before_last(ms, ",", false); BOUND(s.before_last(","), &want); break;
        case 13: d += "to_upper()"; want = ref::uppered(ms); BOUND(s.to_upper(), &want); break;
        case 14: d += "to_lower()"; want = ref::folded(ms); BOUND(s.to_lower(), &want); break;
        case 15: d += sfmt("replace(s%zu,\"<>\")", j); want = ref::replace(ms, mtn, "<>", ci); BOUND(s.replace(tn, ST::string("<>"), cs), &want); break;
        case 16: d += "replace(no match)"; want = ref::replace(ms, "zzzq", "y", ci); BOUND(s.replace("zzzq", "y", cs, ST::assume_valid), &want); break;
        case 17: {
            d += "split(',')";
            if (dense(p, ref::split(ms, ",", static_cast<size_t>(-1), false).size())) break;
            BOUND(s.split(','), none); break;
        }
        case 18: {
            d += "tokenize(\" ,\")";
            if (dense(p, ref::tokenize(ms, " ,").size())) break;
            BOUND(s.tokenize(" ,"), none); break;
        }
        case 19: {
            const size_t mx = r.chance(1, 2) ? static_cast<size_t>(-1) : r.below(3);
            d += sfmt("split(s%zu)", j);
            if (dense(p, ref::split(ms, mtn, mx, ci).size())) break;
            BOUND(s.split(tn, mx, cs), none); break;
        }
        case 20: d += sfmt("s + s%zu", j); want = ms + mt; BOUND(s + t, &want); break;
        case 21: d += "s + \"lit\""; want = ms + "lit"; BOUND(s + "lit", &want); break;
        case 22: d += "to_utf16()"; BOUND(s.to_utf16(), none); break;
        case 23: d += "to_utf32()"; BOUND(s.to_utf32(), none); break;
        case 24: d += "to_wchar()"; BOUND(s.to_wchar(), none); break;
        case 25: d += "to_latin_1()"; BOUND(s.to_latin_1(), none); break;
        case 26: d += "to_std_string()"; BOUND(s.to_std_string(), &ms); break;
        case 27:
            switch (r.below(4)) {
            case 0: d += "to_std_u16string()"; BOUND(s.to_std_u16string(), none); break;
            case 1: d += "to_std_u32string()"; BOUND(s.to_std_u32string(), none); break;
            case 2: d += "to_std_wstring()"; BOUND(s.to_std_wstring(), none); break;
            default: d += "to_std_u8string()"; BOUND(s.to_std_u8string(), none); break;
            }
            break;
        case 28: d += "format(\"[{}]\", s)"; want = "[" + ms + "]"; BOUND(ST::format("[{}]", s), &want); break;
        default: d += "s + s"; want = ms + ms; BOUND(s + s, &want); break;
        }
    } catch (const ST::unicode_error &e) {
        d += sfmt(" rejected: %s", e.what());
        // (validating overloads may reject operands that are not valid UTF-8: reachable after a byte-wise cut, also the cut that made the short needle)
        if (ref::utf8_ok(ms) && ref::utf8_ok(mt) && ref::utf8_ok(mtn)) p.fail("unexpected-unicode_error", d);
        vrt::count("op.rejected_invalid_utf8");
    }
    return d;
}
#undef BOUND

// scale: a string is given a value of exactly the size it already holds (copy assignment / set from an lvalue - what refreshing a
// record or a page of text does), then OTHER big strings are cleared, reassigned or destroyed; the monitors run after every one
static void refresh_and_disturb(Pool &p, Rng &r, size_t i, std::vector<Snap> &before)
{
    for (int tries = 0; tries < 6 && p.shadow[i].size() < 4096; ++tries) { const size_t k = r.below(Pool::N); if (p.obj[k] && !p.moved_from[k] && p.shadow[k].size() >= 4096) i = k; }
    const size_t size = p.shadow[i].size();
    {
        ST::string &s = **p.obj[i];
        size_t twin = Pool::N;
        for (size_t k = 0; k < Pool::N; ++k) if (k != i && p.obj[k] && !p.moved_from[k] && p.shadow[k].size() == size) twin = k;
        std::string d;
        if (twin < Pool::N && r.chance(1, 2)) {
            if (r.chance(1, 2)) s = static_cast<const ST::string &>(**p.obj[twin]); else s.set(static_cast<const ST::string &>(**p.obj[twin]));
            p.shadow[i] = p.shadow[twin];
            d = sfmt("s%zu[%zu] = s%zu (the size it holds)", i, size, twin);
        } else {
            S v = size < 256 ? gen::bytes_over(r, size, "abcdefghijklmnopqrstuvwxyz  ,;") : big_value(r, size);
            SBox src(vrt::mk(v));
            switch (r.below(3)) {
            case 0: s = static_cast<const ST::string &>(*src); break;
            case 1: s.set(static_cast<const ST::string &>(*src)); break;
            default: { ST::char_buffer b = (*src).to_utf8(); s.set(static_cast<const ST::char_buffer &>(b), ST::assume_valid); break; }
            }
            p.shadow[i].swap(v);
            d = sfmt("s%zu[%zu] = a new value of the size it holds", i, size);
        }
        p.log(d);
        p.unchanged_except(before, static_cast<ssize_t>(i), -1, d);
        p.check_models(d);
        vrt::count("scale.assign_of_the_size_already_held");
        if (size + 1 >= 65536) vrt::count("scale.assign_of_the_size_already_held>=64KiB");
    }
    const unsigned rounds = 1 + static_cast<unsigned>(r.below(3));
    for (unsigned n = 0; n < rounds; ++n) {
        size_t k = Pool::N;
        for (int tries = 0; tries < 12; ++tries) { const size_t c = r.below(Pool::N); if (c != i && p.obj[c] && (k == Pool::N || p.shadow[c].size() > p.shadow[k].size())) k = c; }
        if (k == Pool::N) break;
        p.snapshot(before);
        std::string d;
        ST::string &o = **p.obj[k];
        switch (r.below(5)) {
        case 0: o.clear(); p.shadow[k].clear(); p.moved_from[k] = false; d = sfmt("s%zu.clear() (another string)", k); break;
        case 1: { size_t j = r.below(Pool::N); if (!p.obj[j] || p.moved_from[j]) j = i; o = static_cast<const ST::string &>(**p.obj[j]); p.shadow[k] = p.shadow[j]; p.moved_from[k] = false; d = sfmt("s%zu = s%zu (another string)", k, j); break; }
        case 2: { S v = pick_for(p, r); SBox src(vrt::mk(v)); o.set(static_cast<const ST::string &>(*src)); p.shadow[k].swap(v); p.moved_from[k] = false; d = sfmt("s%zu.set(new value[%zu]) (another string)", k, p.shadow[k].size()); break; }
        case 3: { o = static_cast<const ST::string &>(**p.obj[i]); p.shadow[k] = p.shadow[i]; p.moved_from[k] = false; d = sfmt("s%zu = s%zu (from the refreshed string)", k, i); break; }
        default: p.kill(k); d = sfmt("destroy s%zu (another string)", k); break;
        }
        p.log(d);
        p.unchanged_except(before, static_cast<ssize_t>(k), -1, d);
        p.check_models(d);
        vrt::count("scale.other_big_string_released_after_a_same_size_assignment");
    }
}

// One step of a history on the live slots i and j.  kind: 0..5 a const operation followed by the independence test on its results,
// 6..9 a mutator on slot i, 10..11 a const operation whose result the caller holds by reference, 12.. (scale) refresh and disturb.
// which >= 0 names the operation inside the kind (the scripted phases; the histories draw it); keep_source: the independence test
// modifies the results and never the source.
static void one_step(Pool &p, Rng &r, std::vector<Snap> &before, size_t i, size_t j, unsigned kind, int which = -1, bool keep_source = false)
{
    std::string d;
    ssize_t mut = -1, mut2 = -1;
    if (kind >= 12) {
        refresh_and_disturb(p, r, i, before);
        vrt::count("steps");
        return;
    }
    if (kind >= 10) {
        // ---- a const operation whose result the caller holds by reference
        d = bound_op(p, r, i, j, before, which);
        p.log(d);
        p.check_models(d);
        vrt::count("steps");
        return;
    }
    if (kind < 6) {
        // ---- a const operation, then the independence test on its results
        Produced out;
        try {
            d = const_op(p, r, i, j, out, which);
        } catch (const ST::unicode_error &e) {
            // validating overloads may reject operands that are not valid UTF-8 (reachable after a byte-wise cut)
            d = sfmt("s%zu const op rejected: %s", i, e.what());
            if (ref::utf8_ok(p.shadow[i]) && ref::utf8_ok(p.shadow[j])) p.fail("unexpected-unicode_error", d);
            vrt::count("op.rejected_invalid_utf8");
        }
        p.log(d);
        p.unchanged_except(before, -1, -1, d);
        for (size_t k = 0; k < out.results.size(); ++k) {
            const ST::string &res = **out.results[k];
            if (!Pool::same_bytes(res, out.expected[k]))
                p.fail("wrong-result", sfmt("%s result %zu %s", d.c_str(), k, Pool::show_at(res, out.expected[k]).c_str()));
            p.owns("result", *out.results[k], d);
            for (size_t m = 0; m < k; ++m)
                if (res.size() >= 16 && res.c_str() == (**out.results[m]).c_str()) p.fail("two-results-share-storage", d);
        }
        vrt::count("results", out.results.size());
        if (!out.results.empty()) {
            if (!keep_source && r.chance(1, 2)) {
                // overwrite or destroy the SOURCE first: results must keep their values
                if (r.chance(1, 2)) {
                    S nv = (p.scale_mode && p.shadow[i].size() > 256) ? big_value(r, p.shadow[i].size() + 3) : S(p.shadow[i].size() + 3, '#');
                    **p.obj[i] = vrt::mk(nv); p.shadow[i].swap(nv); p.log("overwrite source");
                }
                else { p.kill(i); p.log("destroy source"); }
                for (size_t k = 0; k < out.results.size(); ++k) {
                    const ST::string &res = **out.results[k];
                    if (!Pool::same_bytes(res, out.expected[k])) p.fail("result-changed-with-its-source", d);
                }
                vrt::count("independence.source_first");
            } else {
                // modify / reassign / destroy the RESULTS first: the source (and everything else) must not change
                for (auto *box : out.results) {
                    switch (r.below(3)) {
                    case 0: **box = "overwritten-result-value-0123456789"; break;
                    case 1: **box += "+"; break;
                    default: (**box).clear(); break;
                    }
                }
                p.unchanged_except(before, -1, -1, d + " + result overwrite");
                vrt::count("independence.result_first");
            }
        }
    } else {
        // ---- a mutator on slot i
        ST::string &s = **p.obj[i];
        const ST::string &t = **p.obj[j];
        const S mt = p.shadow[j];
        mut = static_cast<ssize_t>(i);
        unsigned m = which >= 0 ? static_cast<unsigned>(which) : static_cast<unsigned>(r.below(16));
        // scale: values grown by += stay below a cap (the step becomes an assignment instead)
        if (p.grow_cap && m == 4 && p.shadow[i].size() + mt.size() > p.grow_cap) m = 0;
        if (p.grow_cap && m == 5 && 2 * p.shadow[i].size() > p.grow_cap) m = 1;
        // a range inside the string's own storage: anywhere, or (scale) starting next to a multiple of a block size and often running to the end
        auto own_range = [&](size_t &k, size_t &n) {
            const size_t sz = p.shadow[i].size();
            if (p.scale_mode && sz > 256 && r.chance(2, 3)) { k = scale::offset_any(r, sz); n = r.chance(1, 2) ? sz - k : r.below(sz - k + 1); }
            else { k = r.below(sz + 1); n = r.below(sz - k + 1); }
        };
        switch (m) {
        case 0: s = t; p.shadow[i] = mt; d = sfmt("s%zu = s%zu", i, j); if (i == j) vrt::count("op.self_referential"); break;
        case 1: s.set(t); p.shadow[i] = mt; d = sfmt("s%zu.set(s%zu)", i, j); if (i == j) vrt::count("op.self_referential"); break;
        case 2: s = std::move(**p.obj[j]); d = sfmt("s%zu = move(s%zu)", i, j);
                if (i == j) { p.moved_from[i] = true; vrt::count("op.self_referential"); } else { p.shadow[i] = mt; p.moved_from[j] = true; mut2 = static_cast<ssize_t>(j); }
                vrt::count("op.move"); break;
        case 3: s.set(std::move(**p.obj[j])); d = sfmt("s%zu.set(move(s%zu))", i, j);
                if (i == j) p.moved_from[i] = true; else { p.shadow[i] = mt; p.moved_from[j] = true; mut2 = static_cast<ssize_t>(j); }
                vrt::count("op.move"); break;
        case 4: s += t; p.shadow[i] += mt; d = sfmt("s%zu += s%zu", i, j); if (i == j) vrt::count("op.self_referential"); break;
        case 5: s += s; p.shadow[i] += p.shadow[i]; d = sfmt("s%zu += s%zu (self)", i, i); vrt::count("op.self_referential"); break;
        case 6: s += "tail"; p.shadow[i] += "tail"; d = sfmt("s%zu += \"tail\"", i); break;
        case 7: s += 'c'; s += U'é'; p.shadow[i] += "c\xC3\xA9"; d = sfmt("s%zu += chars", i); break;
        case 8: s.clear(); p.shadow[i].clear(); d = sfmt("s%zu.clear()", i); break;
        case 9: { S v = pick_for(p, r); s = vrt::mk(v); p.shadow[i] = v; d = sfmt("s%zu = new value[%zu]", i, v.size()); break; }
        case 10: s = "c-string value that is long enough"; p.shadow[i] = "c-string value that is long enough"; d = sfmt("s%zu = cstr", i); break;
        case 11: {
            ST::char_buffer b = t.to_utf8();
            d = sfmt("s%zu = move(s%zu.to_utf8())", i, j);
            try { s = std::move(b); p.shadow[i] = mt; }
            catch (const ST::unicode_error &) { if (ref::utf8_ok(mt)) p.fail("unexpected-unicode_error", d); }
            break;
        }
        case 12: if (r.chance(1, 2)) s.set_validated(t.c_str(), t.size()); else s.set_validated(t.u8_str(), t.size()); p.shadow[i] = mt; d = sfmt("s%zu.set_validated(s%zu bytes)", i, j); if (i == j) vrt::count("op.self_referential"); break;
        case 13: s = s.substr(1); p.shadow[i] = ref::substr(p.shadow[i], 1, static_cast<size_t>(-1)); d = sfmt("s%zu = s%zu.substr(1)", i, i); vrt::count("op.self_referential"); break;
        case 14: {
            // assignment from a pointer / view into the string's own storage
            unsigned sub = static_cast<unsigned>(r.below(9));
            if (p.grow_cap && sub == 5 && 2 * p.shadow[i].size() > p.grow_cap) sub = 2;      // (5 appends the string's own tail)
            switch (sub) {
            case 6: case 7: case 8: {
                // ... the same through the repairing / checking modes: the source range is inside the target's own storage
                size_t k, n; own_range(k, n);
                const S src = p.shadow[i].substr(k, n);
                const bool subst = r.chance(2, 3), view = r.chance(1, 2);
                const ST::utf_validation_t m = subst ? ST::substitute_invalid : ST::check_validity;
                d = sfmt("s%zu.set(%s into s%zu at %zu,%zu; %s)", i, view ? "view" : "pointer", i, k, n, subst ? "substitute_invalid" : "check_validity");
                try {
                    if (view) s.set(s.view(k, n), m); else s.set(s.c_str() + k, n, m);
                    if (!subst && !ref::utf8_ok(src)) p.fail("accepted-invalid-self-range", d);
                    p.shadow[i] = subst ? ref::cleanup_utf8(src) : src;
                } catch (const ST::unicode_error &) { if (subst || ref::utf8_ok(src)) p.fail("unexpected-unicode_error", d); }
                break;
            }
            case 0: if (r.chance(1, 2)) { s.set(s); d = sfmt("s%zu.set(self)", i); }
                    else {   // a sub-range of its own bytes, through both spellings of set_validated
                        size_t k, n; own_range(k, n);
                        const S want = p.shadow[i].substr(k, n);
                        if (r.chance(1, 2)) s.set_validated(s.c_str() + k, n); else s.set_validated(s.u8_str() + k, n);
                        p.shadow[i] = want;
                        d = sfmt("s%zu.set_validated(own bytes %zu,%zu)", i, k, n);
                    }
                    break;
            case 1: { size_t z = p.shadow[i].find('\0'); S want = z == S::npos ? p.shadow[i] : p.shadow[i].substr(0, z);
                      d = sfmt("s%zu = s%zu.c_str()", i, i);
                      try { s = s.c_str(); p.shadow[i] = want; } catch (const ST::unicode_error &) { if (ref::utf8_ok(want)) p.fail("unexpected-unicode_error", d); }
                      break; }
            case 2: { size_t k, n; own_range(k, n); S want = p.shadow[i].substr(k, n);
                      d = sfmt("s%zu.set(s%zu.c_str()+%zu,%zu,assume_valid)", i, i, k, n);
                      s.set(s.c_str() + k, n, ST::assume_valid); p.shadow[i] = want; break; }
            case 3: { size_t k, n; own_range(k, n); S want = p.shadow[i].substr(k, n);
                      d = sfmt("s%zu = s%zu.view(%zu,%zu)", i, i, k, n);
                      try { s = s.view(k, n); p.shadow[i] = want; } catch (const ST::unicode_error &) { if (ref::utf8_ok(want)) p.fail("unexpected-unicode_error", d); }
                      break; }
            case 4: { size_t z = p.shadow[i].find('\0'); S want = z == S::npos ? p.shadow[i] : p.shadow[i].substr(0, z);
                      d = sfmt("s%zu = s%zu.u8_str()", i, i);
                      try { s = s.u8_str(); p.shadow[i] = want; } catch (const ST::unicode_error &) { if (ref::utf8_ok(want)) p.fail("unexpected-unicode_error", d); }
                      break; }
            default: { const size_t k = r.chance(1, 2) ? 0 : r.below(p.shadow[i].size() + 1);
                      size_t z = p.shadow[i].find('\0', k); S tail = z == S::npos ? p.shadow[i].substr(k) : p.shadow[i].substr(k, z - k);
                      d = sfmt("s%zu += s%zu.c_str()+%zu", i, i, k);
                      try { s += s.c_str() + k; p.shadow[i] += tail; } catch (const ST::unicode_error &) { if (ref::utf8_ok(tail)) p.fail("unexpected-unicode_error", d); }
                      break; }
            }
            vrt::count("op.self_referential");
            break;
        }
        default: { ST::string tmp(std::move(s)); p.moved_from[i] = true; d = sfmt("move-construct from s%zu, then destroy the new object", i); vrt::count("op.move"); break; }
        }
        p.log(d);
        p.unchanged_except(before, mut, mut2, d);
        vrt::count("mutators");
    }
    p.check_models(d);
    vrt::count("steps");
}

static void history(Rng &r, size_t steps, size_t scale_n = 0)
{
    Pool p;
    if (scale_n) {
        p.scale_mode = true;
        p.scale_n = scale_n;
        p.grow_cap = 2 * scale_n + 4096;
        p.sane_max = std::max<size_t>(100000, 2 * p.grow_cap);
    }
    for (size_t i = 0; i < Pool::N; ++i) if (r.chance(3, 4)) p.make(i, pick_for(p, r));
    p.make(0, S(20, 'q'));
    p.make(1, "short");
    std::vector<Snap> before;
    for (size_t step = 0; step < steps; ++step) {
        size_t i = r.below(Pool::N), j = r.below(Pool::N);
        if (!p.obj[i]) { p.make(i, pick_for(p, r)); p.log(sfmt("s%zu=new[%zu]", i, p.shadow[i].size())); p.check_models("create"); continue; }
        if (!p.obj[j]) j = i;
        p.snapshot(before);
        const unsigned kind = static_cast<unsigned>(r.below(p.scale_mode ? 14 : 12));
        one_step(p, r, before, i, j, kind);
    }
    vrt::distinct(vrt::fnv1a(p.history.data(), p.history.size(), 121));
    if (vrt::want_sample("history")) vrt::sample("history", p.history.substr(0, 600));
}

// ---- same_storage: within ONE case, 3..6 different values of IDENTICAL size that share their first and last 16 bytes and differ in
// between in ways that change the answers (other multi-byte characters, upper case, the needle earlier / later / absent, other
// separators, an ill-formed byte), each brought to the same addresses before the library sees it: (a) as the caller's bytes - one
// malloc'ed block (ending where the text ends, starting at every alignment 0..15) that is overwritten in place and handed to every
// route that builds a string from a pointer; (b) as a pool string - the previous one is destroyed and its successor built right
// away with the releases parked, so that the object and its heap block come back at the addresses of the dead ones (counted and
// required, not asserted).  Every value then goes through all 30 const operations in an order that differs from value to value
// (results modified first, so the value stays), with calls that throw in between, then through reference-bound results and mutators.
static S same_storage_middle(Rng &r, size_t len, unsigned flavour, const S &needle)
{
    // (pieces are concatenated, never overwritten: every value is well-formed unless the flavour says otherwise)
    const scale::Background bg = flavour == 1 ? scale::MIXED_UTF8 : flavour == 3 ? scale::TWO_BYTE_RUN : flavour == 4 ? scale::FOUR_BYTE_RUN : scale::ASCII_WORDS;
    static const char *const specials[] = {",", ";", "  ", "\t", "12345", "-7", "A", "QZ", "\xC4\xB0", "\xE2\x82\xAC"};
    S piece[4];
    size_t used = 0;
    const bool with_needle = !needle.empty() && !r.chance(1, 4);
    if (with_needle) { piece[0] = needle; used += needle.size(); }
    for (size_t k = 1; k < 4; ++k) { piece[k] = r.pick(specials); used += piece[k].size(); }
    if (flavour == 5) { used -= piece[3].size(); piece[3] = S(1, static_cast<char>(0x80 + r.below(0x40))); used += 1; }       // a continuation byte with nothing to continue
    if (used > len) return scale::utf8_background(r, len, bg);
    size_t gaps[5], left = len - used;
    for (size_t k = 0; k < 4; ++k) { gaps[k] = r.chance(1, 6) ? 0 : r.below(left + 1); left -= gaps[k]; }
    gaps[4] = left;
    size_t order[4] = {0, 1, 2, 3};
    for (size_t a = 3; a > 0; --a) std::swap(order[a], order[r.below(a + 1)]);
    S v;
    v.reserve(len);
    for (size_t k = 0; k < 4; ++k) {
        S g = scale::utf8_background(r, gaps[k], bg);
        if (flavour == 2) for (char &c : g) if (c >= 'a' && c <= 'z' && r.chance(1, 3)) c = static_cast<char>(c - 32);
        v += g;
        v += piece[order[k]];
    }
    v += scale::utf8_background(r, gaps[4], bg);
    return v;
}

static void same_storage_case(uint64_t idx, Rng &r)
{
    static const size_t sizes[] = {20, 40, 64, 100, 256, 300, 1024, 1500, 4096, 5000, 20000, 66000};
    const size_t nsizes = sizeof(sizes) / sizeof(sizes[0]);
    const size_t n = sizes[idx % nsizes], align = (idx / nsizes) % 16;
    Pool p;
    const size_t N = Pool::N;
    p.sane_max = std::max<size_t>(100000, 4 * n);
    for (size_t i = 0; i < N; ++i) if (r.chance(1, 2)) p.make(i, pick_value(r));
    const size_t X = r.below(4), J = 4 + r.below(4);           // X: the string under test (a neighbour inside a block in some pools); J: the needle
    const S needle = "q" + gen::bytes_over(r, 1 + r.below(4), "jvz");
    p.make(J, needle);
    // the values
    const size_t K = 3 + r.below(4), edge = n >= 48 ? 16 : n / 3;
    const S head = gen::bytes_over(r, edge, "abcdefghijklmnoprstuwxy"), tail = gen::bytes_over(r, edge, "abcdefghijklmnoprstuwxy");
    std::vector<S> values;
    for (size_t k = 0; k < K; ++k) {
        const unsigned flavour = static_cast<unsigned>((k + r.below(2)) % 6);
        values.push_back(head + same_storage_middle(r, n - 2 * edge, flavour, n >= 40 ? needle : S()) + tail);
    }
    // (a) the caller's storage: one block for all values, NUL behind the text
    char *block = static_cast<char *>(malloc(align + n + 1));
    if (!block) { fprintf(stderr, "vrt: out of memory\n"); _exit(98); }
    memset(block, 0x5A, align);
    if (align == 8) SP::poison(block, align);
    char *const text = block + align;
    std::vector<Snap> before;
    S ctx = sfmt("same_storage: %zu values of %zu bytes, the caller's text %zu bytes into its block", K, n, align);
    p.log(ctx);
    for (size_t k = 0; k < K; ++k) {
        const S &val = values[k];
        const bool valid = ref::utf8_ok(val), cstr = val.find('\0') == S::npos;
        memcpy(text, val.data(), n);                         // in place: same address, same length, same first and last bytes
        text[n] = 0;
        vrt::cur_printf("value %zu of %zu: %s\n", k + 1, K, scale::brief(val).c_str());
        // ---- (a) every route from a pointer, in another order for every value; a call that throws in between
        {
            p.snapshot(before);
            Produced out;
            SBox scratch1(vrt::mk(values[(k + 1) % K])), scratch2(vrt::mk("previously: ")), scratch3(vrt::mk(values[(k + K - 1) % K]));
            unsigned order[10] = {0, 1, 2, 3, 4, 5, 6, 7, 8, 9};
            for (size_t a = 9; a > 0; --a) std::swap(order[a], order[r.below(a + 1)]);
            const S d = sfmt("strings from the caller's text (value %zu)", k + 1);
            for (unsigned which : order) {
                try {
                    switch (which) {
                    case 0: out.add(ST::string(text, n, ST::assume_valid), val); break;
                    case 1: out.add(ST::string::from_validated(text, n), val); break;
                    case 2: out.add(ST::string::from_utf8(text, n, ST::check_validity), val); break;              // (throws when the value is ill-formed)
                    case 3: if (valid && cstr) out.add(ST::string(text), val); break;
                    case 4: (*scratch1).set_validated(text, n); out.add(ST::string(*scratch1), val); break;
                    case 5: if (valid && cstr) { *scratch3 = text; out.add(ST::string(*scratch3), val); } break;
                    case 6: if (valid && cstr) { *scratch2 += text; out.add(ST::string(*scratch2), "previously: " + val); } break;
                    case 7: { S want; for (unsigned char c : val) ref::enc_utf8(want, c); out.add(ST::string::from_latin_1(text, n), want); break; }
                    case 8: out.add(ST::string::from_utf8(text, n, ST::substitute_invalid), valid ? val : ref::cleanup_utf8(val)); break;
                    default: {
                        // the same text with one ill-formed byte in the middle, at the same address: rejected; then the text is put back
                        const char keep = text[n / 2];
                        text[n / 2] = static_cast<char>(0xFF);
                        try { ST::string bad(text, n, ST::check_validity); } catch (const ST::unicode_error &) { vrt::count("same_storage.calls_that_threw"); }
                        text[n / 2] = keep;
                        break;
                    }
                    }
                } catch (const ST::unicode_error &e) {
                    if (valid) p.fail("unexpected-unicode_error", sfmt("%s route %u: %s", d.c_str(), which, e.what()));
                    vrt::count("same_storage.calls_that_threw");
                }
            }
            p.unchanged_except(before, -1, -1, d);
            for (size_t m = 0; m < out.results.size(); ++m) {
                const ST::string &res = **out.results[m];
                if (!Pool::same_bytes(res, out.expected[m])) p.fail("wrong-result", sfmt("%s result %zu %s", d.c_str(), m, Pool::show_at(res, out.expected[m]).c_str()));
                p.owns("result", *out.results[m], d);
                for (size_t q = 0; q < m; ++q)
                    if (res.size() >= 16 && res.c_str() == (**out.results[q]).c_str()) p.fail("two-results-share-storage", d);
            }
            vrt::count("results", out.results.size());
            vrt::count("same_storage.strings_built_from_the_callers_text", out.results.size());
            p.check_models(d);
            vrt::count("steps");
        }
        // ---- (b) the successor of the string under test, at the same addresses
        {
            const void *old_obj = nullptr, *old_data = nullptr;
            if (p.obj[X]) {
                old_obj = p.obj[X]->p;
                old_data = (**p.obj[X]).c_str();
                g_lead_next = static_cast<int>(reinterpret_cast<uintptr_t>(old_obj) % 16);
                vrt::placement_force_parks() = 4;
            }
            p.make(X, val);
            vrt::placement_force_parks() = 0;
            g_lead_next = -1;
            if (old_obj) {
                vrt::count("same_storage.successors");
                if (p.obj[X]->p == old_obj) vrt::count("same_storage.object_at_the_address_of_its_predecessor");
                if ((**p.obj[X]).c_str() == old_data) vrt::count("same_storage.heap_block_at_the_address_of_its_predecessor");
            }
            p.log(sfmt("s%zu=value %zu", X, k + 1));
            p.check_models("same_storage build");
            vrt::count("same_storage.values");
        }
        // every const operation once, in another order for every value; the results are modified, the value stays
        unsigned order[30];
        for (unsigned a = 0; a < 30; ++a) order[a] = a;
        for (size_t a = 29; a > 0; --a) std::swap(order[a], order[r.below(a + 1)]);
        for (unsigned which : order) {
            if (!p.obj[X]) break;
            const size_t j = (r.chance(2, 3) || !p.obj[(X + 1 + which) % N]) ? J : (X + 1 + which) % N;
            p.snapshot(before);
            one_step(p, r, before, X, p.obj[j] ? j : X, 0, static_cast<int>(which), true);
        }
        // results held by reference (the source is modified after the first look), mutators
        for (unsigned a = 0; a < 3 && p.obj[X]; ++a) {
            p.snapshot(before);
            one_step(p, r, before, X, p.obj[J] ? J : X, 10, static_cast<int>(r.below(30)));
            if (!p.obj[X] || p.moved_from[X] || p.shadow[X] != val) { g_lead_next = p.obj[X] ? static_cast<int>(reinterpret_cast<uintptr_t>(p.obj[X]->p) % 16) : -1; vrt::placement_force_parks() = 4; p.make(X, val); vrt::placement_force_parks() = 0; g_lead_next = -1; }
        }
        for (unsigned a = 0; a < 3 && p.obj[X]; ++a) {
            const size_t j = r.below(N);
            p.snapshot(before);
            one_step(p, r, before, X, p.obj[j] ? j : X, 6);
        }
        if (!p.obj[J] || p.moved_from[J] || p.shadow[J] != needle) p.make(J, needle);
        if (!p.obj[X] || p.moved_from[X] || p.shadow[X].size() != n) p.make(X, val);          // (the next value's predecessor has its size)
    }
    if (align == 8) SP::unpoison(block, align);
    free(block);
    vrt::count("same_storage.cases");
    vrt::distinct(vrt::fnv1a(p.history.data(), p.history.size(), vrt::fnv_u64(idx, 122)));
    if (vrt::want_sample("same_storage") && idx > 30) vrt::sample("same_storage", p.history.substr(0, 500));
}

// ---- soak: more than 70000 consecutive steps on ONE pool inside ONE case (one process, one thread) with values above the small
// limit (64..300 bytes), so that state a library might keep between calls - a counter that enables a path after N calls or wraps
// after 2^16, a memo of the last argument or result - goes through its whole cycle.  The case has a family of steps (const
// operations 0..15, const operations 16..29, mutators, reference-bound results); runs of 64..300 steps with the same operation on the
// same unchanged strings (plain ASCII, the needle absent) are followed directly by the same operation on a value that differs only
// at its very end (non-ASCII in the last bytes, or the needle as the last bytes).
static void soak_case(uint64_t idx, Rng &r)
{
    const unsigned family = static_cast<unsigned>(idx % 4);
    static const char *const fam[] = {"const operations 0..15", "const operations 16..29", "mutators", "results held by reference"};
    const size_t target = vrt::opt().scale < 1.0 ? 8000 : 72000, N = Pool::N;          // (a scaled-down pass under an emulator runs a short one)
    Pool p;
    p.soak_mode = true;
    p.grow_cap = 4096;
    for (size_t i = 0; i < N; ++i) if (r.chance(2, 3)) p.make(i, pick_for(p, r));
    std::vector<Snap> before;
    size_t done = 0, runs = 0;
    auto step = [&](size_t i, size_t j, unsigned kind, int which, bool keep) {
        p.snapshot(before);
        one_step(p, r, before, i, p.obj[j] ? j : i, kind, which, keep);
        ++done;
    };
    while (done < target) {
        const size_t run = 64 + r.below(237);
        const size_t i = r.below(N), j = (i + 1 + r.below(N - 1)) % N;
        if ((runs & 7) == 0) vrt::cur_rewind();                  // (the recorder keeps the last runs only)
        // boring arguments: plain ASCII, the needle (4..40 bytes, carrying a letter the text does not have) is absent
        const S plain = gen::bytes_over(r, 64 + r.below(237), "abcdefghijklmnop  ,");
        const S needle = gen::bytes_over(r, 3 + r.below(37), "abcdefgh") + "Y";
        p.make(i, plain);
        p.make(j, needle);
        unsigned kind;
        int which;
        switch (family) {
        case 0: kind = 0; which = static_cast<int>(r.below(16)); break;
        case 1: kind = 0; which = 16 + static_cast<int>(r.below(14)); break;
        case 2: kind = 6; which = static_cast<int>(r.below(16)); break;
        default: kind = 10; which = static_cast<int>(r.below(30)); break;
        }
        for (size_t k = 0; k < run; ++k) {
            if (!p.obj[i] || (kind == 10 && (p.moved_from[i] || p.shadow[i] != plain))) p.make(i, plain);       // (a reference-bound result's source is modified by the probe)
            if (kind == 6 && (!p.obj[j] || p.moved_from[j])) p.make(j, needle);
            step(i, j, kind, which, true);
        }
        // the interesting one: the same operation on a value that differs from the boring one only at its end
        S last = plain;
        switch (r.below(3)) {
        case 0: { static const char *const tails[] = {"\xC3\xA9", "\xE2\x82\xAC", "\xF0\x9F\x98\x80", "\xC3\x89\xE2\x82\xAC", "\xF0\x9F\x98\x80\xE2\x82\xAC"}; const S t = r.pick(tails); last.replace(last.size() - t.size(), t.size(), t); break; }
        case 1: last.replace(last.size() - needle.size(), needle.size(), needle); break;
        default: last[last.size() - 1 - r.below(7)] = 'Q'; break;
        }
        p.make(i, last);
        if (!p.obj[j] || p.moved_from[j]) p.make(j, needle);
        step(i, j, kind, which, true);
        vrt::count("soak.runs_of_64_or_more_equal_steps_then_a_different_one");
        ++runs;
        // (something else in between)
        for (size_t k = r.below(4); k > 0; --k) {
            const size_t a = r.below(N), b = r.below(N);
            if (!p.obj[a]) { p.make(a, pick_for(p, r)); continue; }
            step(a, b, static_cast<unsigned>(r.below(12)), -1, false);
        }
    }
    vrt::count("soak.steps", done);
    if (done >= 70000) vrt::count("soak.cases_with_70000_or_more_consecutive_steps");
    vrt::distinct(vrt::fnv1a(p.history.data(), p.history.size(), vrt::fnv_u64(idx, 123)));
    if (vrt::want_sample("soak", 4)) vrt::sample("soak", sfmt("%s: %zu consecutive steps on one pool in one case, %zu runs of 64..300 equal steps each followed by one on a value that differs at its end", fam[family], done, runs), 4);
}

static void body()
{
    vrt::require("steps", 100000);
    vrt::require("results", 50000);
    vrt::require("mutators", 20000);
    vrt::require("independence.source_first", 10000);
    vrt::require("independence.result_first", 10000);
    vrt::require("op.result_equals_source", 5000);
    vrt::require("op.self_referential", 5000);
    vrt::require("op.move", 2000);
    vrt::require("moved_from.adopted", 1000);
    vrt::require("bound.results", 10000);
    vrt::require("bound.to_utf8", 1000);
    vrt::require("bound.const_lvalue_reference", 2000);
    vrt::require("bound.forwarding_reference", 2000);
    vrt::require("independence.bound_source_first", 2000);
    vrt::require("independence.bound_result_first", 1000);
    vrt::note("results are also held the way `const auto &b = s.op();` / `auto &&b = s.op();` holds them (every operation that returns a string, a buffer, a std:: string or a vector of strings): "
              "the object and the storage the reference designates must not overlap any live string, and must keep place, size and bytes while the source is overwritten, appended to, cleared, moved from or destroyed");
    const size_t steps = vrt::thorough() ? 120 : 60;
    vrt::phase("histories", vrt::tier_count(40000, 300000), [&](uint64_t, Rng &r) { history(r, steps); });

    // objects that are not 16-byte aligned, neighbours inside one block (all phases)
    vrt::require("placement.objects_at_8_mod_16", 100000);
    vrt::require("placement.objects_16_byte_aligned", 100000);
    vrt::note("half of the stand-alone strings (pool objects, results, needles, temporaries the harness boxes) live at an address 8 mod 16 (8 bytes into a block that ends where the object ends); "
              "a quarter of the pools keep their first 2..4 slots inside one block laid out as struct { int id; ST::string a; ST::string b; } (two of them), ST::string arr[3] or std::pair<int, ST::string> arr[2]");

    vrt::require("same_storage.cases", 192);
    vrt::require("same_storage.values", 600);
    vrt::require("same_storage.strings_built_from_the_callers_text", 3000);
    vrt::require("same_storage.calls_that_threw", 300);
    vrt::require("same_storage.object_at_the_address_of_its_predecessor", 200);
    vrt::require("same_storage.heap_block_at_the_address_of_its_predecessor", 200);
    vrt::phase("same_storage", vrt::tier_count(16 * 12, 400 * 12), [&](uint64_t idx, Rng &r) { same_storage_case(idx, r); });

    vrt::require("soak.cases_with_70000_or_more_consecutive_steps", 16);
    vrt::require("soak.runs_of_64_or_more_equal_steps_then_a_different_one", 1000);
    vrt::phase("soak", vrt::thorough() ? 64 : 16, [&](uint64_t idx, Rng &r) { soak_case(idx, r); });

    // scale: the same histories (same operations, same monitors) over pools that mix the small size classes with values of
    // q * B (+- a few) bytes for the block sizes B of rt/gen_scale.h, 4 KiB .. 1 MiB and a few up to 4 MiB: numeric arguments next to
    // multiples of the block sizes, strings refreshed with a value of exactly the size they hold and then other big strings cleared /
    // reassigned / destroyed, values grown by += up to twice the main length
    {
        std::vector<size_t> cells, bigger;
        for (size_t q = 1; q <= 8; ++q)
            for (size_t B : scale::blocks()) {
                const size_t n = q * B;
                if (n >= 4000 && n <= (static_cast<size_t>(1) << 20)) cells.push_back(n);
                else if (n > (static_cast<size_t>(1) << 20) && n <= (static_cast<size_t>(4) << 20)) bigger.push_back(n);
            }
        for (size_t k = 0; k < bigger.size(); ++k) cells.insert(cells.begin() + static_cast<ssize_t>((k * 7 + 3) % cells.size()), bigger[k]);
        const size_t budget = static_cast<size_t>(1) << 25;
        vrt::require("scale.cases", 64);
        vrt::require("scale.big_values", 500);
        vrt::require("scale.assign_of_the_size_already_held", 100);
        vrt::require("scale.assign_of_the_size_already_held>=64KiB", 20);
        vrt::require("scale.other_big_string_released_after_a_same_size_assignment", 100);
        vrt::require("scale.main_length>=64KiB", 20);
        vrt::note(sfmt("scale phase: %zu main lengths q x B with q = 1..8 (4000 bytes .. 4 MiB), pools of 12 strings mixing them with the small size classes", cells.size()));
        vrt::phase("scale", vrt::tier_count(3 * cells.size(), 60 * cells.size()), [&](uint64_t idx, Rng &r) {
            const size_t n = cells[idx % cells.size()];
            const size_t nsteps = std::max<size_t>(12, std::min<size_t>(steps, budget / n));
            history(r, nsteps, n);
            vrt::count("scale.cases");
            if (n >= 65535) vrt::count("scale.main_length>=64KiB");
            if (n >= (1u << 20)) vrt::count("scale.main_length>=1MiB");
            if (vrt::want_sample("scale") && n >= 65536) vrt::sample("scale", sfmt("main length %zu bytes, %zu steps over a pool of 12 strings (values of %zu +- a few, %zu, another boundary length, the sizes of live strings, and the small classes)", n, nsteps, n, n / 2));
        });
    }
}

VRT_MAIN(body)
