// C04 - ST::string has value semantics: reads never mutate, results never
// alias.  A pool of strings (each in a heap block of exactly sizeof(ST::string)
// bytes) is driven through random histories; before every step every live
// string is snapshotted (bytes, size, data pointer), after it only the object
// the step was applied to as a mutator may differ.  Every returned string or
// buffer must own its storage; then one of {source, result} is overwritten or
// destroyed first and the other is re-compared.
#include "vrt.h"
#include "vrt_alloc.h"
#include "vrt_st.h"
#include "ref_text.h"
#include "ref_unicode.h"
#include "gen_text.h"
#include <sstream>

using vrt::Rng;
using vrt::sfmt;
namespace va = vrt::alloc;
typedef std::string S;

static std::string show(const S &s) { return vrt::hex(s.data(), s.size(), 1, 40); }

struct Snap {
    const char *data;
    size_t size;
    S bytes;
};

struct Pool {
    static const size_t N = 12;
    vrt::Box<ST::string> *obj[N] = {};
    S shadow[N];
    bool moved_from[N] = {};
    S history;

    ~Pool() { for (size_t i = 0; i < N; ++i) kill(i); }
    void kill(size_t i) { delete obj[i]; obj[i] = nullptr; moved_from[i] = false; }
    void make(size_t i, const S &v)
    {
        kill(i);
        obj[i] = new vrt::Box<ST::string>(vrt::mk(v));
        shadow[i] = v;
    }
    void fail(const char *what, const std::string &detail)
    {
        vrt::violation(sfmt("C04:%s", what), sfmt("%s | history: %s", detail.c_str(), history.c_str()));
    }
    void log(const std::string &d)
    {
        if (history.size() < 1400) { history += d; history += "; "; }
        vrt::cur_printf("%s\n", d.c_str());
    }

    // storage of `s` (living in `box`) must be its own: in-object when short, otherwise one
    // registry block that no pool object and no other given object points at
    void owns(const char *what, const vrt::Box<ST::string> &box, const std::string &ctx, ssize_t except_slot = -1)
    {
        const ST::string &s = *box;
        const char *d = s.c_str();
        if (d[s.size()] != 0) fail("no-terminator", sfmt("%s %s", what, ctx.c_str()));
        if (s.size() < 16) {
            if (!box.inside(d)) fail("short-result-not-in-object", sfmt("%s size=%zu %s", what, s.size(), ctx.c_str()));
            return;
        }
        va::Block *b = va::find(d);
        if (!b || b->size != s.size() + 1) { fail("result-storage-not-an-own-block", sfmt("%s size=%zu %s", what, s.size(), ctx.c_str())); return; }
        for (size_t i = 0; i < N; ++i)
            if (obj[i] && static_cast<ssize_t>(i) != except_slot && (**obj[i]).c_str() == d)
                fail("result-shares-storage-with-a-live-string", sfmt("%s aliases slot %zu %s", what, i, ctx.c_str()));
    }

    std::vector<Snap> snapshot()
    {
        std::vector<Snap> v(N);
        for (size_t i = 0; i < N; ++i)
            if (obj[i]) { const ST::string &s = **obj[i]; v[i] = Snap{s.c_str(), s.size(), S(s.c_str(), s.size())}; }
        return v;
    }
    // after a step: everything except `mutated` must be bit-identical (bytes, size, data pointer)
    void unchanged_except(const std::vector<Snap> &before, ssize_t mutated, ssize_t mutated2, const std::string &op)
    {
        for (size_t i = 0; i < N; ++i) {
            if (!obj[i] || static_cast<ssize_t>(i) == mutated || static_cast<ssize_t>(i) == mutated2 || !before[i].data) continue;
            const ST::string &s = **obj[i];
            if (s.size() != before[i].size || S(s.c_str(), s.size()) != before[i].bytes)
                fail("bystander-value-changed", sfmt("slot %zu was %s, is %s after %s", i, show(before[i].bytes).c_str(), show(S(s.c_str(), s.size())).c_str(), op.c_str()));
            else if (s.c_str() != before[i].data)
                fail("data-pointer-changed-by-a-read", sfmt("slot %zu after %s", i, op.c_str()));
        }
        vrt::evals();
    }
    // every live string equals its model and owns its storage
    void check_models(const std::string &op)
    {
        for (size_t i = 0; i < N; ++i) {
            if (!obj[i]) continue;
            const ST::string &s = **obj[i];
            if (moved_from[i]) {
                if (s.size() > 100000) { fail("moved-from:absurd-size", op); obj[i] = nullptr; continue; }
                if (s.size() < 16 && !obj[i]->inside(s.c_str())) { fail("moved-from:points-into-another-object", sfmt("slot %zu after %s", i, op.c_str())); continue; }
                if (s.size() >= 16 && !va::find(s.c_str())) { fail("moved-from:dangling", sfmt("slot %zu after %s", i, op.c_str())); continue; }
                shadow[i].assign(s.c_str(), s.size());
                moved_from[i] = false;
                vrt::count("moved_from.adopted");
            }
            if (S(s.c_str(), s.size()) != shadow[i])
                fail("value-differs-from-model", sfmt("slot %zu is %s, model %s after %s", i, show(S(s.c_str(), s.size())).c_str(), show(shadow[i]).c_str(), op.c_str()));
            owns("pool string", *obj[i], sfmt("slot %zu after %s", i, op.c_str()), static_cast<ssize_t>(i));
        }
        // exclusive ownership inside the pool
        for (size_t i = 0; i < N; ++i)
            for (size_t j = i + 1; j < N; ++j)
                if (obj[i] && obj[j] && (**obj[i]).size() >= 16 && (**obj[i]).c_str() == (**obj[j]).c_str())
                    fail("two-strings-share-storage", sfmt("slots %zu and %zu after %s", i, j, op.c_str()));
        va::check_pairing("value");
    }
};

static S pick_value(Rng &r)
{
    static const size_t lens[] = {0, 1, 15, 16, 17, 40, 300, 3, 14, 18, 31, 32};
    size_t n = r.chance(1, 4) ? r.below(40) : r.pick(lens);
    S s;
    switch (r.below(4)) {
    case 0: s = gen::bytes_over(r, n, "ab ,"); break;
    case 1: while (s.size() < n) ref::enc_utf8(s, r.chance(1, 2) ? 0xE9 : 0x1F600); break;
    case 2: s = gen::bytes_over(r, n, S("aA\0 x", 5)); break;
    default: s = gen::bytes_over(r, n, "abcdefghijklmnopqrstuvwxyz  ,;"); break;
    }
    return s;
}

// A const operation on slot i; returns the results as boxed strings with their expected values
struct Produced {
    std::vector<vrt::Box<ST::string> *> results;
    std::vector<S> expected;
    ~Produced() { for (auto *p : results) delete p; }
    void add(ST::string &&s, const S &want) { results.push_back(new vrt::Box<ST::string>(std::move(s))); expected.push_back(want); }
};

static std::string const_op(Pool &p, Rng &r, size_t i, size_t j, Produced &out)
{
    const ST::string &s = **p.obj[i];
    const ST::string &t = **p.obj[j];
    const S &ms = p.shadow[i], &mt = p.shadow[j];
    const bool ci = r.chance(1, 3);
    ST::case_sensitivity_t cs = ci ? ST::case_insensitive : ST::case_sensitive;
    std::string d;
    switch (r.below(30)) {
    case 0: out.add(s.substr(0), ms); d = "substr(whole)"; vrt::count("op.result_equals_source"); break;
    case 1: { long st = r.range(-5, 20); size_t c = r.below(40); out.add(s.substr(st, c), ref::substr(ms, st, c)); d = sfmt("substr(%ld,%zu)", st, c); break; }
    case 2: { size_t n = r.below(ms.size() + 3); out.add(s.left(n), ref::left(ms, n)); d = sfmt("left(%zu)", n); break; }
    case 3: { size_t n = r.below(ms.size() + 3); out.add(s.right(n), ref::right(ms, n)); d = sfmt("right(%zu)", n); break; }
    case 4: out.add(s.trim(), ref::trim(ms, " \t\r\n")); d = "trim"; if (ref::trim(ms, " \t\r\n") == ms) vrt::count("op.result_equals_source"); break;
    case 5: out.add(s.trim_left("a "), ref::trim_left(ms, "a ")); out.add(s.trim_right(" ,"), ref::trim_right(ms, " ,")); d = "trim_left/right"; break;
    case 6: out.add(s.before_first(t, cs), ref::before_first(ms, mt, ci)); out.add(s.after_first(t, cs), ref::after_first(ms, mt, ci)); d = sfmt("before/after_first(s%zu)", j); break;
    case 7: out.add(s.before_last(t, cs), ref::before_last(ms, mt, ci)); out.add(s.after_last(t, cs), ref::after_last(ms, mt, ci)); d = sfmt("before/after_last(s%zu)", j); break;
    case 8: out.add(s.before_first(','), ref::before_first(ms, ",", false)); out.add(s.after_last(','), ref::after_last(ms, ",", false)); d = "before_first/after_last(',')"; break;
    case 9: out.add(s.to_upper(), ref::uppered(ms)); out.add(s.to_lower(), ref::folded(ms)); d = "to_upper/lower"; break;
    case 10: case 11: {
        // replace: the string overload re-validates its result (DESIGN 4/C09)
        S want = ref::replace(ms, mt, "<>", ci);
        try { out.add(s.replace(t, ST::string("<>"), cs), want); } catch (const ST::unicode_error &) { if (ref::utf8_ok(want)) p.fail("replace-threw", "valid result rejected"); }
        d = sfmt("replace(s%zu,\"<>\")", j);
        if (want == ms) vrt::count("op.result_equals_source");
        break;
    }
    case 12: {
        S want = ref::replace(ms, ms, ms, false);
        try { out.add(s.replace(s, s), want); } catch (const ST::unicode_error &) { if (ref::utf8_ok(want)) p.fail("replace-threw", "valid result rejected"); }
        d = "replace(self,self)"; vrt::count("op.self_referential");
        break;
    }
    case 13: {
        size_t mx = r.chance(1, 2) ? static_cast<size_t>(-1) : r.below(3);
        std::vector<ST::string> v = s.split(t, mx, cs);
        std::vector<S> want = ref::split(ms, mt, mx, ci);
        d = sfmt("split(s%zu)", j);
        if (v.size() != want.size()) p.fail("split-piece-count", d);
        for (size_t k = 0; k < v.size() && k < want.size(); ++k) out.add(std::move(v[k]), want[k]);
        break;
    }
    case 14: {
        std::vector<ST::string> v = s.split(',');
        std::vector<S> want = ref::split(ms, ",", static_cast<size_t>(-1), false);
        if (v.size() != want.size()) p.fail("split-piece-count", d);
        for (size_t k = 0; k < v.size() && k < want.size(); ++k) out.add(std::move(v[k]), want[k]);
        d = "split(',')";
        break;
    }
    case 15: {
        std::vector<ST::string> v = s.tokenize(" ,");
        std::vector<S> want = ref::tokenize(ms, " ,");
        if (v.size() != want.size()) p.fail("tokenize-count", d);
        for (size_t k = 0; k < v.size() && k < want.size(); ++k) out.add(std::move(v[k]), want[k]);
        d = "tokenize";
        break;
    }
    case 16: out.add(s + t, ms + mt); out.add(t + s, mt + ms); d = sfmt("s + s%zu", j); break;
    case 17: out.add(s + s, ms + ms); d = "s + s"; vrt::count("op.self_referential"); break;
    case 18: out.add(s + "lit", ms + "lit"); out.add("lit" + s, "lit" + ms); out.add(s + U'€', ms + "\xE2\x82\xAC"); out.add('x' + s, "x" + ms); d = "s + literal/char"; break;
    case 19: { ST::string c(s); out.add(std::move(c), ms); d = "copy-construct"; vrt::count("op.result_equals_source"); break; }
    case 20: {
        ST::char_buffer b = s.to_utf8();
        if (b.size() != ms.size() || S(b.data(), b.size()) != ms) p.fail("to_utf8-value", "");
        if (b.size() >= 16 && b.data() == s.c_str()) p.fail("to_utf8-aliases-source", "");
        b.data()[0] = b.size() ? '!' : 0;            // writing into the returned buffer must not reach the source
        out.add(ST::string::from_validated(std::move(b)), (ms.empty() ? S() : "!" + ms.substr(1)));
        d = "to_utf8 (then write into the buffer)";
        break;
    }
    case 21: {
        // conversions only read; results are independent buffers
        ST::utf16_buffer a = s.to_utf16(); ST::utf32_buffer b = s.to_utf32(); ST::wchar_buffer c = s.to_wchar(); ST::char_buffer l = s.to_latin_1();
        S x = s.to_std_string();
        std::u16string y = s.to_std_u16string();
        (void)a; (void)b; (void)c; (void)l;
        if (x != ms) p.fail("to_std_string-value", "");
        d = "to_utf16/32/wchar/latin_1/std_string";
        break;
    }
    case 22: {
        volatile unsigned long sink = static_cast<unsigned long>(s.find(t, cs)) + static_cast<unsigned long>(s.find_last(t, cs)) + s.contains(t) + s.starts_with(t, cs) + s.ends_with(t, cs) +
                                      static_cast<unsigned long>(s.compare(t, cs)) + static_cast<unsigned long>(s.compare_n(t, 3)) + ST::hash()(s) + ST::hash_i()(s) + (s == t) + (s < t) +
                                      static_cast<unsigned long>(s.to_int()) + (s.to_double() > 0 ? 1u : 0u);
        (void)sink;
        d = sfmt("find/contains/compare/hash/to_int with s%zu", j);
        break;
    }
    case 23: {
        try { out.add(ST::format("[{}|{>5}|{}]", s, t, s), "[" + ms + "|" + S(mt.size() < 5 ? 5 - mt.size() : 0, ' ') + mt + "|" + ms + "]"); }
        catch (const ST::unicode_error &) { }
        d = sfmt("format with s and s%zu", j);
        break;
    }
    case 24: {
        std::ostringstream os;
        os << s;
        if (os.str() != ms) p.fail("ostream-insert-value", "");
        ST::string_stream ss;
        ss << s << t;
        if (S(ss.raw_buffer(), ss.size()) != ms + mt) p.fail("string_stream-insert-value", "");
        d = "stream insertion";
        break;
    }
    case 25: {
        // iterate / index / view
        size_t n = 0;
        for (auto it = s.begin(); it != s.end(); ++it) n += static_cast<unsigned char>(*it) != 0x100;
        for (auto it = s.rbegin(); it != s.rend(); ++it) ++n;
        std::string_view v = s.view();
        if (n != 2 * ms.size() || S(v) != ms || (ms.size() && (s.front() != ms.front() || s.back() != ms.back()))) p.fail("iteration-value", "");
        d = "iterate/view";
        break;
    }
    case 26: out.add(ST::string::fill(r.below(20), 'z'), S()); out.expected.back() = S((**out.results.back()).size(), 'z'); d = "fill"; break;
    case 27: { S want; for (unsigned char c : ms) ref::enc_utf8(want, c); out.add(ST::string::from_latin_1(s.to_utf8()), want); d = "from_latin_1(to_utf8)"; break; }
    case 28: out.add(ST::string::from_std_string(s.to_std_string(), ST::assume_valid), ms); out.add(ST::string(s.c_str(), s.size(), ST::assume_valid), ms); d = "rebuild from bytes"; vrt::count("op.result_equals_source"); break;
    default: {
        // a pattern that (almost always) does not occur: the result equals the source; the expectation comes from the reference model
        // all the same (random text contained "zzzq" once in 14 M steps of a thorough run and the fixed expectation was a false alarm)
        const S want = ref::replace(ms, "zzzq", "y", ci);
        out.add(s.replace("zzzq", "y", cs, ST::assume_valid), want);
        d = "replace(no match)";
        if (want == ms) vrt::count("op.result_equals_source");
        break;
    }
    }
    return sfmt("s%zu[%zu].%s", i, ms.size(), d.c_str());
}

static void history(Rng &r, size_t steps)
{
    Pool p;
    for (size_t i = 0; i < Pool::N; ++i) if (r.chance(3, 4)) p.make(i, pick_value(r));
    p.make(0, S(20, 'q'));
    p.make(1, "short");
    for (size_t step = 0; step < steps; ++step) {
        size_t i = r.below(Pool::N), j = r.below(Pool::N);
        if (!p.obj[i]) { p.make(i, pick_value(r)); p.log(sfmt("s%zu=new[%zu]", i, p.shadow[i].size())); p.check_models("create"); continue; }
        if (!p.obj[j]) j = i;
        std::vector<Snap> before = p.snapshot();
        std::string d;
        ssize_t mut = -1, mut2 = -1;
        const unsigned kind = static_cast<unsigned>(r.below(10));
        if (kind < 6) {
            // ---- a const operation, then the independence test on its results
            Produced out;
            try {
                d = const_op(p, r, i, j, out);
            } catch (const ST::unicode_error &e) {
                // validating overloads may reject operands that are not valid UTF-8 (reachable after a byte-wise cut)
                d = sfmt("s%zu const op rejected: %s", i, e.what());
                if (ref::utf8_ok(p.shadow[i]) && ref::utf8_ok(p.shadow[j])) p.fail("unexpected-unicode_error", d);
                vrt::count("op.rejected_invalid_utf8");
            }
            p.log(d);
            p.unchanged_except(before, -1, -1, d);
            for (size_t k = 0; k < out.results.size(); ++k) {
                const ST::string &res = **out.results[k];
                if (S(res.c_str(), res.size()) != out.expected[k])
                    p.fail("wrong-result", sfmt("%s result %zu is %s, expected %s", d.c_str(), k, show(S(res.c_str(), res.size())).c_str(), show(out.expected[k]).c_str()));
                p.owns("result", *out.results[k], d);
                for (size_t m = 0; m < k; ++m)
                    if (res.size() >= 16 && res.c_str() == (**out.results[m]).c_str()) p.fail("two-results-share-storage", d);
            }
            vrt::count("results", out.results.size());
            if (!out.results.empty()) {
                if (r.chance(1, 2)) {
                    // overwrite or destroy the SOURCE first: results must keep their values
                    if (r.chance(1, 2)) { **p.obj[i] = vrt::mk(S(p.shadow[i].size() + 3, '#')); p.shadow[i] = S(p.shadow[i].size() + 3, '#'); p.log("overwrite source"); }
                    else { p.kill(i); p.log("destroy source"); }
                    for (size_t k = 0; k < out.results.size(); ++k) {
                        const ST::string &res = **out.results[k];
                        if (S(res.c_str(), res.size()) != out.expected[k]) p.fail("result-changed-with-its-source", d);
                    }
                    vrt::count("independence.source_first");
                } else {
                    // modify / reassign / destroy the RESULTS first: the source (and everything else) must not change
                    for (auto *box : out.results) {
                        switch (r.below(3)) {
                        case 0: **box = "overwritten-result-value-0123456789"; break;
                        case 1: **box += "+"; break;
                        default: (**box).clear(); break;
                        }
                    }
                    p.unchanged_except(before, -1, -1, d + " + result overwrite");
                    vrt::count("independence.result_first");
                }
            }
        } else {
            // ---- a mutator on slot i
            ST::string &s = **p.obj[i];
            const ST::string &t = **p.obj[j];
            const S mt = p.shadow[j];
            mut = static_cast<ssize_t>(i);
            switch (r.below(16)) {
            case 0: s = t; p.shadow[i] = mt; d = sfmt("s%zu = s%zu", i, j); if (i == j) vrt::count("op.self_referential"); break;
            case 1: s.set(t); p.shadow[i] = mt; d = sfmt("s%zu.set(s%zu)", i, j); if (i == j) vrt::count("op.self_referential"); break;
            case 2: s = std::move(**p.obj[j]); d = sfmt("s%zu = move(s%zu)", i, j);
                    if (i == j) { p.moved_from[i] = true; vrt::count("op.self_referential"); } else { p.shadow[i] = mt; p.moved_from[j] = true; mut2 = static_cast<ssize_t>(j); }
                    vrt::count("op.move"); break;
            case 3: s.set(std::move(**p.obj[j])); d = sfmt("s%zu.set(move(s%zu))", i, j);
                    if (i == j) p.moved_from[i] = true; else { p.shadow[i] = mt; p.moved_from[j] = true; mut2 = static_cast<ssize_t>(j); }
                    vrt::count("op.move"); break;
            case 4: s += t; p.shadow[i] += mt; d = sfmt("s%zu += s%zu", i, j); if (i == j) vrt::count("op.self_referential"); break;
            case 5: s += s; p.shadow[i] += p.shadow[i]; d = sfmt("s%zu += s%zu (self)", i, i); vrt::count("op.self_referential"); break;
            case 6: s += "tail"; p.shadow[i] += "tail"; d = sfmt("s%zu += \"tail\"", i); break;
            case 7: s += 'c'; s += U'é'; p.shadow[i] += "c\xC3\xA9"; d = sfmt("s%zu += chars", i); break;
            case 8: s.clear(); p.shadow[i].clear(); d = sfmt("s%zu.clear()", i); break;
            case 9: { S v = pick_value(r); s = vrt::mk(v); p.shadow[i] = v; d = sfmt("s%zu = new value[%zu]", i, v.size()); break; }
            case 10: s = "c-string value that is long enough"; p.shadow[i] = "c-string value that is long enough"; d = sfmt("s%zu = cstr", i); break;
            case 11: {
                ST::char_buffer b = t.to_utf8();
                d = sfmt("s%zu = move(s%zu.to_utf8())", i, j);
                try { s = std::move(b); p.shadow[i] = mt; }
                catch (const ST::unicode_error &) { if (ref::utf8_ok(mt)) p.fail("unexpected-unicode_error", d); }
                break;
            }
            case 12: if (r.chance(1, 2)) s.set_validated(t.c_str(), t.size()); else s.set_validated(t.u8_str(), t.size()); p.shadow[i] = mt; d = sfmt("s%zu.set_validated(s%zu bytes)", i, j); if (i == j) vrt::count("op.self_referential"); break;
            case 13: s = s.substr(1); p.shadow[i] = ref::substr(p.shadow[i], 1, static_cast<size_t>(-1)); d = sfmt("s%zu = s%zu.substr(1)", i, i); vrt::count("op.self_referential"); break;
            case 14:
                // assignment from a pointer / view into the string's own storage
                switch (r.below(9)) {
                case 6: case 7: case 8: {
                    // ... the same through the repairing / checking modes: the source range is inside the target's own storage
                    const size_t k = r.below(p.shadow[i].size() + 1), n = r.below(p.shadow[i].size() - k + 1);
                    const S src = p.shadow[i].substr(k, n);
                    const bool subst = r.chance(2, 3), view = r.chance(1, 2);
                    const ST::utf_validation_t m = subst ? ST::substitute_invalid : ST::check_validity;
                    d = sfmt("s%zu.set(%s into s%zu at %zu,%zu; %s)", i, view ? "view" : "pointer", i, k, n, subst ? "substitute_invalid" : "check_validity");
                    try {
                        if (view) s.set(s.view(k, n), m); else s.set(s.c_str() + k, n, m);
                        if (!subst && !ref::utf8_ok(src)) p.fail("accepted-invalid-self-range", d);
                        p.shadow[i] = subst ? ref::cleanup_utf8(src) : src;
                    } catch (const ST::unicode_error &) { if (subst || ref::utf8_ok(src)) p.fail("unexpected-unicode_error", d); }
                    break;
                }
                case 0: if (r.chance(1, 2)) { s.set(s); d = sfmt("s%zu.set(self)", i); }
                        else {   // a sub-range of its own bytes, through both spellings of set_validated
                            const size_t k = r.below(p.shadow[i].size() + 1), n = r.below(p.shadow[i].size() - k + 1);
                            const S want = p.shadow[i].substr(k, n);
                            if (r.chance(1, 2)) s.set_validated(s.c_str() + k, n); else s.set_validated(s.u8_str() + k, n);
                            p.shadow[i] = want;
                            d = sfmt("s%zu.set_validated(own bytes %zu,%zu)", i, k, n);
                        }
                        break;
                case 1: { size_t z = p.shadow[i].find('\0'); S want = z == S::npos ? p.shadow[i] : p.shadow[i].substr(0, z);
                          d = sfmt("s%zu = s%zu.c_str()", i, i);
                          try { s = s.c_str(); p.shadow[i] = want; } catch (const ST::unicode_error &) { if (ref::utf8_ok(want)) p.fail("unexpected-unicode_error", d); }
                          break; }
                case 2: { size_t k = r.below(p.shadow[i].size() + 1), n = r.below(p.shadow[i].size() - k + 1); S want = p.shadow[i].substr(k, n);
                          d = sfmt("s%zu.set(s%zu.c_str()+%zu,%zu,assume_valid)", i, i, k, n);
                          s.set(s.c_str() + k, n, ST::assume_valid); p.shadow[i] = want; break; }
                case 3: { size_t k = r.below(p.shadow[i].size() + 1), n = r.below(p.shadow[i].size() - k + 1); S want = p.shadow[i].substr(k, n);
                          d = sfmt("s%zu = s%zu.view(%zu,%zu)", i, i, k, n);
                          try { s = s.view(k, n); p.shadow[i] = want; } catch (const ST::unicode_error &) { if (ref::utf8_ok(want)) p.fail("unexpected-unicode_error", d); }
                          break; }
                case 4: { size_t z = p.shadow[i].find('\0'); S want = z == S::npos ? p.shadow[i] : p.shadow[i].substr(0, z);
                          d = sfmt("s%zu = s%zu.u8_str()", i, i);
                          try { s = s.u8_str(); p.shadow[i] = want; } catch (const ST::unicode_error &) { if (ref::utf8_ok(want)) p.fail("unexpected-unicode_error", d); }
                          break; }
                default: { const size_t k = r.chance(1, 2) ? 0 : r.below(p.shadow[i].size() + 1);
                          size_t z = p.shadow[i].find('\0', k); S tail = z == S::npos ? p.shadow[i].substr(k) : p.shadow[i].substr(k, z - k);
                          d = sfmt("s%zu += s%zu.c_str()+%zu", i, i, k);
                          try { s += s.c_str() + k; p.shadow[i] += tail; } catch (const ST::unicode_error &) { if (ref::utf8_ok(tail)) p.fail("unexpected-unicode_error", d); }
                          break; }
                }
                vrt::count("op.self_referential");
                break;
            default: { ST::string tmp(std::move(s)); p.moved_from[i] = true; d = sfmt("move-construct from s%zu, then destroy the new object", i); vrt::count("op.move"); break; }
            }
            p.log(d);
            p.unchanged_except(before, mut, mut2, d);
            vrt::count("mutators");
        }
        p.check_models(d);
        vrt::count("steps");
    }
    vrt::distinct(vrt::fnv1a(p.history.data(), p.history.size(), 121));
    if (vrt::want_sample("history")) vrt::sample("history", p.history.substr(0, 600));
}

static void body()
{
    vrt::require("steps", 100000);
    vrt::require("results", 50000);
    vrt::require("mutators", 20000);
    vrt::require("independence.source_first", 10000);
    vrt::require("independence.result_first", 10000);
    vrt::require("op.result_equals_source", 5000);
    vrt::require("op.self_referential", 5000);
    vrt::require("op.move", 2000);
    vrt::require("moved_from.adopted", 1000);
    const size_t steps = vrt::thorough() ? 120 : 60;
    vrt::phase("histories", vrt::tier_count(40000, 300000), [&](uint64_t, Rng &r) { history(r, steps); });
}

VRT_MAIN(body)
