// C16 - ST::string_stream content equals the concatenation of everything
// appended, over histories of append / append_char / operator<< / truncate /
// erase / move operations; storage is watched through the allocation registry
// (in-object buffer vs. one exclusive heap block), streams live in exact-size
// heap blocks.  The scale phases put the same monitors on streams of 4 KiB ..
// 4 MiB and on text arguments of up to 1 Mi units (see namespace sc).
#include "vrt.h"
#include "vrt_alloc.h"
#include "vrt_st.h"
#include "ref_unicode.h"
#include "gen_text.h"
#include "gen_scale.h"
#include "ambient.h"
#include <filesystem>
#include <climits>
#include <cfloat>

using vrt::Rng;
using vrt::sfmt;
namespace va = vrt::alloc;
typedef std::string S;
typedef ST::string_stream SS;

struct Slot {
    SS *p = nullptr;
    S model;
    bool inside(const void *q) const
    {
        const char *c = static_cast<const char *>(q), *lo = reinterpret_cast<const char *>(p);
        return c >= lo && c < lo + sizeof(SS);
    }
};

struct Pool {
    static const size_t N = 5;
    Slot s[N];
    S history;
    ~Pool() { for (Slot &x : s) kill(x); }
    void kill(Slot &x)
    {
        if (x.p) { x.p->~SS(); free(x.p); x.p = nullptr; }
        x.model.clear();
    }
    void make(Slot &x)
    {
        kill(x);
        void *mem = malloc(sizeof(SS));
        va::LibScope ls;
        x.p = new (mem) SS();
    }
    void make_from(Slot &x, SS &&src)
    {
        kill(x);
        void *mem = malloc(sizeof(SS));
        va::LibScope ls;
        x.p = new (mem) SS(std::move(src));
    }
    void fail(const char *what, const std::string &detail)
    {
        va::HarnessScope hs;
        vrt::violation(sfmt("C16:%s", what), sfmt("%s | history: %s", detail.c_str(), history.c_str()));
    }
    void log(const std::string &d)
    {
        va::HarnessScope hs;
        if (history.size() < 1500) { history += d; history += "; "; }
        vrt::cur_printf("%s\n", d.c_str());
    }
    void check_all(const std::string &after)
    {
        va::HarnessScope hs;
        size_t heaps = 0;
        const void *seen[N] = {};
        for (size_t i = 0; i < N; ++i) {
            Slot &x = s[i];
            if (!x.p) continue;
            const char *d = x.p->raw_buffer();
            const size_t n = x.p->size();
            if (n != x.model.size()) { fail("size-differs-from-model", sfmt("stream %zu size()=%zu model=%zu after %s", i, n, x.model.size(), after.c_str())); continue; }
            if (x.inside(d)) {
                if (n > ST_STACK_STRING_SIZE) fail("in-object-buffer-overfull", sfmt("stream %zu size=%zu", i, n));
            } else {
                va::Block *b = va::find(d);
                if (!b) { fail("buffer-not-a-live-block", sfmt("stream %zu after %s", i, after.c_str())); continue; }
                if (b->size < n || !b->is_array) fail("heap-block-too-small", sfmt("stream %zu size=%zu block=%zu after %s", i, n, b->size, after.c_str()));
                for (size_t k = 0; k < i; ++k) if (seen[k] == d) fail("storage-shared-between-streams", sfmt("streams %zu and %zu after %s", k, i, after.c_str()));
                seen[i] = d;
                ++heaps;
            }
            if (n != 0 && memcmp(d, x.model.data(), n) != 0) {
                size_t k = 0;
                while (k < n && d[k] == x.model[k]) ++k;
                fail("content-differs-from-model", sfmt("stream %zu first difference at byte %zu of %zu after %s", i, k, n, after.c_str()));
            }
        }
        // the stream's buffers are the only array-new blocks the library keeps between steps
        if (va::reg().live_lib_arrays != heaps)
            fail(va::reg().live_lib_arrays > heaps ? "leaked-block" : "missing-block", sfmt("library-owned live new[] blocks=%zu, heap-mode streams=%zu after %s", va::reg().live_lib_arrays, heaps, after.c_str()));
        va::check_pairing("sstream");
        vrt::evals();
    }
};

static S valid_text(Rng &r, size_t maxcp)
{
    S t;
    for (size_t n = r.below(maxcp + 1); n-- > 0;) {
        unsigned long c;
        switch (r.below(5)) {
        case 0: c = 0xE9; break;
        case 1: c = 0x20AC; break;
        case 2: c = 0x1F600 + r.below(50); break;
        default: c = 0x20 + r.below(0x5f); break;
        }
        ref::enc_utf8(t, c);
    }
    return t;
}

static size_t append_len(Rng &r, size_t cur)
{
    // sizes around the in-object capacity and each doubling; single appends spanning several doublings
    static const size_t marks[] = {256, 512, 1024, 2048, 4096};
    switch (r.below(8)) {
    case 0: { size_t m = r.pick(marks); long d = r.range(-2, 2); return (m + d > cur) ? m + d - cur : r.below(8); }
    case 1: return r.pick(marks) + r.below(3) - 1;
    case 2: return 3000 + r.below(6000);
    case 3: return 0;
    default: return r.below(r.chance(1, 4) ? 300 : 40);
    }
}

template <typename T>
static std::basic_string<T> widen(const S &utf8)
{
    ref::Decoded d = ref::decode_utf8(utf8);
    std::basic_string<T> o;
    if constexpr (sizeof(T) == 2) { std::u16string t; ref::to_utf16(d, false, t); o.assign(t.begin(), t.end()); }
    else { std::u32string t; ref::to_utf32(d, false, t); o.assign(t.begin(), t.end()); }
    return o;
}

// to_string in both interpretations and all validation modes; returns whether the content is well-formed UTF-8
static bool to_string_monitor(Pool &p, size_t i)
{
    Slot &x = p.s[i];
    SS &ss = *x.p;
    const S &m = x.model;
    bool valid;
    { va::HarnessScope hs; valid = ref::utf8_ok(m); }
    auto got = [&](bool utf8, ST::utf_validation_t v, bool &threw) {
        S out;
        threw = false;
        va::LibScope ls;
        try { ST::string t = ss.to_string(utf8, v); va::HarnessScope hs; out.assign(t.c_str(), t.size()); }
        catch (const ST::unicode_error &) { threw = true; }
        return out;
    };
    bool threw;
    S a = got(true, ST::assume_valid, threw);
    if (threw || a != m) p.fail("to_string:assume_valid", sfmt("stream %zu", i));
    S b = got(true, ST::substitute_invalid, threw);
    { va::HarnessScope hs; const S w = ref::cleanup_utf8(m); if (threw || b != w) { size_t k = 0; while (k < b.size() && k < w.size() && b[k] == w[k]) ++k;
        p.fail("to_string:substitute_invalid", sfmt("stream %zu threw=%d got %zu bytes, want %zu; first difference at %zu: got %s want %s", i, threw, b.size(), w.size(), k,
                                                     vrt::hex(b.data() + k, std::min<size_t>(12, b.size() - k)).c_str(), vrt::hex(w.data() + (k > 4 ? k - 4 : 0), std::min<size_t>(16, w.size() - (k > 4 ? k - 4 : 0))).c_str())); } }
    S c = got(true, ST::check_validity, threw);
    if (valid ? (threw || c != m) : !threw) p.fail("to_string:check_validity", sfmt("stream %zu valid=%d threw=%d", i, valid, threw));
    S l = got(false, ST::assume_valid, threw);
    { va::HarnessScope hs; S want; for (unsigned char ch : m) ref::enc_utf8(want, ch); if (threw || l != want) p.fail("to_string:latin1", sfmt("stream %zu", i)); }
    if (valid) { bool t2; S e = got(true, ST::check_validity, t2); (void)e; }
    return valid;
}

static std::string step(Pool &p, Rng &r)
{
    size_t i = r.below(Pool::N), j = r.below(Pool::N);
    Slot &x = p.s[i];
    if (!x.p) { p.make(x); return sfmt("ss%zu=new", i); }
    SS &ss = *x.p;
    char d[200];
    d[0] = 0;
    va::LibScope ls;
    switch (r.below(27)) {
    case 26: {
        // null text pointers mean empty text for every pointer overload (and for append with the defaulted size)
        const unsigned form = static_cast<unsigned>(r.below(7));
        switch (form) {
        case 0: ss << static_cast<const char *>(nullptr); break;
        case 1: ss << static_cast<const wchar_t *>(nullptr); break;
        case 2: ss << static_cast<const char16_t *>(nullptr); break;
        case 3: ss << static_cast<const char32_t *>(nullptr); break;
        case 4: ss << static_cast<const char8_t *>(nullptr); break;
        case 5: ss.append(nullptr); break;
        default: ss.append(nullptr, 0); break;
        }
        snprintf(d, sizeof(d), "ss%zu<<null pointer form %u", i, form);
        vrt::count("op.insert_null_pointer");
        break;
    }
    case 0: case 1: case 2: {
        size_t n = append_len(r, x.model.size());
        S data;
        { va::HarnessScope hs; data = gen::any_bytes(r, n); }
        vrt::Exact<char> e(data.data(), data.size());
        ss.append(e.data(), n);
        { va::HarnessScope hs; x.model += data; }
        snprintf(d, sizeof(d), "ss%zu.append(%zu bytes)->%zu", i, n, x.model.size());
        vrt::count("op.append");
        break;
    }
    case 3: {
        S t;
        { va::HarnessScope hs; t = valid_text(r, 20); size_t z = t.find('\0'); if (z != S::npos) t.erase(z); }
        vrt::Exact<char> e(t.data(), t.size(), true);
        if (r.chance(1, 2)) ss.append(e.data()); else ss << e.data();
        { va::HarnessScope hs; x.model += t; }
        snprintf(d, sizeof(d), "ss%zu<<cstr[%zu]", i, t.size());
        break;
    }
    case 4: {
        size_t n = r.chance(1, 3) ? append_len(r, x.model.size()) : r.below(20);
        char c = static_cast<char>(r.below(256));
        if (n == 1 && r.chance(1, 2)) ss << c; else ss.append_char(c, n);
        { va::HarnessScope hs; x.model.append(n, c); }
        snprintf(d, sizeof(d), "ss%zu.append_char(%02x,%zu)->%zu", i, static_cast<unsigned char>(c), n, x.model.size());
        vrt::count("op.append_char");
        break;
    }
    case 5: {
        static const long long vals[] = {0, 1, -1, 9, 10, -10, INT_MAX, INT_MIN, LONG_MAX, LONG_MIN, 4294967296LL, -4294967296LL, 1234567890123LL};
        long long v = r.chance(1, 2) ? r.pick(vals) : static_cast<long long>(r.next() >> r.below(64)) * (r.chance(1, 2) ? 1 : -1);
        S want;
        switch (r.below(6)) {
        case 0: ss << static_cast<int>(v); want = sfmt("%d", static_cast<int>(v)); break;
        case 1: ss << static_cast<unsigned int>(v); want = sfmt("%u", static_cast<unsigned int>(v)); break;
        case 2: ss << static_cast<long>(v); want = sfmt("%ld", static_cast<long>(v)); break;
        case 3: ss << static_cast<unsigned long>(v); want = sfmt("%lu", static_cast<unsigned long>(v)); break;
        case 4: ss << v; want = sfmt("%lld", v); break;
        default: ss << static_cast<unsigned long long>(v); want = sfmt("%llu", static_cast<unsigned long long>(v)); break;
        }
        { va::HarnessScope hs; x.model += want; }
        snprintf(d, sizeof(d), "ss%zu<<int %s", i, want.c_str());
        vrt::count("op.insert_integer");
        break;
    }
    case 6: {
        static const double vals[] = {0.0, -0.0, 1.5, -2.25, 1e100, 1e-100, DBL_MAX, DBL_MIN, 123456789.0, 0.1, INFINITY, NAN};
        double v = r.pick(vals);
        S want;
        if (r.chance(1, 2)) { ss << v; want = sfmt("%g", v); }
        else { float f = static_cast<float>(v); ss << f; want = sfmt("%g", static_cast<double>(f)); }
        { va::HarnessScope hs; x.model += want; }
        snprintf(d, sizeof(d), "ss%zu<<float %s", i, want.c_str());
        break;
    }
    case 7: case 8: case 9: {
        // wide / STL text: valid text; views are sub-ranges of a larger buffer (no terminator at their end)
        S t, pre, post;
        { va::HarnessScope hs; t = valid_text(r, r.chance(1, 4) ? 150 : 12); pre = valid_text(r, 3); post = "TAIL" + valid_text(r, 3); }
        const unsigned form = static_cast<unsigned>(r.below(15));
        bool cstr_form = form < 4;
        // sized forms (STL strings, views, ST::string) carry U+0000 like any other character
        if (!cstr_form && r.chance(1, 4)) { va::HarnessScope hs; for (size_t k = 1 + r.below(3); k-- > 0;) { size_t at = r.below(t.size() + 1); while (at < t.size() && (static_cast<unsigned char>(t[at]) & 0xC0) == 0x80) ++at; t.insert(at, 1, '\0'); } vrt::count("op.insert_text_with_U+0000"); }
        if (cstr_form) { va::HarnessScope hs; S c; for (char ch : t) if (ch) c += ch; t = c; }
        std::wstring w, wall; std::u16string u16, u16all; std::u32string u32, u32all; std::u8string u8, u8all; S sall;
        {
            va::HarnessScope hs;
            w = widen<wchar_t>(t); u16 = widen<char16_t>(t); u32 = widen<char32_t>(t); u8.assign(reinterpret_cast<const char8_t *>(t.data()), t.size());
            wall = widen<wchar_t>(pre) + w + widen<wchar_t>(post); u16all = widen<char16_t>(pre) + u16 + widen<char16_t>(post); u32all = widen<char32_t>(pre) + u32 + widen<char32_t>(post);
            u8all = std::u8string(reinterpret_cast<const char8_t *>(pre.data()), pre.size()) + u8 + std::u8string(reinterpret_cast<const char8_t *>(post.data()), post.size());
            sall = pre + t + post;
        }
        const size_t o8 = pre.size(), ow = widen<wchar_t>(pre).size(), o16 = widen<char16_t>(pre).size();
        switch (form) {
        case 0: ss << w.c_str(); break;
        case 1: ss << u16.c_str(); break;
        case 2: ss << u32.c_str(); break;
        case 3: ss << u8.c_str(); break;
        case 4: ss << w; break;
        case 5: ss << u16; break;
        case 6: ss << u32; break;
        case 7: ss << u8; break;
        case 8: ss << std::string(t); break;
        case 9: ss << std::string_view(sall).substr(o8, t.size()); break;
        case 10: ss << std::wstring_view(wall).substr(ow, w.size()); break;
        case 11: ss << std::u16string_view(u16all).substr(o16, u16.size()); break;
        case 12: ss << std::u32string_view(u32all).substr(ow, u32.size()); break;
        case 13: ss << std::u8string_view(u8all).substr(o8, u8.size()); break;
        default: ss << vrt::mk(t); break;
        }
        { va::HarnessScope hs; x.model += t; }
        snprintf(d, sizeof(d), "ss%zu<<text form %u [%zu bytes]", i, form, t.size());
        vrt::count(form >= 9 && form <= 13 ? "op.insert_view" : "op.insert_text");
        break;
    }
    case 10: case 11: {
        size_t n;
        switch (r.below(5)) {
        case 0: n = 0; break;
        case 1: n = x.model.size(); break;
        case 2: n = x.model.size() + 1 + r.below(10); break;
        case 3: { static const size_t m[] = {255, 256, 257, 511, 512, 513}; n = r.pick(m); break; }
        default: n = r.below(x.model.size() + 1); break;
        }
        ss.truncate(n);
        if (n < x.model.size()) x.model.resize(n);
        snprintf(d, sizeof(d), "ss%zu.truncate(%zu)", i, n);
        vrt::count("op.truncate");
        break;
    }
    case 12: {
        size_t n = r.chance(1, 4) ? x.model.size() + r.below(3) : r.below(x.model.size() + 1);
        ss.erase(n);
        x.model.resize(n < x.model.size() ? x.model.size() - n : 0);
        snprintf(d, sizeof(d), "ss%zu.erase(%zu)", i, n);
        vrt::count("op.erase");
        break;
    }
    case 13: ss.truncate(); x.model.clear(); snprintf(d, sizeof(d), "ss%zu.truncate()", i); break;
    case 14: case 15: case 16: {
        // move assignment in every storage mode of source and target
        Slot &y = p.s[j];
        if (!y.p) { va::HarnessScope hs; p.make(y); }
        bool th = !x.inside(ss.raw_buffer()), sh = !y.inside(y.p->raw_buffer());
        if (i == j) {
            // self-move: the stream may keep its content or end up empty (a moved-from stream is a valid empty stream) -
            // nothing else; the structural monitors then look at it like at any other stream
            SS &self = ss;
            ss = std::move(self);
            { va::HarnessScope hs; if (ss.size() == 0) x.model.clear(); }
            snprintf(d, sizeof(d), "ss%zu(%s)=move(ss%zu) [self]", i, th ? "heap" : "obj", i);
            vrt::count("op.move_assign.self");
            break;
        }
        ss = std::move(*y.p);
        { va::HarnessScope hs; x.model = y.model; y.model.clear(); }
        snprintf(d, sizeof(d), "ss%zu(%s)=move(ss%zu(%s))", i, th ? "heap" : "obj", j, sh ? "heap" : "obj");
        vrt::count(sfmt("op.move_assign.%s<-%s", th ? "heap" : "obj", sh ? "heap" : "obj"));
        break;
    }
    case 17: case 18: {
        // move construction into another slot
        Slot &y = p.s[j];
        if (i == j) break;
        bool sh = !x.inside(ss.raw_buffer());
        {
            va::HarnessScope hs;
            p.kill(y);
        }
        void *mem = malloc(sizeof(SS));
        y.p = new (mem) SS(std::move(ss));
        { va::HarnessScope hs; y.model = x.model; x.model.clear(); }
        snprintf(d, sizeof(d), "ss%zu=SS(move(ss%zu(%s)))", j, i, sh ? "heap" : "obj");
        vrt::count(sh ? "op.move_construct.heap" : "op.move_construct.obj");
        break;
    }
    case 19: { va::HarnessScope hs; p.kill(x); snprintf(d, sizeof(d), "destroy ss%zu", i); vrt::count("op.destroy"); break; }
    default: {
        const bool valid = to_string_monitor(p, i);
        snprintf(d, sizeof(d), "ss%zu.to_string x4 (valid=%d)", i, valid);
        vrt::count(valid ? "op.to_string.valid" : "op.to_string.invalid");
        break;
    }
    }
    return d;
}

// ================================================================ scale phases
// The same monitors (Pool::check_all, to_string_monitor) on streams of 4 KiB .. 4 MiB and on text arguments of up to 1 Mi units.
// Lengths and the places where something happens sit on or next to multiples of scale::blocks().
namespace sc {

enum Enc { E8, E16, E32 };
static inline size_t units(Enc e, char32_t c)
{
    if (e == E32) return 1;
    if (e == E16) return c >= 0x10000 ? 2 : 1;
    return c < 0x80 ? 1 : c < 0x800 ? 2 : c < 0x10000 ? 3 : 4;
}
static const char *enc_name(Enc e) { return e == E8 ? "UTF-8 bytes" : e == E16 ? "UTF-16 units" : "UTF-32 units"; }

enum Bg { BG_ASCII_CONST, BG_ASCII_RANDOM, BG_TWO, BG_THREE, BG_FOUR, BG_MIXED, N_BG };

// append code points to `cps` whose size in encoding `e` is exactly `n` units (ASCII filler where a character does not fit; the
// filler goes in front of or behind the run, so that e.g. a run of surrogate pairs starts at an odd or an even unit index)
static void fill_units(Rng &r, std::u32string &cps, Enc e, size_t n, unsigned bg, bool filler_first)
{
    static const char32_t two[] = {0xE9, 0xFF, 0x80, 0x7FF, 0x100}, three[] = {0x20AC, 0x800, 0xFFFF, 0xD7FF, 0xE000, 0xFFFD}, four[] = {0x1F600, 0x10000, 0x10FFFF, 0x1F9FF};
    const char32_t c2 = r.pick(two), c3 = r.pick(three), c4 = r.pick(four);
    const char32_t a = static_cast<char32_t>("ax _0"[r.below(5)]);
    switch (bg) {
    case BG_ASCII_CONST: cps.append(n, a); return;
    case BG_ASCII_RANDOM: for (size_t k = 0; k < n; ++k) cps += static_cast<char32_t>(0x21 + r.below(0x5E)); return;
    case BG_TWO: case BG_THREE: case BG_FOUR: {
        const char32_t m = bg == BG_TWO ? c2 : bg == BG_THREE ? c3 : c4;
        const size_t w = units(e, m), rem = n % w;
        if (filler_first) cps.append(rem, a);
        cps.append(n / w, m);
        if (!filler_first) cps.append(rem, a);
        return;
    }
    default: {
        size_t left = n;
        while (left) {
            const unsigned k = static_cast<unsigned>(r.below(6));
            char32_t c = k == 0 ? c2 : k == 1 ? c3 : k == 2 ? c4 : static_cast<char32_t>('a' + r.below(26));
            size_t w = units(e, c);
            if (w > left) { c = a; w = 1; }
            cps += c;
            left -= w;
        }
    }
    }
}
static S enc8(const std::u32string &cps)
{
    S o;
    o.reserve(cps.size() + cps.size() / 2 + 8);
    for (char32_t c : cps) ref::enc_utf8(o, c);
    return o;
}
static std::u16string enc16(const std::u32string &cps)
{
    std::u16string o;
    o.reserve(cps.size() + 8);
    for (char32_t c : cps) ref::enc_utf16(o, c);
    return o;
}
// position-dependent bytes (a shifted, shortened or repeated copy does not look like the original)
static S rand_bytes(Rng &r, size_t n, bool no_nul = false)
{
    S s(n, '\0');
    size_t i = 0;
    while (i < n) {
        uint64_t v = r.next();
        for (int b = 0; b < 8 && i < n; ++b, v >>= 8) { char c = static_cast<char>(v & 0xFF); if (no_nul && !c) c = 1; s[i++] = c; }
    }
    return s;
}
static S valid_prefill(Rng &r, size_t n)
{
    static const scale::Background kinds[] = {scale::ASCII_CONST, scale::ASCII_RANDOM, scale::ASCII_WORDS, scale::TWO_BYTE_RUN, scale::THREE_BYTE_RUN, scale::FOUR_BYTE_RUN, scale::MIXED_UTF8};
    return scale::utf8_background(r, n, r.pick(kinds));
}
static size_t capacity_of(const Slot &x)
{
    const char *d = x.p->raw_buffer();
    if (x.inside(d)) return ST_STACK_STRING_SIZE;
    va::Block *b = va::find(d);
    return b ? b->size : 0;
}
static void note_size(size_t n)
{
    if (n >= 4096) vrt::count("scale.stream>=4KiB");
    if (n >= 65536) vrt::count("scale.stream>=64KiB");
    if (n >= (1u << 20)) vrt::count("scale.stream>=1MiB");
}

// the per-step monitor for histories of thousands of small steps on a big stream: size, storage class and the bytes just written
// (plus a few before them); the caller runs the full Pool::check_all whenever the buffer has moved, every 2048 steps and at the end
static void check_tail(Pool &p, size_t i, size_t tail, const char *after)
{
    Slot &x = p.s[i];
    const char *d = x.p->raw_buffer();
    const size_t n = x.p->size();
    vrt::evals();
    if (n != x.model.size()) { p.fail("size-differs-from-model", sfmt("stream %zu size()=%zu model=%zu after %s", i, n, x.model.size(), after)); return; }
    if (x.inside(d)) {
        if (n > ST_STACK_STRING_SIZE) p.fail("in-object-buffer-overfull", sfmt("stream %zu size=%zu", i, n));
    } else {
        va::Block *b = va::find(d);
        if (!b) { p.fail("buffer-not-a-live-block", sfmt("stream %zu after %s", i, after)); return; }
        if (b->size < n || !b->is_array) p.fail("heap-block-too-small", sfmt("stream %zu size=%zu block=%zu after %s", i, n, b->size, after));
    }
    const size_t t = std::min(n, tail + 24);
    if (t && memcmp(d + n - t, x.model.data() + n - t, t) != 0) {
        size_t k = n - t;
        while (k < n && d[k] == x.model[k]) ++k;
        p.fail("content-differs-from-model", sfmt("stream %zu first difference at byte %zu of %zu after %s", i, k, n, after));
    }
}

// one integer / floating-point insertion; returns the text it must have produced
static S insert_number(SS &ss, Rng &r)
{
    static const long long vals[] = {0, 1, -1, 9, 10, -10, INT_MAX, INT_MIN, LLONG_MAX, LLONG_MIN, 4294967296LL, -4294967296LL, 1234567890123LL, -999999999999999999LL};
    static const double dvals[] = {0.0, 1.5, -2.25, 1e100, 1e-100, DBL_MAX, -DBL_MAX, DBL_MIN, 123456789.0, 0.1, -123456.789};
    const long long v = r.chance(1, 2) ? r.pick(vals) : static_cast<long long>(r.next() >> (1 + r.below(63)));
    const unsigned k = static_cast<unsigned>(r.below(9));
    const double dv = r.pick(dvals);
    va::LibScope ls;
    switch (k) {
    case 0: ss << static_cast<int>(v); return sfmt("%d", static_cast<int>(v));
    case 1: ss << static_cast<unsigned int>(v); return sfmt("%u", static_cast<unsigned int>(v));
    case 2: ss << static_cast<long>(v); return sfmt("%ld", static_cast<long>(v));
    case 3: ss << static_cast<unsigned long>(v); return sfmt("%lu", static_cast<unsigned long>(v));
    case 4: case 5: ss << v; return sfmt("%lld", v);
    case 6: ss << static_cast<unsigned long long>(v); return sfmt("%llu", static_cast<unsigned long long>(v));
    case 7: ss << dv; return sfmt("%g", dv);
    default: { const float f = static_cast<float>(dv); ss << f; return sfmt("%g", static_cast<double>(f)); }
    }
}

// ---- text arguments
struct Text {
    S u8;
    std::u16string u16;
    std::u32string u32;
    std::wstring w;
    bool has_nul = false;
};
static unsigned n_forms(unsigned family) { return family == 0 ? 10 : 3; }
static const char *const FAMILY[] = {"char/char8_t", "char16_t", "char32_t", "wchar_t"};

template <typename T>
static void wide_form(SS &ss, unsigned form, const std::basic_string<T> &t, Rng &r)
{
    switch (form) {
    case 0: { vrt::Exact<T> e(t.data(), t.size(), true); va::LibScope ls; ss << e.data(); break; }
    case 1: { std::basic_string<T> copy(t); va::LibScope ls; ss << copy; break; }
    default:
        if (r.chance(1, 2)) {      // a view over exactly the units, nothing readable behind them
            vrt::Exact<T> e(t.data(), t.size(), false);
            va::LibScope ls;
            ss << std::basic_string_view<T>(e.data(), t.size());
        } else {                   // a view that is a sub-range of a longer text
            std::basic_string<T> all;
            const size_t pre = r.below(4);
            all.append(pre, T('<'));
            all += t;
            all.append(2, T('>'));
            all += T(0xE9);
            va::LibScope ls;
            ss << std::basic_string_view<T>(all).substr(pre, t.size());
        }
        break;
    }
}
// returns false when the form cannot carry this text (C-string forms and U+0000)
static const char *form_name(unsigned family, unsigned form)
{
    static const char *const n0[] = {"<<const char*", "append(const char*)", "append(ptr,n)", "<<std::string", "<<string_view", "<<ST::string", "<<const char8_t*", "<<u8string", "<<u8string_view", "<<std::filesystem::path"};
    static const char *const nw[] = {"<<pointer", "<<STL string", "<<STL view"};
    return family == 0 ? n0[form] : nw[form];
}
static bool apply_form(SS &ss, unsigned family, unsigned form, const Text &t, Rng &r)
{
    if (family != 0) {
        if (form == 0 && t.has_nul) return false;
        if (family == 1) wide_form<char16_t>(ss, form, t.u16, r);
        else if (family == 2) wide_form<char32_t>(ss, form, t.u32, r);
        else wide_form<wchar_t>(ss, form, t.w, r);
        return true;
    }
    const S &u = t.u8;
    switch (form) {
    case 0: case 1: case 6: {
        if (t.has_nul) return false;
        vrt::Exact<char> e(u.data(), u.size(), true);
        va::LibScope ls;
        if (form == 0) ss << e.data(); else if (form == 1) ss.append(e.data()); else ss << reinterpret_cast<const char8_t *>(e.data());
        break;
    }
    case 2: { vrt::Exact<char> e(u.data(), u.size(), false); va::LibScope ls; ss.append(e.data(), u.size()); break; }
    case 3: { S copy(u); va::LibScope ls; ss << copy; break; }
    case 4: case 8: {
        S all("<<");
        all += u;
        all += ">>\xC3\xA9";
        va::LibScope ls;
        if (form == 4) ss << std::string_view(all).substr(2, u.size());
        else ss << std::u8string_view(reinterpret_cast<const char8_t *>(all.data()) + 2, u.size());
        break;
    }
    case 5: { ST::string s = vrt::mk(u); { va::LibScope ls; ss << s; } break; }
    case 7: { std::u8string s(reinterpret_cast<const char8_t *>(u.data()), u.size()); va::LibScope ls; ss << s; break; }
    default: { std::filesystem::path path(u); va::LibScope ls; ss << path; break; }      // (a POSIX path keeps the bytes it is given)
    }
    return true;
}

static size_t pick_prefill(Rng &r)
{
    switch (r.below(8)) {
    case 0: case 1: return 0;
    case 2: return r.below(256);
    case 3: return 255 + r.below(3);
    case 4: case 5: return (static_cast<size_t>(1) << (9 + r.below(12))) - r.below(4);      // nearly / exactly full after k doublings
    default: return scale::length(r, 1u << 20, 4096);
    }
}
static size_t pick_margin(Rng &r)
{
    return r.chance(1, 3) ? r.below(40) : r.chance(1, 2) ? 1000 + r.below(70000) : 131072 + r.below(70000);
}

// One text, planted so that a multi-unit character straddles / touches a multiple of a block size, goes through every overload
// of its family; the stream is pre-filled (empty, in-object, nearly full after k doublings, big), re-made or truncated back
// between the overloads.
static void text_case(uint64_t i, Rng &r)
{
    const std::vector<size_t> &BL = scale::blocks();
    const uint64_t G = BL.size() * 8 * 3 * 4;
    const uint64_t g = (i * 1247) % G;                       // a fixed permutation of the grid: every prefix of the phase samples all of it
    const size_t B = BL[g % BL.size()];
    size_t q = 1 + (g / BL.size()) % 8;
    const unsigned anchor = static_cast<unsigned>((g / (BL.size() * 8)) % 3);      // 0 start of the argument, 1 its end, 2 start of the stream's buffer
    const unsigned family = static_cast<unsigned>((g / (BL.size() * 8 * 3)) % 4);
    const size_t CAP = vrt::opt().scale < 1.0 ? (1u << 18) : (1u << 20);           // (smaller under valgrind)
    if (B > CAP) { vrt::count("scale.skipped_too_large"); return; }
    if (B * q > CAP) q = 1 + (q - 1) % (CAP / B);
    const size_t dist = q * B;
    const Enc fe = family == 0 ? E8 : family == 1 ? E16 : E32;
    const Enc me = anchor == 2 ? E8 : fe;                    // what the distance is measured in

    static const char32_t feats[] = {0xE9, 0x7FF, 0x800, 0x20AC, 0xFFFD, 0xFFFF, 0x10000, 0x1F600, 0x10FFFF};
    char32_t F = r.pick(feats);
    if (me == E16 && r.chance(3, 4)) F = r.chance(1, 2) ? 0x1F600 : 0x10000 + static_cast<char32_t>(r.below(0x100000));
    const size_t w = units(me, F);
    size_t back = r.below(w + 1);
    if (w > 1 && r.chance(1, 2)) back = 1 + r.below(w - 1);   // strictly inside: straddles
    const long nd = r.chance(1, 6) ? scale::nudge(r) : 0;
    const size_t margin = pick_margin(r);
    auto clamp0 = [](long v) { return v < 0 ? static_cast<size_t>(0) : static_cast<size_t>(v); };
    size_t prefix, suffix, P;
    switch (anchor) {
    case 0: prefix = clamp0(static_cast<long>(dist) - static_cast<long>(back) + nd); suffix = margin; P = pick_prefill(r); break;
    case 1: prefix = margin; suffix = clamp0(static_cast<long>(dist) + static_cast<long>(back) - static_cast<long>(w) + nd); P = pick_prefill(r); break;
    default: {
        const size_t room = dist > back ? dist - back : 0;
        size_t off = r.chance(1, 3) ? r.below(8) : r.chance(1, 2) ? r.below(4096) : r.below(room + 1);
        if (off > room) off = room;
        prefix = off;
        P = clamp0(static_cast<long>(room - off) + nd);
        suffix = margin;
        break;
    }
    }
    const unsigned bg1 = static_cast<unsigned>(r.below(N_BG)), bg2 = static_cast<unsigned>(r.below(N_BG));
    std::u32string cps;
    cps.reserve(prefix + suffix + 8);
    fill_units(r, cps, me, prefix, bg1, r.chance(1, 2));
    const size_t feat_index = cps.size();
    cps += F;
    for (size_t k = r.below(3); k-- > 0;) cps += r.chance(1, 2) ? F : r.pick(feats);       // (more multi-unit characters right behind it)
    fill_units(r, cps, me, suffix, bg2, r.chance(1, 2));
    Text t;
    if (r.chance(1, 6)) {         // sized forms carry U+0000 like any other character
        const size_t k = r.below(cps.size());
        if (cps[k] < 0x80) { cps[k] = 0; t.has_nul = true; }
    }
    t.u8 = enc8(cps);
    if (family == 1) t.u16 = enc16(cps);
    else if (family == 2) t.u32 = cps;
    else if (family == 3) t.w.assign(cps.begin(), cps.end());
    const size_t arg_units = family == 0 ? t.u8.size() : family == 1 ? t.u16.size() : cps.size();
    const S pre = valid_prefill(r, P);

    Pool p;
    p.log(sfmt("scale text: family %s, %zu units (%zu UTF-8 bytes), U+%04X (%zu %s) with %zu of its units before %s + %zu x %zu%+ld; stream pre-filled with %zu bytes",
               FAMILY[family], arg_units, t.u8.size(), static_cast<unsigned>(F), w, enc_name(me), back,
               anchor == 0 ? "start of the argument" : anchor == 1 ? "end of the argument -" : "start of the stream's buffer", q, B, nd, P));
    Slot &x = p.s[0];
    bool first = true;
    unsigned done = 0;
    for (unsigned form = 0; form < n_forms(family); ++form) {
        const char *how;
        if (first || r.chance(1, 3)) {
            p.make(x);
            if (P) { va::LibScope ls; x.p->append(pre.data(), P); }
            x.model = pre;
            how = "fresh stream";
        } else if (anchor != 2 && r.chance(1, 4)) {
            how = "same stream, appended behind the previous text";
        } else {
            { va::LibScope ls; if (r.chance(1, 2)) x.p->truncate(P); else x.p->erase(x.p->size() - P); }
            x.model.resize(P);
            how = "same stream, truncated back";
            vrt::count("scale.text_into_truncated_stream");
        }
        first = false;
        const size_t cap_before = capacity_of(x);
        const std::string d = sfmt("%s %s [%zu units] (%s)", FAMILY[family], form_name(family, form), arg_units, how);
        try {
            if (!apply_form(*x.p, family, form, t, r)) continue;
        } catch (const ST::unicode_error &e) {
            p.fail("insertion-of-well-formed-text-threw", sfmt("%s: ST::unicode_error(%s)", d.c_str(), e.what()));
        }
        x.model += t.u8;
        p.log(d);
        p.check_all(d);
        ++done;
        vrt::count("scale.text_insertions");
        vrt::count(sfmt("scale.text_insertions.%s", FAMILY[family]));
        if (capacity_of(x) != cap_before) vrt::count("scale.text_insertion_grew_buffer");
        note_size(x.model.size());
        vrt::count("steps");
    }
    if (r.chance(1, 4) && x.p && x.model.size() <= (3u << 19)) {
        const bool valid = to_string_monitor(p, 0);
        vrt::count(valid ? "scale.to_string.valid" : "scale.to_string.invalid");
        p.check_all("to_string");
    }
    vrt::count("scale.text_cases");
    vrt::count(sfmt("scale.measured_from.%s", anchor == 0 ? "argument_start" : anchor == 1 ? "argument_end" : "stream_buffer_start"));
    if (back > 0 && back < w && nd == 0) vrt::count("scale.character_straddles_multiple");
    if (family == 1 && F >= 0x10000 && back == 1 && nd == 0 && anchor == 0) vrt::count("scale.surrogate_pair_straddles_multiple");
    if (arg_units > 65536) vrt::count("scale.argument>64Ki_units");
    if (arg_units >= (1u << 20)) vrt::count("scale.argument>=1Mi_units");
    if (t.has_nul) vrt::count("scale.text_with_U+0000");
    vrt::distinct(vrt::fnv1a(t.u8.data(), t.u8.size(), vrt::fnv_u64(g, 977)));
    if (vrt::want_sample("scale") && done)
        vrt::sample("scale", sfmt("%s | text %s | character at code point index %zu", p.history.substr(0, 330).c_str(), scale::brief(t.u8).c_str(), feat_index));
}

// ---- growth histories
static void growth_case(uint64_t i, Rng &r)
{
    const std::vector<size_t> &BL = scale::blocks();
    const uint64_t G = BL.size() * 8 * 2;
    const uint64_t g = (i * 209) % G;
    const size_t B = BL[g % BL.size()];
    size_t q = 1 + (g / BL.size()) % 8;
    const unsigned mode = static_cast<unsigned>((g / (BL.size() * 8)) % 2);        // 0: many small steps, 1: one huge step
    const size_t CAP = vrt::opt().scale < 1.0 ? (1u << 19) : (1u << 22);
    if (B > CAP) { vrt::count("scale.skipped_too_large"); return; }
    if (B * q > CAP) q = 1 + (q - 1) % (CAP / B);
    const long nd = scale::nudge(r);
    const size_t T = static_cast<size_t>(std::max<long>(1, static_cast<long>(q * B) + nd));          // what is added ...
    const size_t S0 = r.chance(1, 3) ? 0 : r.chance(1, 4) ? r.below(300) : scale::length(r, CAP / 4, 4096);   // ... to a stream that already holds this
    Pool p;
    p.log(sfmt("scale growth: %zu bytes, then %zu x %zu%+ld more %s", S0, q, B, nd, mode ? "in one step" : "in many small steps"));
    Slot &x = p.s[0];
    p.make(x);
    if (S0) {
        const S base = rand_bytes(r, S0);
        { vrt::Exact<char> e(base.data(), S0); va::LibScope ls; x.p->append(e.data(), S0); }
        x.model = base;
        p.check_all("base append");
    }
    uint64_t reallocs = 0;
    if (mode == 0) {
        static const size_t counts[] = {300, 1000, 5000, 30000};
        const size_t n = std::min(T, r.pick(counts));
        const size_t avg = std::max<size_t>(1, T / n);
        const bool fixed = r.chance(1, 3);
        const S src = rand_bytes(r, T);
        size_t pos = 0, steps = 0;
        const char *last = x.p->raw_buffer();
        while (pos < T) {
            size_t len = fixed ? avg : r.below(2 * avg + 1);
            if (len > T - pos) len = T - pos;
            const unsigned op = static_cast<unsigned>(r.below(12));
            const char *what = "append(ptr,n)";
            size_t added = len;
            if (op == 8) {          // (numbers are extra: the byte budget only counts the pieces of src)
                const S want = insert_number(*x.p, r);
                x.model += want;
                added = want.size();
                what = "<<number";
                vrt::count("scale.small_steps.number");
                check_tail(p, 0, added, what);
            } else {
                if (op == 6) { const char c = src[pos]; { va::LibScope ls; x.p->append_char(c, len); } x.model.append(len, c); what = "append_char"; }
                else if (op == 7) { va::LibScope ls; *x.p << std::string_view(src.data() + pos, len); x.model.append(src, pos, len); what = "<<string_view"; }
                else if (op == 9 && len == 1) { { va::LibScope ls; *x.p << src[pos]; } x.model += src[pos]; what = "<<char"; }
                else if (op == 10) { ST::string s = vrt::mk(src.substr(pos, len)); { va::LibScope ls; *x.p << s; } x.model.append(src, pos, len); what = "<<ST::string"; }
                else { vrt::Exact<char> e(src.data() + pos, len); { va::LibScope ls; x.p->append(e.data(), len); } x.model.append(src, pos, len); }
                pos += len;
                check_tail(p, 0, added, what);
            }
            ++steps;
            if (x.p->raw_buffer() != last) { last = x.p->raw_buffer(); ++reallocs; p.check_all(sfmt("small step %zu (%s, %zu bytes): buffer moved", steps, what, added)); }
            else if (steps % 2048 == 0) p.check_all(sfmt("small step %zu", steps));
        }
        p.log(sfmt("%zu small steps", steps));
        p.check_all("the last small step");
        vrt::count("scale.small_steps", steps);
        vrt::count("steps", steps);
        if (steps >= 10000) vrt::count("scale.histories_of>=10000_steps");
    } else {
        const unsigned form = static_cast<unsigned>(r.below(8));
        static const char *const names[] = {"append(ptr,n)", "append_char", "<<std::string", "<<string_view", "<<ST::string", "<<u8string", "<<const char*", "append(const char*)"};
        const S src = rand_bytes(r, T, form >= 6);
        const char *last = x.p->raw_buffer();
        switch (form) {
        case 0: { vrt::Exact<char> e(src.data(), T); va::LibScope ls; x.p->append(e.data(), T); x.model += src; break; }
        case 1: { { va::LibScope ls; x.p->append_char(src[0], T); } x.model.append(T, src[0]); break; }
        case 2: { S copy(src); { va::LibScope ls; *x.p << copy; } x.model += src; break; }
        case 3: { vrt::Exact<char> e(src.data(), T); { va::LibScope ls; *x.p << std::string_view(e.data(), T); } x.model += src; break; }
        case 4: { ST::string s = vrt::mk(src); { va::LibScope ls; *x.p << s; } x.model += src; break; }
        case 5: { std::u8string s(reinterpret_cast<const char8_t *>(src.data()), T); { va::LibScope ls; *x.p << s; } x.model += src; break; }
        default: { vrt::Exact<char> e(src.data(), T, true); { va::LibScope ls; if (form == 6) *x.p << e.data(); else x.p->append(e.data()); } x.model += src; break; }
        }
        if (x.p->raw_buffer() != last) ++reallocs;
        const std::string d = sfmt("%s of %zu bytes", names[form], T);
        p.log(d);
        p.check_all(d);
        vrt::count("scale.huge_single_appends");
        vrt::count("steps");
    }
    note_size(x.model.size());
    if (x.model.size() == capacity_of(x)) vrt::count("scale.stream_exactly_full");

    // what follows on the big stream: numbers into the nearly full buffer, moves, truncate / erase and regrowth, many big streams at once
    for (int round = 0; round < 7; ++round) {
        const unsigned op = static_cast<unsigned>(r.below(6));
        std::string d;
        if (!x.p) p.make(x);
        switch (op) {
        case 0: {           // fill up to the last k bytes of the buffer, then insert numbers
            const size_t cap = capacity_of(x), k = r.below(24);
            if (cap >= x.model.size() + k && cap - k - x.model.size() <= (1u << 22)) {
                const size_t n = cap - k - x.model.size();
                const char c = static_cast<char>('A' + r.below(26));
                { va::LibScope ls; x.p->append_char(c, n); }
                x.model.append(n, c);
                check_tail(p, 0, n, "fill up");
            }
            const size_t cap_before = capacity_of(x), room = cap_before - x.model.size();
            S all;
            for (int m = 1 + static_cast<int>(r.below(3)); m-- > 0;) { const S want = insert_number(*x.p, r); x.model += want; all += want; all += ' '; vrt::count("scale.number_into_nearly_full_stream"); }
            if (capacity_of(x) != cap_before) vrt::count("scale.number_grew_buffer");
            d = sfmt("numbers %sinto a stream of %zu bytes with room for %zu", all.c_str(), x.model.size(), room);
            break;
        }
        case 1: case 2: {   // moves of the big stream into / over other streams
            const size_t j = 1 + r.below(Pool::N - 1);
            Slot &y = p.s[j];
            const unsigned tgt = static_cast<unsigned>(r.below(4));         // 0: construct, 1: over an empty stream, 2: over a small heap stream, 3: over a big one
            if (tgt == 0) {
                p.kill(y);
                void *mem = malloc(sizeof(SS));
                va::LibScope ls;
                y.p = new (mem) SS(std::move(*x.p));
            } else {
                p.make(y);
                if (tgt >= 2) {
                    const size_t n = tgt == 2 ? 300 + r.below(400) : scale::length(r, 1u << 19, 4096);
                    y.model = rand_bytes(r, n);
                    va::LibScope ls;
                    y.p->append(y.model.data(), n);
                }
                va::LibScope ls;
                *y.p = std::move(*x.p);
            }
            y.model = x.model;
            x.model.clear();
            d = sfmt("ss%zu %s move(ss0 holding %zu bytes)", j, tgt == 0 ? "constructed from" : tgt == 1 ? "(empty) =" : tgt == 2 ? "(small heap) =" : "(big) =", y.model.size());
            p.check_all(d);
            vrt::count("scale.moves_of_big_streams");
            // both are used again: the moved-from one grows from nothing, the other one continues
            const S more = rand_bytes(r, r.chance(1, 2) ? 10 + r.below(600) : scale::length(r, 1u << 18, 1024));
            { va::LibScope ls; x.p->append(more.data(), more.size()); }
            x.model += more;
            const S tail = rand_bytes(r, 1 + r.below(5000));
            { va::LibScope ls; y.p->append(tail.data(), tail.size()); }
            y.model += tail;
            d += " then appends to both";
            if (r.chance(1, 2)) {       // and back
                va::LibScope ls;
                *x.p = std::move(*y.p);
                x.model = y.model;
                y.model.clear();
                d += ", moved back";
            }
            break;
        }
        case 3: case 4: {   // back to small (or to a grid offset), then grow again
            const size_t n = x.model.size();
            static const size_t small[] = {0, 1, 15, 255, 256, 257, 1024};
            size_t z = r.chance(1, 2) ? r.pick(small) : scale::offset_any(r, n);
            if (z > n) z = n;
            const bool er = r.chance(1, 2);
            { va::LibScope ls; if (er) x.p->erase(n - z); else x.p->truncate(z); }
            x.model.resize(z);
            d = sfmt("%s from %zu to %zu bytes", er ? "erase" : "truncate", n, z);
            p.check_all(d);
            const size_t T2 = scale::length(r, std::min<size_t>(CAP, 1u << 21), 4096);
            const S src = rand_bytes(r, T2);
            if (r.chance(1, 2)) {
                va::LibScope ls;
                x.p->append(src.data(), T2);
            } else {
                const size_t piece = 1 + T2 / (200 + r.below(800));
                for (size_t pos = 0; pos < T2; pos += piece) { va::LibScope ls; x.p->append(src.data() + pos, std::min(piece, T2 - pos)); }
            }
            x.model += src;
            d += sfmt(", regrown by %zu to %zu", T2, x.model.size());
            vrt::count("scale.truncated_then_regrown");
            break;
        }
        default: {          // several big streams alive at once, one of them destroyed and made again
            size_t made = 0;
            for (size_t j = 1; j < Pool::N; ++j) {
                Slot &y = p.s[j];
                if (y.p && r.chance(1, 2)) continue;
                p.make(y);
                const size_t n = scale::length(r, std::min<size_t>(CAP, 1u << 20), 4096);
                y.model = rand_bytes(r, n);
                { va::LibScope ls; if (r.chance(1, 2)) y.p->append(y.model.data(), n); else *y.p << y.model; }
                ++made;
                note_size(n);
            }
            if (r.chance(1, 2)) { const size_t j = 1 + r.below(Pool::N - 1); p.kill(p.s[j]); d = sfmt("%zu big streams made, ss%zu destroyed", made, j); }
            else d = sfmt("%zu big streams made", made);
            vrt::count("scale.big_streams_made", made);
            break;
        }
        }
        p.log(d);
        p.check_all(d);
        note_size(x.model.size());
        vrt::count("steps");
    }
    if (x.p && x.model.size() <= (1u << 18) && r.chance(1, 2)) {
        const bool valid = to_string_monitor(p, 0);
        vrt::count(valid ? "scale.to_string.valid" : "scale.to_string.invalid");
        p.check_all("to_string");
    }
    vrt::count("scale.growth_cases");
    vrt::count("scale.reallocations_seen", reallocs);
    vrt::distinct(vrt::fnv1a(p.history.data(), p.history.size(), vrt::fnv_u64(g, 983)));
    if (vrt::want_sample("scale_growth")) vrt::sample("scale_growth", p.history.substr(0, 600));
}

// ---- to_string of big content: well-formed text with a multi-byte character on a multiple, or an ill-formed piece there
static void to_string_case(uint64_t i, Rng &r)
{
    const std::vector<size_t> &BL = scale::blocks();
    const uint64_t G = BL.size() * 8 * 4;
    const uint64_t g = (i * 415) % G;
    const size_t B = BL[g % BL.size()];
    size_t q = 1 + (g / BL.size()) % 8;
    const unsigned kind = static_cast<unsigned>((g / (BL.size() * 8)) % 4);        // bit 0: measured from the end, bit 1: ill-formed
    const bool from_end = kind & 1, bad = kind & 2;
    const size_t CAP = vrt::opt().scale < 1.0 ? (1u << 17) : (1u << 20);
    if (B > CAP) { vrt::count("scale.skipped_too_large"); return; }
    if (B * q > CAP) q = 1 + (q - 1) % (CAP / B);
    const size_t dist = q * B;
    static const char *const good[] = {"\xC3\xA9", "\xDF\xBF", "\xE2\x82\xAC", "\xEF\xBF\xBD", "\xF0\x9F\x98\x80", "\xF4\x8F\xBF\xBF"};
    static const char *const ill[] = {"\x80", "\xC3", "\xE2\x82", "\xF0\x9F\x98", "\xF8", "\xFF", "\xC3\x41", "\xBF\xBF", "\xE2\x41\x82", "\xF0\x9F\x41", "\xED\xA0", "\xC0"};
    const S piece = bad ? r.pick(ill) : r.pick(good);
    const size_t w = piece.size(), back = r.below(w + 1);
    const long nd = r.chance(1, 6) ? scale::nudge(r) : 0;
    const size_t margin = pick_margin(r);
    size_t prefix, suffix;
    if (!from_end) { prefix = static_cast<size_t>(std::max<long>(0, static_cast<long>(dist) - static_cast<long>(back) + nd)); suffix = r.chance(1, 4) && bad ? 0 : margin; }
    else { prefix = margin; suffix = static_cast<size_t>(std::max<long>(0, static_cast<long>(dist) + static_cast<long>(back) - static_cast<long>(w) + nd)); }
    S content = valid_prefill(r, prefix);
    const size_t at = content.size();
    content += piece;
    content += valid_prefill(r, suffix);
    Pool p;
    p.log(sfmt("scale to_string: %zu bytes, %s piece %s with %zu of its bytes before %s %zu x %zu%+ld", content.size(), bad ? "ill-formed" : "multi-byte", vrt::hex(piece.data(), w).c_str(), back,
               from_end ? "end -" : "start +", q, B, nd));
    Slot &x = p.s[0];
    p.make(x);
    const unsigned how = static_cast<unsigned>(r.below(3));
    if (how == 0) { va::LibScope ls; x.p->append(content.data(), content.size()); }
    else {
        const size_t chunk = how == 1 ? B : 1 + r.below(5000);
        for (size_t pos = 0; pos < content.size(); pos += chunk) { va::LibScope ls; x.p->append(content.data() + pos, std::min(chunk, content.size() - pos)); }
    }
    x.model = content;
    p.check_all("appends");
    const bool valid = to_string_monitor(p, 0);
    p.check_all("to_string");
    vrt::count(valid ? "scale.to_string.valid" : "scale.to_string.invalid");
    vrt::count(valid ? "op.to_string.valid" : "op.to_string.invalid");
    vrt::count("scale.to_string_cases");
    note_size(content.size());
    vrt::count("steps");
    vrt::distinct(vrt::fnv1a(content.data(), content.size(), vrt::fnv_u64(g, 991)));
    if (vrt::want_sample("scale_to_string")) vrt::sample("scale_to_string", sfmt("%s | content %s", p.history.c_str(), scale::brief(content, at).c_str()));
}

} // namespace sc

// ================================================================ history phases: soak, source placement
// soak: ONE stream used as a builder for several hundred thousand consecutive content-changing calls inside one case, with the
// shadow model compared after every call (size, storage class, the bytes just written) and in full - raw_buffer(), size(), one or
// several to_string() calls - at check points whose distances, counted in content-changing calls, are exact multiples of 256 and
// 65536 (and next to them) as well as random.  source placement: appends whose source lies right behind the stream object (or
// right behind its heap buffer) in memory.
namespace hist {

enum { K_DEFAULT, K_ASSUME, K_SUBST, K_CHECK, K_LATIN1, N_KINDS };
static const char *const KIND_CALL[] = {"to_string()", "to_string(true, assume_valid)", "to_string(true, substitute_invalid)", "to_string(true, check_validity)", "to_string(false)"};
static const char *const KIND_KEY[] = {"", "to_string:assume_valid", "to_string:substitute_invalid", "to_string:check_validity", "to_string:latin1"};

// what the conversions of the current content must give (computed once per check point, only what is asked for)
struct Expect {
    const S &m;
    int valid = -1;
    bool have_clean = false, have_latin = false;
    S clean, latin;
    explicit Expect(const S &model) : m(model) { }
    bool ok() { if (valid < 0) valid = ref::utf8_ok(m) ? 1 : 0; return valid == 1; }
    const S &cleaned() { if (!have_clean) { clean = ref::cleanup_utf8(m); have_clean = true; } return clean; }
    const S &latin1() { if (!have_latin) { latin.reserve(m.size() * 2); for (unsigned char ch : m) ref::enc_utf8(latin, ch); have_latin = true; } return latin; }
};

// ONE to_string() call of one kind, compared with the model
static void one_to_string(Pool &p, unsigned kind, Expect &e, const std::string &when)
{
    SS &ss = *p.s[0].p;
    S out;
    bool threw = false;
    {
        va::LibScope ls;
        try {
            ST::string t = kind == K_DEFAULT ? ss.to_string() : kind == K_LATIN1 ? ss.to_string(false)
                         : ss.to_string(true, kind == K_ASSUME ? ST::assume_valid : kind == K_SUBST ? ST::substitute_invalid : ST::check_validity);
            va::HarnessScope hs;
            out.assign(t.c_str(), t.size());
        } catch (const ST::unicode_error &) { threw = true; }
    }
    unsigned eff = kind;
    if (kind == K_DEFAULT) { const ST::utf_validation_t dv = ST_DEFAULT_VALIDATION; eff = dv == ST::assume_valid ? K_ASSUME : dv == ST::substitute_invalid ? K_SUBST : K_CHECK; }
    const S *want = nullptr;
    switch (eff) {
    case K_ASSUME: want = &e.m; break;
    case K_SUBST: want = &e.cleaned(); break;
    case K_CHECK: if (e.ok()) want = &e.m; break;           // (ill-formed content: the call must throw)
    default: want = &e.latin1(); break;
    }
    vrt::evals();
    vrt::count("soak.to_string_calls");
    if (want ? (threw || out != *want) : !threw)
        p.fail(KIND_KEY[eff], sfmt("%s %s: %s, expected %s; content %s", KIND_CALL[kind], when.c_str(),
                                   threw ? "threw ST::unicode_error" : sfmt("returned %zu bytes (first difference from the expected text at byte %zu)", out.size(), want ? scale::first_diff(out, *want) : static_cast<size_t>(0)).c_str(),
                                   want ? sfmt("%zu bytes", want->size()).c_str() : "ST::unicode_error", scale::brief(e.m).c_str()));
}

enum { G_MIXED, G_EXACT, G_APPENDS };
struct Gap { uint32_t n; unsigned mode; };        // mode: any calls / content-changing calls only / content-growing calls only

static void soak_case(uint64_t idx, Rng &r)
{
    const bool small = vrt::opt().scale < 1.0;            // (valgrind run)
    const bool soup = idx % 4 == 3;                       // any bytes instead of text
    Pool p;
    Slot &x = p.s[0];
    p.make(x);
    SS &ss = *x.p;
    S &m = x.model;
    const S H = sfmt("<<soak-%08x>", static_cast<unsigned>(r.next() & 0xFFFFFFFFu));         // every non-empty content starts with these 16 bytes ...
    const S TR = sfmt("<end-%08x/>>", static_cast<unsigned>(r.next() & 0xFFFFFFFFu));        // ... and at the check points it ends with these 16
    S src(static_cast<size_t>(1) << 17, '\0');
    if (soup) src = sc::rand_bytes(r, src.size(), true);
    else for (char &c : src) c = static_cast<char>(0x20 + r.below(0x5F));
    const size_t LIMIT = 30000 + r.below(50000);          // the builder is emptied when it gets bigger than this (sizes beyond 65536 in some cases)
    static const char *const MB[] = {"\xC3\xA9", "\xDF\xBF", "\xE2\x82\xAC", "\xEF\xBF\xBD", "\xF0\x9F\x98\x80", "\xF4\x8F\xBF\xBF"};
    uint64_t mutations = 0, calls = 0, moved = 0;
    const char *last_buf = ss.raw_buffer();

    auto after = [&](size_t added, const char *what) {
        ++mutations;
        ++calls;
        sc::check_tail(p, 0, added, what);
        if (ss.raw_buffer() != last_buf) { last_buf = ss.raw_buffer(); ++moved; p.check_all(sfmt("mutation %llu (%s): buffer moved", static_cast<unsigned long long>(mutations), what)); }
    };
    auto do_append = [&](const char *ptr, size_t n, unsigned form) {
        const char *what;
        switch (form) {
        case 1: { va::LibScope ls; ss << std::string_view(ptr, n); what = "<<string_view"; break; }
        case 2: { vrt::Exact<char> e(ptr, n); { va::LibScope ls; ss.append(e.data(), n); } what = "append(ptr,n) [exact block]"; break; }
        case 3: { ST::string s = vrt::mk(S(ptr, n)); { va::LibScope ls; ss << s; } what = "<<ST::string"; break; }
        case 4: { S s(ptr, n); { va::LibScope ls; ss << s; } what = "<<std::string"; break; }
        default: { va::LibScope ls; ss.append(ptr, n); what = "append(ptr,n)"; break; }
        }
        m.append(ptr, n);
        after(n, what);
    };
    auto do_char = [&]() {
        const char c = soup ? static_cast<char>(r.below(256)) : static_cast<char>(0x20 + r.below(0x5F));
        { va::LibScope ls; if (r.chance(1, 4)) ss << c; else ss.append_char(c); }
        m += c;
        after(1, "append_char");
    };
    auto do_trunc = [&](size_t n) {            // n < size
        { va::LibScope ls; ss.truncate(n); }
        m.resize(n);
        after(0, "truncate(n)");
    };
    auto boundary = [&](size_t n) {            // walk back to the start of a character (not below the header)
        if (!soup && r.chance(7, 8)) while (n > 16 && (static_cast<unsigned char>(m[n]) & 0xC0) == 0x80) --n;
        return n;
    };
    // wide text in caller-side storage that stays where it is and is rewritten in place between the calls: 40 units, the first
    // and the last 16 never change
    std::u16string w16;
    std::u32string w32;
    std::wstring ww;
    for (unsigned k = 0; k < 40; ++k) { const char c = static_cast<char>('a' + r.below(26)); w16 += static_cast<char16_t>(c); w32 += static_cast<char32_t>(c); ww += static_cast<wchar_t>(c); }
    vrt::Exact<char16_t> a16(w16.data(), 40, true);
    vrt::Exact<char32_t> a32(w32.data(), 40, true);
    vrt::Exact<wchar_t> aw(ww.data(), 40, true);
    auto wide_in_place = [&]() {
        static const char32_t wc[] = {0xE9, 0x20AC, 0xFFFD, 'w', 0x7FF, 'Z', '0', 0x100};          // (one unit each in every encoding)
        const unsigned fam = static_cast<unsigned>(r.below(3)), how = static_cast<unsigned>(r.below(3));
        S u8;
        auto rewrite = [&](auto &arr, auto &str) {
            typedef typename std::remove_reference<decltype(str)>::type::value_type T;
            for (unsigned k = 16; k < 24; ++k) { const T c = static_cast<T>(r.pick(wc)); arr.p[k] = c; str[k] = c; }
            for (T c : str) ref::enc_utf8(u8, static_cast<unsigned long>(c));
            va::LibScope ls;
            switch (how) { case 0: ss << arr.data(); break; case 1: ss << std::basic_string_view<T>(arr.data(), 40); break; default: ss << str; break; }
        };
        if (fam == 0) rewrite(a16, w16); else if (fam == 1) rewrite(a32, w32); else rewrite(aw, ww);
        m += u8;
        after(u8.size(), "<<wide text rewritten in place");
        vrt::count("soak.wide_text_rewritten_in_place_at_one_address");
    };
    auto interesting_append = [&]() {
        if (r.chance(1, 2)) wide_in_place();
        else { const char *mb = r.pick(MB); do_append(mb, strlen(mb), static_cast<unsigned>(r.below(5))); }
    };
    // content-changing calls, at most `budget` of them (nearly always one; G_MIXED: sometimes a call that changes nothing, or one that
    // is several calls inside); returns how many
    auto mutate = [&](unsigned mode, uint32_t budget) -> uint32_t {
        const size_t c = m.size();
        const bool mixed = mode == G_MIXED, grow_only = mode == G_APPENDS;
        if (budget >= 70 && c > 0 && r.chance(1, 400)) {
            // a run of 64..300 equal calls, then directly a different one
            const uint32_t run = 64 + static_cast<uint32_t>(r.below(std::min<uint32_t>(237, budget - 65)));
            const char ch = static_cast<char>('a' + r.below(26));
            const bool op = r.chance(1, 2);
            for (uint32_t k = 0; k < run; ++k) { { va::LibScope ls; if (op) ss << ch; else ss.append_char(ch); } m += ch; after(1, "append_char [run of equal calls]"); }
            if (grow_only || c + run <= 17 || r.chance(2, 3)) interesting_append();
            else do_trunc(boundary(16 + r.below(c + run - 16)));
            vrt::count("soak.runs_of_64_or_more_equal_calls_then_a_different_one");
            return run + 1;
        }
        if (mixed && r.chance(1, 6)) {
            ++calls;
            switch (r.below(6)) {
            case 0: { const S want = sc::insert_number(ss, r); m += want; ++mutations; sc::check_tail(p, 0, want.size(), "<<number"); break; }
            case 1: { va::LibScope ls; ss.truncate(c + r.below(3)); break; }
            case 2: { va::LibScope ls; ss.erase(0); break; }
            case 3: { va::LibScope ls; switch (r.below(5)) { case 0: ss.append(src.data(), 0); break; case 1: ss.append_char('x', 0); break; case 2: ss.append(nullptr); break; case 3: ss << static_cast<const char *>(nullptr); break; default: ss << std::string_view(); break; } break; }
            case 4: { va::LibScope ls; SS tmp(std::move(ss)); ss = std::move(tmp); vrt::count("soak.moved_out_and_back"); break; }
            default: { va::LibScope ls; ss << ""; break; }
            }
            sc::check_tail(p, 0, 0, "a call that leaves the content alone");
            if (ss.raw_buffer() != last_buf) { last_buf = ss.raw_buffer(); p.check_all("buffer moved"); }
            return 1;
        }
        if (c == 0) { do_append(H.data(), 16, 0); return 1; }
        if (c > LIMIT && !grow_only) {
            if (r.chance(1, 3)) { { va::LibScope ls; ss.truncate(); } m.clear(); after(0, "truncate()"); vrt::count("soak.emptied"); }
            else do_trunc(boundary(16 + r.below(c - 16)));
            return 1;
        }
        const unsigned u = static_cast<unsigned>(r.below(1000));
        if (u < 700 || (grow_only && u >= 872)) do_char();
        else if (u < 800) {
            if (!soup && r.chance(1, 2)) { const char *mb = r.pick(MB); do_append(mb, strlen(mb), static_cast<unsigned>(r.below(2))); }
            else do_append(src.data() + r.below(src.size() - 8), 1 + r.below(8), static_cast<unsigned>(r.below(2)));
        }
        else if (u < 840) { const char ch = static_cast<char>('A' + r.below(26)); const size_t n = 2 + r.below(5); { va::LibScope ls; ss.append_char(ch, n); } m.append(n, ch); after(n, "append_char(c,n)"); }
        else if (u < 862) do_append(src.data() + r.below(src.size() - 64), 1 + r.below(40), 1 + static_cast<unsigned>(r.below(4)));
        else if (u < 866) wide_in_place();
        else if (u < 872) {
            // wide text: one conversion, one append
            std::u32string cps;
            for (size_t k = 1 + r.below(4); k-- > 0;) { static const char32_t wc[] = {0xE9, 0x20AC, 0x1F600, 'w', 0x7FF, 0x10FFFF}; cps += r.pick(wc); }
            const S u8 = sc::enc8(cps);
            switch (r.below(3)) {
            case 0: { const std::u16string t = sc::enc16(cps); vrt::Exact<char16_t> e(t.data(), t.size(), true); va::LibScope ls; ss << e.data(); break; }
            case 1: { va::LibScope ls; ss << cps; break; }
            default: { const std::wstring w(cps.begin(), cps.end()); va::LibScope ls; ss << std::wstring_view(w); break; }
            }
            m += u8;
            after(u8.size(), "<<wide text");
        }
        else if (u < 935 && c > 16) do_trunc(boundary(c - 1 - r.below(std::min<size_t>(c - 16, 8))));
        else if (u < 965 && c > 16) { const size_t n = boundary(c - 1 - r.below(std::min<size_t>(c - 16, 8))); { va::LibScope ls; ss.erase(c - n); } m.resize(n); after(0, "erase(k)"); }
        else if (u < 966 && c > 17) do_trunc(boundary(16 + r.below(c - 16)));
        else if (u < 967 && r.chance(1, 12)) { { va::LibScope ls; ss.truncate(); } m.clear(); after(0, "truncate()"); vrt::count("soak.emptied"); }
        else do_char();
        return 1;
    };

    // the distances between consecutive check points
    std::vector<Gap> gaps;
    auto add = [&](uint32_t n, unsigned times, unsigned mode) { while (times-- > 0) gaps.push_back(Gap{n, mode}); };
    if (small) { add(65536, 1, G_EXACT); add(256, 3, G_EXACT); add(256, 1, G_APPENDS); add(512, 1, G_EXACT); add(255, 1, G_EXACT); add(257, 1, G_EXACT); }
    else {
        add(65536, 4, G_EXACT); add(65535, 1, G_EXACT); add(65537, 1, G_EXACT); add(131072, 1, G_EXACT); add(256, 8, G_EXACT); add(512, 2, G_EXACT); add(768, 1, G_EXACT); add(1024, 1, G_EXACT); add(4096, 1, G_EXACT);
        add(255, 1, G_EXACT); add(257, 1, G_EXACT); add(65536, 1, G_APPENDS); add(256, 2, G_APPENDS); add(512, 1, G_APPENDS);
        if (vrt::thorough()) add(196608, 1, G_EXACT);
    }
    for (unsigned k = small ? 10 : 30; k-- > 0;) add(1 + static_cast<uint32_t>(r.below(60)), 1, G_MIXED);
    for (unsigned k = small ? 4 : 20; k-- > 0;) add(60 + static_cast<uint32_t>(r.below(small ? 400 : 2000)), 1, G_MIXED);
    for (size_t k = gaps.size(); k > 1; --k) std::swap(gaps[k - 1], gaps[r.below(k)]);
    // the first conversion of a stream that has never been converted comes after exactly 65536 / 256 calls in half of the cases
    if (idx % 4 < 2) for (size_t k = 0; k < gaps.size(); ++k) if (gaps[k].mode == G_EXACT && gaps[k].n == (idx % 4 == 0 ? 65536u : 256u)) { std::swap(gaps[0], gaps[k]); break; }

    p.log(sfmt("soak: one stream, %zu check points, %s, emptied above %zu bytes", gaps.size(), soup ? "arbitrary bytes" : "text", LIMIT));
    unsigned last_kind = static_cast<unsigned>(r.below(N_KINDS));
    bool converted_before = false;
    S prev_content;
    for (size_t gi = 0; gi < gaps.size(); ++gi) {
        const uint32_t gap = gaps[gi].n;
        const unsigned mode = gaps[gi].mode;
        const bool exact = mode != G_MIXED;
        const uint64_t m0 = mutations;
        const size_t s0 = m.size();
        // landing: the content at the next check point has the size, the first 16 and the last 16 bytes of the one at the previous check point
        const bool landing = mode == G_EXACT && gap >= 8 && s0 >= 64 && s0 < 100000 && r.chance(2, 3);
        uint32_t done = 0;
        if (landing) { do_trunc(boundary(16 + r.below(s0 - 40))); ++done; }
        const uint32_t closing = landing ? 3 : gap >= 3 ? 1 : 0;
        while (done + closing < gap) done += mutate(mode, gap - closing - done);
        if (landing) {
            const size_t T = s0 - 16, c = m.size();
            if (c >= T) { do_char(); do_trunc(T); }
            else if (T - c == 1) { do_append(src.data() + r.below(1000), 2, 0); do_trunc(T); }
            else { do_append(src.data() + r.below(src.size() - (T - c)), T - c - 1, static_cast<unsigned>(r.below(3))); do_char(); }
            do_append(TR.data(), 16, 0);
            vrt::count("soak.check_points_with_the_size_head_and_tail_of_the_previous_one");
            if (m.size() != s0) p.fail("harness-self-check", "landing missed its size");
        } else if (closing) do_append(TR.data(), 16, 0);
        const uint64_t d = mutations - m0;
        if (exact && d != gap) p.fail("harness-self-check", sfmt("a distance of %u calls came out as %llu", gap, static_cast<unsigned long long>(d)));
        // the check point
        const std::string when = sfmt("at check point %zu, %llu content-changing calls after %s (%llu in all), %zu bytes", gi, static_cast<unsigned long long>(d),
                                      converted_before ? "the previous to_string()" : "the construction of the stream", static_cast<unsigned long long>(mutations), m.size());
        p.log(when);
        p.check_all(when);
        Expect e(m);
        unsigned kind = (exact || r.chance(2, 3)) ? last_kind : static_cast<unsigned>(r.below(N_KINDS));
        for (unsigned k = 1 + static_cast<unsigned>(r.below(3)); k-- > 0;) {
            if (kind == last_kind && converted_before) vrt::count("soak.same_kind_of_to_string_as_the_call_before");
            one_to_string(p, kind, e, when);
            last_kind = kind;
            converted_before = true;
            if (!r.chance(1, 2)) kind = static_cast<unsigned>(r.below(N_KINDS));
        }
        p.check_all("to_string");
        vrt::count("soak.check_points");
        if (mode == G_APPENDS) vrt::count("soak.check_points_after_content_growing_calls_only");
        if (exact && d % 65536 == 0) vrt::count("soak.check_points_a_multiple_of_65536_calls_after_the_previous_one");
        else if (exact && d % 256 == 0) vrt::count("soak.check_points_a_multiple_of_256_calls_after_the_previous_one");
        if (landing && m == prev_content) vrt::count("soak.landed_on_identical_content");
        if (m.size() > 65536) vrt::count("soak.check_points_with_more_than_65536_bytes");
        prev_content = m;
        vrt::count("steps");
    }
    vrt::count("soak.content_changing_calls", mutations);
    vrt::count("soak.buffer_moves", moved);
    vrt::count("steps", calls);
    if (mutations >= 140000) vrt::count("soak.cases_with_140000_or_more_consecutive_content_changing_calls");
    if (mutations >= 65536) vrt::count("soak.cases_with_65536_or_more_consecutive_content_changing_calls");
    vrt::distinct(vrt::fnv1a(m.data(), m.size(), vrt::fnv_u64(mutations, 1009)));
    if (vrt::want_sample("soak"))
        vrt::sample("soak", sfmt("one stream, %llu content-changing calls (%llu calls) checked one by one, %zu check points (raw_buffer(), size(), to_string()) at distances of 65536, 65535, 65537, 256, 512 ... and random numbers of calls | %s",
                                 static_cast<unsigned long long>(mutations), static_cast<unsigned long long>(calls), gaps.size(), p.history.substr(0, 300).c_str()));
}

// ---- source placement
struct Pair {
    SS out;
    char inbuf[1024];
};
static_assert(sizeof(Pair) == sizeof(SS) + 1024, "no padding between the stream and the array behind it");
static_assert(alignof(Pair) == alignof(SS), "the pair is placed like a stream");

// a Pair in a malloc block of exactly its size, or in an array on the stack; Pool slot 0 watches its stream
struct PairAt {
    Pool &p;
    Pair *pp;
    void *mem;
    PairAt(Pool &pool, void *where) : p(pool), mem(nullptr)
    {
        if (!where) { mem = malloc(sizeof(Pair)); where = mem; }
        if (!where) { fprintf(stderr, "vrt: out of memory\n"); _exit(98); }
        { va::LibScope ls; pp = new (where) Pair; }
        p.s[0].p = &pp->out;
        p.s[0].model.clear();
    }
    ~PairAt()
    {
        p.s[0].p = nullptr;
        p.s[0].model.clear();
        { va::LibScope ls; pp->~Pair(); }
        free(mem);
    }
};

static const char *const SRC_FORM[] = {"append(ptr,n)", "<<string_view", "append(const char*)", "<<const char*", "<<u8string_view"};
// one append whose source is [src, src+n) somewhere in writable memory the harness owns (C-string forms put a NUL behind it for the call)
static void append_from(Pool &p, char *src, size_t n, unsigned form, bool nul_ok, const std::string &what)
{
    Slot &x = p.s[0];
    SS &ss = *x.p;
    const S data(src, n);
    if ((form == 2 || form == 3) && (!nul_ok || memchr(src, 0, n))) form = 0;
    const size_t before = ss.size();
    const char *buf_before = ss.raw_buffer();
    const bool was_inside = x.inside(buf_before);
    char saved = 0;
    if (form == 2 || form == 3) { saved = src[n]; src[n] = 0; }
    {
        va::LibScope ls;
        switch (form) {
        case 1: ss << std::string_view(src, n); break;
        case 2: ss.append(src); break;
        case 3: ss << static_cast<const char *>(src); break;
        case 4: ss << std::u8string_view(reinterpret_cast<const char8_t *>(src), n); break;
        default: ss.append(src, n); break;
        }
    }
    if (form == 2 || form == 3) src[n] = saved;
    x.model += data;
    const std::string d = sfmt("%s: %s of %zu bytes to a stream of %zu", what.c_str(), SRC_FORM[form], n, before);
    p.log(d);
    p.check_all(d);
    vrt::count("steps");
    if (ss.raw_buffer() != buf_before) vrt::count(was_inside ? "placement.appends_that_grow_the_stream_out_of_its_object" : "placement.appends_that_grow_the_heap_buffer");
}
static void append_outside(Pool &p, Rng &r, size_t n)
{
    if (!n) return;
    Slot &x = p.s[0];
    const S data = sc::rand_bytes(r, n, true);
    vrt::Exact<char> e(data.data(), n);
    { va::LibScope ls; x.p->append(e.data(), n); }
    x.model += data;
}

// prefix of P bytes (in-object), then the append that grows the stream out of its object with its source at `origin` + k inside
// the array behind the stream, then appends from there that cross 512, 1024 and 2048
static void behind_object_run(Rng &r, bool heap, size_t P, size_t k, size_t L1, unsigned form)
{
    Pool p;
    alignas(Pair) char raw[sizeof(Pair)];
    PairAt at(p, heap ? nullptr : raw);
    Pair &pr = *at.pp;
    Slot &x = p.s[0];
    if (pr.inbuf != reinterpret_cast<char *>(&pr.out) + sizeof(SS)) { vrt::count("placement.unexpected_layout"); return; }
    { const S fill = sc::rand_bytes(r, sizeof(pr.inbuf), true); memcpy(pr.inbuf, fill.data(), sizeof(pr.inbuf)); }
    char *const end = pr.inbuf + sizeof(pr.inbuf);
    p.log(sfmt("source placement: stream %s, %zu bytes in the in-object buffer, source %zu bytes behind the end of the object", heap ? "in a heap block" : "on the stack", P, k));
    append_outside(p, r, P);
    p.check_all("prefix");
    char *src = pr.inbuf + k;
    if (src + L1 > end) L1 = static_cast<size_t>(end - src);
    const bool grows = P + L1 > ST_STACK_STRING_SIZE;
    append_from(p, src, L1, form, src + L1 < end, "source right behind the stream");
    if (grows) {
        vrt::count("placement.first_append_from_behind_the_stream_crosses_256");
        if (k == 0) vrt::count("placement.source_starts_exactly_at_the_end_of_the_stream");
    }
    static const size_t marks[] = {512, 1024, 2048};
    static const size_t offs[] = {0, 1, 2, 3, 7, 8, 9, 15, 16, 17, 33, 64};
    for (size_t M : marks) {
        const size_t cur = x.model.size();
        if (cur >= M) continue;
        const size_t k2 = r.chance(1, 2) ? k : r.pick(offs);
        char *s2 = pr.inbuf + k2;
        const size_t room = static_cast<size_t>(end - s2);
        const size_t over = 1 + r.below(3);                                       // how far beyond the mark the append goes
        const size_t a = r.below(std::min(room - over, M - cur) + 1);            // how much of it lies below the mark
        append_outside(p, r, M - cur - a);                                        // (the rest comes from elsewhere)
        append_from(p, s2, a + over, static_cast<unsigned>(r.below(5)), s2 + a + over < end, sfmt("source behind the stream, crossing %zu", M));
        vrt::count(sfmt("placement.append_from_behind_the_stream_crosses_%zu", M));
    }
    vrt::count("placement.runs_behind_the_object");
    vrt::count(heap ? "placement.pairs_in_a_heap_block" : "placement.pairs_on_the_stack");
    if (vrt::want_sample("source_placement")) vrt::sample("source_placement", p.history.substr(0, 500));
}

// The stream's heap buffer with the source directly behind it: a block of cap + 1024 bytes is handed to the replaced operator new
// as a parked block of cap bytes, so that the stream's next buffer of that size is its first part; the append from behind it that
// makes the stream grow again releases the buffer while the source is still needed - the release is parked, not freed.
static void behind_heap_buffer_run(Rng &r, size_t cap, size_t k, unsigned form)
{
    Pool p;
    Slot &x = p.s[0];
    p.make(x);
    SS &ss = *x.p;
    const size_t TAIL = 1024;
    char *mem = static_cast<char *>(malloc(cap + TAIL));
    if (!mem) return;
    { const S fill = sc::rand_bytes(r, TAIL, true); memcpy(mem + cap, fill.data(), TAIL); }
    // in-object content, then one append that asks for a buffer of exactly cap bytes: the block is handed over right before it
    const size_t P0 = r.below(ST_STACK_STRING_SIZE + 1);
    append_outside(p, r, P0);
    const size_t lo = std::max<size_t>(cap / 2 + 1, ST_STACK_STRING_SIZE + 1);
    const size_t target = lo + r.below(cap - lo + 1);
    va::NewPool &np = va::new_pool();
    const bool big = cap > va::NewPool::SMALL_MAX;
    const size_t slot = big ? 0 : cap % va::NewPool::SLOTS;
    void *&sp = big ? np.bptr[slot] : np.ptr[slot];
    size_t &ssz = big ? np.bsize[slot] : np.size[slot];
    {
        const S data = sc::rand_bytes(r, target - P0, true);
        vrt::Exact<char> e(data.data(), data.size());
        if (sp) { va::pool_unpoison(sp, ssz); free(sp); }
        sp = mem;
        ssz = cap;
        va::pool_poison(mem, cap);
        { va::LibScope ls; ss.append(e.data(), data.size()); }
        x.model += data;
    }
    p.check_all("growth into the prepared block");
    if (ss.raw_buffer() != mem) {
        vrt::count("placement.prepared_block_not_taken");
        if (sp == mem) { va::pool_unpoison(mem, cap); sp = nullptr; ssz = 0; free(mem); }
        return;
    }
    // fill up to a few bytes below the capacity, then the append from right behind the buffer that makes it grow
    const size_t room_left = r.below(40);
    if (cap - room_left > x.model.size()) append_outside(p, r, cap - room_left - x.model.size());
    char *src = mem + cap + k;
    const size_t L = cap - x.model.size() + 1 + r.below(std::min<size_t>(TAIL - k - (cap - x.model.size()) - 1, 300));
    p.log(sfmt("source placement: heap buffer of %zu bytes holding %zu, source %zu bytes behind its end", cap, x.model.size(), k));
    vrt::placement_force_parks() = 1;
    append_from(p, src, L, form, src + L < mem + cap + TAIL, "source right behind the heap buffer");
    vrt::placement_force_parks() = 0;
    vrt::count("placement.appends_from_right_behind_the_heap_buffer_that_grow_it");
    if (k == 0) vrt::count("placement.source_starts_exactly_at_the_end_of_the_heap_buffer");
    // (the block now belongs to the allocation pool; the bytes behind its first part stay readable until it is evicted)
    if (vrt::want_sample("source_placement_heap")) vrt::sample("source_placement_heap", p.history.substr(0, 500));
}

// source in a block that sits at the address of the buffer the stream has just given up
static void former_buffer_run(Rng &r, size_t cap)
{
    Pool p;
    Slot &x = p.s[0];
    p.make(x);
    SS &ss = *x.p;
    const size_t lo = std::max<size_t>(cap / 2 + 1, ST_STACK_STRING_SIZE + 1);
    append_outside(p, r, lo + r.below(cap - lo + 1));
    const char *old = ss.raw_buffer();
    if (x.inside(old) || sc::capacity_of(x) != cap) return;
    // grow once more: the old buffer is released (parked), the harness's source block of the same size takes its address
    vrt::placement_force_parks() = 1;
    append_outside(p, r, cap - x.model.size() + 1 + r.below(20));
    vrt::placement_force_parks() = 0;
    p.check_all("growth");
    char *src = new char[cap];
    { const S fill = sc::rand_bytes(r, cap, true); memcpy(src, fill.data(), cap); }
    if (src == old) vrt::count("placement.source_at_the_address_of_the_buffer_the_stream_gave_up");
    p.log(sfmt("source placement: source in a block of %zu bytes %s the stream's previous buffer", cap, src == old ? "at the address of" : "(not at the address of)"));
    size_t pos = 0;
    for (int round = 0; round < 3 && pos < cap; ++round) {
        const size_t n = round == 2 ? cap - pos : 1 + r.below(cap - pos);
        append_from(p, src + pos, n, static_cast<unsigned>(r.below(5)), pos + n < cap, "source where the stream's buffer used to be");
        pos += n;
    }
    delete[] src;
    vrt::count("placement.runs_with_the_source_in_a_recycled_block");
}

static void placement_case(uint64_t i, Rng &r)
{
    const size_t P = static_cast<size_t>(i % (ST_STACK_STRING_SIZE + 1));
    const bool heap = (i / (ST_STACK_STRING_SIZE + 1)) % 2 == 0;
    static const size_t offs[] = {0, 1, 2, 3, 4, 7, 8, 9, 15, 16, 17, 31, 32, 64, 255, 256};
    const size_t cross = ST_STACK_STRING_SIZE + 1 - P;            // the shortest append that leaves the in-object buffer
    unsigned form = static_cast<unsigned>(i % 5);
    for (size_t k : offs) {
        const size_t lens[] = {cross, cross + 1, cross + 7, 256, 2 * ST_STACK_STRING_SIZE + 1 - P, 4 * ST_STACK_STRING_SIZE + 1 - P, 1024 - k};
        size_t last = 0;
        for (size_t L : lens) {
            if (L < cross || L > 1024 - k || L == last) continue;
            last = L;
            behind_object_run(r, heap, P, k, L, form++ % 5);
        }
    }
    // an append that stays inside the object (nothing may happen to it either)
    if (P < ST_STACK_STRING_SIZE) behind_object_run(r, heap, P, r.pick(offs), 1 + r.below(ST_STACK_STRING_SIZE - P), form % 5);
    // the same relation on the heap, and a source at a recycled address
    static const size_t caps[] = {512, 1024, 2048, 4096, 8192, 16384};
    static const size_t hoffs[] = {0, 0, 1, 8, 16, 64};
    behind_heap_buffer_run(r, caps[i % 6], hoffs[(i / 6) % 6], static_cast<unsigned>(r.below(5)));
    former_buffer_run(r, caps[(i / 3) % 5]);
    vrt::count("placement.cases");
    vrt::distinct(vrt::fnv_u64(i, 1013));
}

} // namespace hist

static void body()
{
    ambient::enable(3);
    vrt::require("steps", 100000);
    vrt::require("op.append", 10000);
    vrt::require("op.insert_view", 2000);
    vrt::require("op.insert_integer", 2000);
    vrt::require("op.truncate", 2000);
    vrt::require("op.erase", 1000);
    vrt::require("op.insert_null_pointer", 500);
    vrt::require("op.insert_text_with_U+0000", 500);
    vrt::require("op.move_assign.self", 200);
    vrt::require("op.move_assign.heap<-heap", 200);
    vrt::require("op.move_assign.heap<-obj", 200);
    vrt::require("op.move_assign.obj<-heap", 200);
    vrt::require("op.move_assign.obj<-obj", 200);
    vrt::require("op.move_construct.heap", 200);
    vrt::require("op.move_construct.obj", 200);
    vrt::require("op.to_string.valid", 500);
    vrt::require("op.to_string.invalid", 500);
    vrt::require("growth.crossed_256", 1000);
    vrt::require("growth.crossed_1024", 500);
    vrt::require("moved_from.appended_to", 500);
    const size_t steps = vrt::thorough() ? 120 : 60;
    vrt::phase("histories", vrt::tier_count(40000, 300000), [&](uint64_t, Rng &r) {
        {
            Pool p;
            bool moved[Pool::N] = {};
            for (size_t k = 0; k < steps; ++k) {
                size_t before[Pool::N];
                for (size_t q = 0; q < Pool::N; ++q) before[q] = p.s[q].model.size();
                std::string d = step(p, r);
                if (d.empty()) continue;
                p.log(d);
                p.check_all(d);
                for (size_t q = 0; q < Pool::N; ++q) {
                    size_t a = p.s[q].model.size();
                    if (before[q] <= 256 && a > 256) vrt::count("growth.crossed_256");
                    if (before[q] <= 1024 && a > 1024) vrt::count("growth.crossed_1024");
                    if (moved[q] && a > before[q]) { vrt::count("moved_from.appended_to"); moved[q] = false; }
                }
                if (d.find("move(ss") != std::string::npos) {
                    size_t pos = d.find("move(ss") + 7;
                    size_t src = static_cast<size_t>(d[pos] - '0');
                    if (src < Pool::N) moved[src] = true;
                }
                vrt::count("steps");
            }
            vrt::distinct(vrt::fnv1a(p.history.data(), p.history.size(), 131));
            if (vrt::want_sample("histories")) vrt::sample("histories", p.history.substr(0, 600));
        }
        if (va::reg().live_lib_arrays != 0) {
            vrt::violation("C16:leak-at-quiescence", sfmt("%zu library-owned new[] blocks alive after all streams were destroyed", va::reg().live_lib_arrays));
            va::reg().live_lib_arrays = 0;
        }
    });

    // scale: streams of 4 KiB .. 4 MiB and text arguments of up to 1 Mi units; every case index is a point of the grid
    // block size x multiple 1..8 x (what the distance is measured from) x (overload family / way of growing)
    auto quiescent = [](const std::function<void(uint64_t, Rng &)> &fn) {
        return [fn](uint64_t i, Rng &r) {
            fn(i, r);
            if (va::reg().live_lib_arrays != 0) {
                vrt::violation("C16:leak-at-quiescence", sfmt("%zu library-owned new[] blocks alive after all streams were destroyed", va::reg().live_lib_arrays));
                va::reg().live_lib_arrays = 0;
            }
        };
    };
    vrt::note("scale phases: text arguments of every operator<< / append overload with a multi-unit character straddling or touching q x B units (B from 16 to 1 Mi, q = 1..8) measured from the start of the "
              "argument, from its end and from the start of the stream's buffer; growth of streams to q x B bytes (up to 4 MiB) by 300 .. 30000 small steps or one step, then numbers into the nearly full buffer, moves, "
              "truncate / erase and regrowth, several big streams alive; to_string of big content with a multi-byte character or an ill-formed piece at q x B from either end");
    vrt::require("scale.text_cases", 100);
    vrt::require("scale.text_insertions", 300);
    vrt::require("scale.text_insertions.char/char8_t", 100);
    vrt::require("scale.text_insertions.char16_t", 50);
    vrt::require("scale.text_insertions.char32_t", 50);
    vrt::require("scale.text_insertions.wchar_t", 50);
    vrt::require("scale.character_straddles_multiple", 50);
    vrt::require("scale.surrogate_pair_straddles_multiple", 5);
    vrt::require("scale.argument>64Ki_units", 20);
    vrt::require("scale.text_into_truncated_stream", 50);
    vrt::require("scale.text_insertion_grew_buffer", 100);
    vrt::require("scale.growth_cases", 30);
    vrt::require("scale.small_steps", 20000);
    vrt::require("scale.histories_of>=10000_steps", 3);
    vrt::require("scale.number_grew_buffer", 5);
    vrt::require("scale.huge_single_appends", 10);
    vrt::require("scale.reallocations_seen", 100);
    vrt::require("scale.number_into_nearly_full_stream", 20);
    vrt::require("scale.moves_of_big_streams", 20);
    vrt::require("scale.truncated_then_regrown", 20);
    vrt::require("scale.big_streams_made", 20);
    vrt::require("scale.stream>=64KiB", 50);
    vrt::require("scale.stream>=1MiB", 5);
    vrt::require("scale.to_string_cases", 40);
    vrt::require("scale.to_string.valid", 20);
    vrt::require("scale.to_string.invalid", 20);
    vrt::phase("scale", vrt::tier_count(2016, 40000), quiescent(sc::text_case));
    vrt::phase("scale_growth", vrt::tier_count(336, 6720), quiescent(sc::growth_case));
    vrt::phase("scale_to_string", vrt::tier_count(672, 13440), quiescent(sc::to_string_case));

    // call history inside one process, and where the source of an append lives
    vrt::note("soak phase: one stream per case used as a builder (truncate() and tens of thousands of single-character appends, small pieces, wide text, truncate(n) / erase(k)) for more than 140000 consecutive "
              "content-changing calls (runs of 64..300 equal calls followed directly by a different one; wide text rewritten in place at one address), each checked against the shadow model; raw_buffer(), size() and to_string() (all kinds, often the same kind as the call before) at check points that are exactly 65536, "
              "65535, 65537, 131072, 256, 512 ... and random numbers of content-changing calls apart, two thirds of them with the size, the first 16 and the last 16 bytes of the content at the check point before");
    vrt::require("soak.cases_with_140000_or_more_consecutive_content_changing_calls", 16);
    vrt::require("soak.content_changing_calls", 5000000);
    vrt::require("soak.check_points", 800);
    vrt::require("soak.check_points_a_multiple_of_65536_calls_after_the_previous_one", 64);
    vrt::require("soak.check_points_a_multiple_of_256_calls_after_the_previous_one", 150);
    vrt::require("soak.check_points_after_content_growing_calls_only", 48);
    vrt::require("soak.check_points_with_the_size_head_and_tail_of_the_previous_one", 100);
    vrt::require("soak.same_kind_of_to_string_as_the_call_before", 800);
    vrt::require("soak.to_string_calls", 1500);
    vrt::require("soak.emptied", 100);
    vrt::require("soak.runs_of_64_or_more_equal_calls_then_a_different_one", 5000);
    vrt::require("soak.wide_text_rewritten_in_place_at_one_address", 10000);
    vrt::phase("soak", vrt::thorough() ? 64 : 16, quiescent(hist::soak_case));
    vrt::note("source placement phase: struct { string_stream out; char inbuf[1024]; } in a malloc block of exactly its size and on the stack; for every prefix length 0..256 the append that grows the stream out of "
              "its in-object buffer takes its source from inbuf + {0, 1, 2, 3, 4, 7, 8, 9, 15, 16, 17, 31, 32, 64, 255, 256}, later ones from there cross 512, 1024 and 2048; the same with the source directly behind "
              "the stream's heap buffer (a block of cap + 1024 bytes handed to the replaced operator new as a parked block of cap bytes) and with the source in a block at the address of the buffer the stream has just released");
    vrt::require("placement.cases", 500);
    vrt::require("placement.pairs_in_a_heap_block", 5000);
    vrt::require("placement.pairs_on_the_stack", 5000);
    vrt::require("placement.first_append_from_behind_the_stream_crosses_256", 10000);
    vrt::require("placement.source_starts_exactly_at_the_end_of_the_stream", 1000);
    vrt::require("placement.append_from_behind_the_stream_crosses_512", 3000);
    vrt::require("placement.append_from_behind_the_stream_crosses_1024", 3000);
    vrt::require("placement.append_from_behind_the_stream_crosses_2048", 3000);
    vrt::require("placement.appends_that_grow_the_stream_out_of_its_object", 10000);
    vrt::require("placement.appends_from_right_behind_the_heap_buffer_that_grow_it", 300);
    vrt::require("placement.source_starts_exactly_at_the_end_of_the_heap_buffer", 100);
    vrt::require("placement.source_at_the_address_of_the_buffer_the_stream_gave_up", 100);
    vrt::phase("source_placement", vrt::tier_count(514, 514 * 8), quiescent(hist::placement_case));
}

VRT_MAIN(body)
