// C16 - ST::string_stream content equals the concatenation of everything
// appended, over histories of append / append_char / operator<< / truncate /
// erase / move operations; storage is watched through the allocation registry
// (in-object buffer vs. one exclusive heap block), streams live in exact-size
// heap blocks.
#include "vrt.h"
#include "vrt_alloc.h"
#include "vrt_st.h"
#include "ref_unicode.h"
#include "gen_text.h"
#include <climits>
#include <cfloat>

using vrt::Rng;
using vrt::sfmt;
namespace va = vrt::alloc;
typedef std::string S;
typedef ST::string_stream SS;

struct Slot {
    SS *p = nullptr;
    S model;
    bool inside(const void *q) const
    {
        const char *c = static_cast<const char *>(q), *lo = reinterpret_cast<const char *>(p);
        return c >= lo && c < lo + sizeof(SS);
    }
};

struct Pool {
    static const size_t N = 5;
    Slot s[N];
    S history;
    ~Pool() { for (Slot &x : s) kill(x); }
    void kill(Slot &x)
    {
        if (x.p) { x.p->~SS(); free(x.p); x.p = nullptr; }
        x.model.clear();
    }
    void make(Slot &x)
    {
        kill(x);
        void *mem = malloc(sizeof(SS));
        va::LibScope ls;
        x.p = new (mem) SS();
    }
    void make_from(Slot &x, SS &&src)
    {
        kill(x);
        void *mem = malloc(sizeof(SS));
        va::LibScope ls;
        x.p = new (mem) SS(std::move(src));
    }
    void fail(const char *what, const std::string &detail)
    {
        va::HarnessScope hs;
        vrt::violation(sfmt("C16:%s", what), sfmt("%s | history: %s", detail.c_str(), history.c_str()));
    }
    void log(const std::string &d)
    {
        va::HarnessScope hs;
        if (history.size() < 1500) { history += d; history += "; "; }
        vrt::cur_printf("%s\n", d.c_str());
    }
    void check_all(const std::string &after)
    {
        va::HarnessScope hs;
        size_t heaps = 0;
        const void *seen[N] = {};
        for (size_t i = 0; i < N; ++i) {
            Slot &x = s[i];
            if (!x.p) continue;
            const char *d = x.p->raw_buffer();
            const size_t n = x.p->size();
            if (n != x.model.size()) { fail("size-differs-from-model", sfmt("stream %zu size()=%zu model=%zu after %s", i, n, x.model.size(), after.c_str())); continue; }
            if (x.inside(d)) {
                if (n > ST_STACK_STRING_SIZE) fail("in-object-buffer-overfull", sfmt("stream %zu size=%zu", i, n));
            } else {
                va::Block *b = va::find(d);
                if (!b) { fail("buffer-not-a-live-block", sfmt("stream %zu after %s", i, after.c_str())); continue; }
                if (b->size < n || !b->is_array) fail("heap-block-too-small", sfmt("stream %zu size=%zu block=%zu after %s", i, n, b->size, after.c_str()));
                for (size_t k = 0; k < i; ++k) if (seen[k] == d) fail("storage-shared-between-streams", sfmt("streams %zu and %zu after %s", k, i, after.c_str()));
                seen[i] = d;
                ++heaps;
            }
            if (S(d, n) != x.model) {
                size_t k = 0;
                while (k < n && d[k] == x.model[k]) ++k;
                fail("content-differs-from-model", sfmt("stream %zu first difference at byte %zu of %zu after %s", i, k, n, after.c_str()));
            }
        }
        // the stream's buffers are the only array-new blocks the library keeps between steps
        if (va::reg().live_lib_arrays != heaps)
            fail(va::reg().live_lib_arrays > heaps ? "leaked-block" : "missing-block", sfmt("library-owned live new[] blocks=%zu, heap-mode streams=%zu after %s", va::reg().live_lib_arrays, heaps, after.c_str()));
        va::check_pairing("sstream");
        vrt::evals();
    }
};

static S valid_text(Rng &r, size_t maxcp)
{
    S t;
    for (size_t n = r.below(maxcp + 1); n-- > 0;) {
        unsigned long c;
        switch (r.below(5)) {
        case 0: c = 0xE9; break;
        case 1: c = 0x20AC; break;
        case 2: c = 0x1F600 + r.below(50); break;
        default: c = 0x20 + r.below(0x5f); break;
        }
        ref::enc_utf8(t, c);
    }
    return t;
}

static size_t append_len(Rng &r, size_t cur)
{
    // sizes around the in-object capacity and each doubling; single appends spanning several doublings
    static const size_t marks[] = {256, 512, 1024, 2048, 4096};
    switch (r.below(8)) {
    case 0: { size_t m = r.pick(marks); long d = r.range(-2, 2); return (m + d > cur) ? m + d - cur : r.below(8); }
    case 1: return r.pick(marks) + r.below(3) - 1;
    case 2: return 3000 + r.below(6000);
    case 3: return 0;
    default: return r.below(r.chance(1, 4) ? 300 : 40);
    }
}

template <typename T>
static std::basic_string<T> widen(const S &utf8)
{
    ref::Decoded d = ref::decode_utf8(utf8);
    std::basic_string<T> o;
    if constexpr (sizeof(T) == 2) { std::u16string t; ref::to_utf16(d, false, t); o.assign(t.begin(), t.end()); }
    else { std::u32string t; ref::to_utf32(d, false, t); o.assign(t.begin(), t.end()); }
    return o;
}

static std::string step(Pool &p, Rng &r)
{
    size_t i = r.below(Pool::N), j = r.below(Pool::N);
    Slot &x = p.s[i];
    if (!x.p) { p.make(x); return sfmt("ss%zu=new", i); }
    SS &ss = *x.p;
    char d[200];
    d[0] = 0;
    va::LibScope ls;
    switch (r.below(27)) {
    case 26: {
        // null text pointers mean empty text for every pointer overload (and for append with the defaulted size)
        const unsigned form = static_cast<unsigned>(r.below(7));
        switch (form) {
        case 0: ss << static_cast<const char *>(nullptr); break;
        case 1: ss << static_cast<const wchar_t *>(nullptr); break;
        case 2: ss << static_cast<const char16_t *>(nullptr); break;
        case 3: ss << static_cast<const char32_t *>(nullptr); break;
        case 4: ss << static_cast<const char8_t *>(nullptr); break;
        case 5: ss.append(nullptr); break;
        default: ss.append(nullptr, 0); break;
        }
        snprintf(d, sizeof(d), "ss%zu<<null pointer form %u", i, form);
        vrt::count("op.insert_null_pointer");
        break;
    }
    case 0: case 1: case 2: {
        size_t n = append_len(r, x.model.size());
        S data;
        { va::HarnessScope hs; data = gen::any_bytes(r, n); }
        vrt::Exact<char> e(data.data(), data.size());
        ss.append(e.data(), n);
        { va::HarnessScope hs; x.model += data; }
        snprintf(d, sizeof(d), "ss%zu.append(%zu bytes)->%zu", i, n, x.model.size());
        vrt::count("op.append");
        break;
    }
    case 3: {
        S t;
        { va::HarnessScope hs; t = valid_text(r, 20); size_t z = t.find('\0'); if (z != S::npos) t.erase(z); }
        vrt::Exact<char> e(t.data(), t.size(), true);
        if (r.chance(1, 2)) ss.append(e.data()); else ss << e.data();
        { va::HarnessScope hs; x.model += t; }
        snprintf(d, sizeof(d), "ss%zu<<cstr[%zu]", i, t.size());
        break;
    }
    case 4: {
        size_t n = r.chance(1, 3) ? append_len(r, x.model.size()) : r.below(20);
        char c = static_cast<char>(r.below(256));
        if (n == 1 && r.chance(1, 2)) ss << c; else ss.append_char(c, n);
        { va::HarnessScope hs; x.model.append(n, c); }
        snprintf(d, sizeof(d), "ss%zu.append_char(%02x,%zu)->%zu", i, static_cast<unsigned char>(c), n, x.model.size());
        vrt::count("op.append_char");
        break;
    }
    case 5: {
        static const long long vals[] = {0, 1, -1, 9, 10, -10, INT_MAX, INT_MIN, LONG_MAX, LONG_MIN, 4294967296LL, -4294967296LL, 1234567890123LL};
        long long v = r.chance(1, 2) ? r.pick(vals) : static_cast<long long>(r.next() >> r.below(64)) * (r.chance(1, 2) ? 1 : -1);
        S want;
        switch (r.below(6)) {
        case 0: ss << static_cast<int>(v); want = sfmt("%d", static_cast<int>(v)); break;
        case 1: ss << static_cast<unsigned int>(v); want = sfmt("%u", static_cast<unsigned int>(v)); break;
        case 2: ss << static_cast<long>(v); want = sfmt("%ld", static_cast<long>(v)); break;
        case 3: ss << static_cast<unsigned long>(v); want = sfmt("%lu", static_cast<unsigned long>(v)); break;
        case 4: ss << v; want = sfmt("%lld", v); break;
        default: ss << static_cast<unsigned long long>(v); want = sfmt("%llu", static_cast<unsigned long long>(v)); break;
        }
        { va::HarnessScope hs; x.model += want; }
        snprintf(d, sizeof(d), "ss%zu<<int %s", i, want.c_str());
        vrt::count("op.insert_integer");
        break;
    }
    case 6: {
        static const double vals[] = {0.0, -0.0, 1.5, -2.25, 1e100, 1e-100, DBL_MAX, DBL_MIN, 123456789.0, 0.1, INFINITY, NAN};
        double v = r.pick(vals);
        S want;
        if (r.chance(1, 2)) { ss << v; want = sfmt("%g", v); }
        else { float f = static_cast<float>(v); ss << f; want = sfmt("%g", static_cast<double>(f)); }
        { va::HarnessScope hs; x.model += want; }
        snprintf(d, sizeof(d), "ss%zu<<float %s", i, want.c_str());
        break;
    }
    case 7: case 8: case 9: {
        // wide / STL text: valid text; views are sub-ranges of a larger buffer (no terminator at their end)
        S t, pre, post;
        { va::HarnessScope hs; t = valid_text(r, r.chance(1, 4) ? 150 : 12); pre = valid_text(r, 3); post = "TAIL" + valid_text(r, 3); }
        const unsigned form = static_cast<unsigned>(r.below(15));
        bool cstr_form = form < 4;
        // sized forms (STL strings, views, ST::string) carry U+0000 like any other character
        if (!cstr_form && r.chance(1, 4)) { va::HarnessScope hs; for (size_t k = 1 + r.below(3); k-- > 0;) { size_t at = r.below(t.size() + 1); while (at < t.size() && (static_cast<unsigned char>(t[at]) & 0xC0) == 0x80) ++at; t.insert(at, 1, '\0'); } vrt::count("op.insert_text_with_U+0000"); }
        if (cstr_form) { va::HarnessScope hs; S c; for (char ch : t) if (ch) c += ch; t = c; }
        std::wstring w, wall; std::u16string u16, u16all; std::u32string u32, u32all; std::u8string u8, u8all; S sall;
        {
            va::HarnessScope hs;
            w = widen<wchar_t>(t); u16 = widen<char16_t>(t); u32 = widen<char32_t>(t); u8.assign(reinterpret_cast<const char8_t *>(t.data()), t.size());
            wall = widen<wchar_t>(pre) + w + widen<wchar_t>(post); u16all = widen<char16_t>(pre) + u16 + widen<char16_t>(post); u32all = widen<char32_t>(pre) + u32 + widen<char32_t>(post);
            u8all = std::u8string(reinterpret_cast<const char8_t *>(pre.data()), pre.size()) + u8 + std::u8string(reinterpret_cast<const char8_t *>(post.data()), post.size());
            sall = pre + t + post;
        }
        const size_t o8 = pre.size(), ow = widen<wchar_t>(pre).size(), o16 = widen<char16_t>(pre).size();
        switch (form) {
        case 0: ss << w.c_str(); break;
        case 1: ss << u16.c_str(); break;
        case 2: ss << u32.c_str(); break;
        case 3: ss << u8.c_str(); break;
        case 4: ss << w; break;
        case 5: ss << u16; break;
        case 6: ss << u32; break;
        case 7: ss << u8; break;
        case 8: ss << std::string(t); break;
        case 9: ss << std::string_view(sall).substr(o8, t.size()); break;
        case 10: ss << std::wstring_view(wall).substr(ow, w.size()); break;
        case 11: ss << std::u16string_view(u16all).substr(o16, u16.size()); break;
        case 12: ss << std::u32string_view(u32all).substr(ow, u32.size()); break;
        case 13: ss << std::u8string_view(u8all).substr(o8, u8.size()); break;
        default: ss << vrt::mk(t); break;
        }
        { va::HarnessScope hs; x.model += t; }
        snprintf(d, sizeof(d), "ss%zu<<text form %u [%zu bytes]", i, form, t.size());
        vrt::count(form >= 9 && form <= 13 ? "op.insert_view" : "op.insert_text");
        break;
    }
    case 10: case 11: {
        size_t n;
        switch (r.below(5)) {
        case 0: n = 0; break;
        case 1: n = x.model.size(); break;
        case 2: n = x.model.size() + 1 + r.below(10); break;
        case 3: { static const size_t m[] = {255, 256, 257, 511, 512, 513}; n = r.pick(m); break; }
        default: n = r.below(x.model.size() + 1); break;
        }
        ss.truncate(n);
        if (n < x.model.size()) x.model.resize(n);
        snprintf(d, sizeof(d), "ss%zu.truncate(%zu)", i, n);
        vrt::count("op.truncate");
        break;
    }
    case 12: {
        size_t n = r.chance(1, 4) ? x.model.size() + r.below(3) : r.below(x.model.size() + 1);
        ss.erase(n);
        x.model.resize(n < x.model.size() ? x.model.size() - n : 0);
        snprintf(d, sizeof(d), "ss%zu.erase(%zu)", i, n);
        vrt::count("op.erase");
        break;
    }
    case 13: ss.truncate(); x.model.clear(); snprintf(d, sizeof(d), "ss%zu.truncate()", i); break;
    case 14: case 15: case 16: {
        // move assignment in every storage mode of source and target
        Slot &y = p.s[j];
        if (!y.p) { va::HarnessScope hs; p.make(y); }
        bool th = !x.inside(ss.raw_buffer()), sh = !y.inside(y.p->raw_buffer());
        if (i == j) {
            // self-move: the stream may keep its content or end up empty (a moved-from stream is a valid empty stream) -
            // nothing else; the structural monitors then look at it like at any other stream
            SS &self = ss;
            ss = std::move(self);
            { va::HarnessScope hs; if (ss.size() == 0) x.model.clear(); }
            snprintf(d, sizeof(d), "ss%zu(%s)=move(ss%zu) [self]", i, th ? "heap" : "obj", i);
            vrt::count("op.move_assign.self");
            break;
        }
        ss = std::move(*y.p);
        { va::HarnessScope hs; x.model = y.model; y.model.clear(); }
        snprintf(d, sizeof(d), "ss%zu(%s)=move(ss%zu(%s))", i, th ? "heap" : "obj", j, sh ? "heap" : "obj");
        vrt::count(sfmt("op.move_assign.%s<-%s", th ? "heap" : "obj", sh ? "heap" : "obj"));
        break;
    }
    case 17: case 18: {
        // move construction into another slot
        Slot &y = p.s[j];
        if (i == j) break;
        bool sh = !x.inside(ss.raw_buffer());
        {
            va::HarnessScope hs;
            p.kill(y);
        }
        void *mem = malloc(sizeof(SS));
        y.p = new (mem) SS(std::move(ss));
        { va::HarnessScope hs; y.model = x.model; x.model.clear(); }
        snprintf(d, sizeof(d), "ss%zu=SS(move(ss%zu(%s)))", j, i, sh ? "heap" : "obj");
        vrt::count(sh ? "op.move_construct.heap" : "op.move_construct.obj");
        break;
    }
    case 19: { va::HarnessScope hs; p.kill(x); snprintf(d, sizeof(d), "destroy ss%zu", i); vrt::count("op.destroy"); break; }
    default: {
        // to_string in both interpretations and all validation modes
        const S &m = x.model;
        const bool valid = ref::utf8_ok(m);
        auto got = [&](bool utf8, ST::utf_validation_t v, bool &threw) {
            S out;
            threw = false;
            try { ST::string t = ss.to_string(utf8, v); va::HarnessScope hs; out.assign(t.c_str(), t.size()); }
            catch (const ST::unicode_error &) { threw = true; }
            return out;
        };
        bool threw;
        S a = got(true, ST::assume_valid, threw);
        if (threw || a != m) p.fail("to_string:assume_valid", sfmt("stream %zu", i));
        S b = got(true, ST::substitute_invalid, threw);
        { va::HarnessScope hs; const S w = ref::cleanup_utf8(m); if (threw || b != w) { size_t k = 0; while (k < b.size() && k < w.size() && b[k] == w[k]) ++k;
            p.fail("to_string:substitute_invalid", sfmt("stream %zu threw=%d got %zu bytes, want %zu; first difference at %zu: got %s want %s", i, threw, b.size(), w.size(), k,
                                                         vrt::hex(b.data() + k, std::min<size_t>(12, b.size() - k)).c_str(), vrt::hex(w.data() + (k > 4 ? k - 4 : 0), std::min<size_t>(16, w.size() - (k > 4 ? k - 4 : 0))).c_str())); } }
        S c = got(true, ST::check_validity, threw);
        if (valid ? (threw || c != m) : !threw) p.fail("to_string:check_validity", sfmt("stream %zu valid=%d threw=%d", i, valid, threw));
        S l = got(false, ST::assume_valid, threw);
        { va::HarnessScope hs; S want; for (unsigned char ch : m) ref::enc_utf8(want, ch); if (threw || l != want) p.fail("to_string:latin1", sfmt("stream %zu", i)); }
        if (valid) { bool t2; S e = got(true, ST::check_validity, t2); (void)e; }
        snprintf(d, sizeof(d), "ss%zu.to_string x4 (valid=%d)", i, valid);
        vrt::count(valid ? "op.to_string.valid" : "op.to_string.invalid");
        break;
    }
    }
    return d;
}

static void body()
{
    vrt::require("steps", 100000);
    vrt::require("op.append", 10000);
    vrt::require("op.insert_view", 2000);
    vrt::require("op.insert_integer", 2000);
    vrt::require("op.truncate", 2000);
    vrt::require("op.erase", 1000);
    vrt::require("op.insert_null_pointer", 500);
    vrt::require("op.insert_text_with_U+0000", 500);
    vrt::require("op.move_assign.self", 200);
    vrt::require("op.move_assign.heap<-heap", 200);
    vrt::require("op.move_assign.heap<-obj", 200);
    vrt::require("op.move_assign.obj<-heap", 200);
    vrt::require("op.move_assign.obj<-obj", 200);
    vrt::require("op.move_construct.heap", 200);
    vrt::require("op.move_construct.obj", 200);
    vrt::require("op.to_string.valid", 500);
    vrt::require("op.to_string.invalid", 500);
    vrt::require("growth.crossed_256", 1000);
    vrt::require("growth.crossed_1024", 500);
    vrt::require("moved_from.appended_to", 500);
    const size_t steps = vrt::thorough() ? 120 : 60;
    vrt::phase("histories", vrt::tier_count(40000, 300000), [&](uint64_t, Rng &r) {
        {
            Pool p;
            bool moved[Pool::N] = {};
            for (size_t k = 0; k < steps; ++k) {
                size_t before[Pool::N];
                for (size_t q = 0; q < Pool::N; ++q) before[q] = p.s[q].model.size();
                std::string d = step(p, r);
                if (d.empty()) continue;
                p.log(d);
                p.check_all(d);
                for (size_t q = 0; q < Pool::N; ++q) {
                    size_t a = p.s[q].model.size();
                    if (before[q] <= 256 && a > 256) vrt::count("growth.crossed_256");
                    if (before[q] <= 1024 && a > 1024) vrt::count("growth.crossed_1024");
                    if (moved[q] && a > before[q]) { vrt::count("moved_from.appended_to"); moved[q] = false; }
                }
                if (d.find("move(ss") != std::string::npos) {
                    size_t pos = d.find("move(ss") + 7;
                    size_t src = static_cast<size_t>(d[pos] - '0');
                    if (src < Pool::N) moved[src] = true;
                }
                vrt::count("steps");
            }
            vrt::distinct(vrt::fnv1a(p.history.data(), p.history.size(), 131));
            if (vrt::want_sample("histories")) vrt::sample("histories", p.history.substr(0, 600));
        }
        if (va::reg().live_lib_arrays != 0) {
            vrt::violation("C16:leak-at-quiescence", sfmt("%zu library-owned new[] blocks alive after all streams were destroyed", va::reg().live_lib_arrays));
            va::reg().live_lib_arrays = 0;
        }
    });
}

VRT_MAIN(body)
