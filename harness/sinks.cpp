// C17 - all output sinks emit the same bytes for the same format call:
// ST::format vs ST::printf(FILE*) vs ST::writef(narrow / wchar_t / char16_t /
// char32_t streams) vs ST::format_latin_1, stream insertion and extraction.
#include "vrt.h"
#include <sys/mman.h>
#include <unistd.h>
#include "vrt_alloc.h"
#include "vrt_st.h"
#include "ref_format.h"
#include "gen_text.h"
#include "gen_scale.h"
#include "ambient.h"
#include <sstream>
#include <iomanip>

using vrt::Rng;
using vrt::sfmt;
using namespace fmtref;

static std::string show(const S &s) { return vrt::hex(s.data(), s.size(), 1, 100); }
template <typename T> static std::string showw(const std::basic_string<T> &s) { return vrt::hex(s.data(), s.size(), sizeof(T), 60); }

static S latin1_to_utf8(const S &b)
{
    S o;
    for (unsigned char c : b) ref::enc_utf8(o, c);
    return o;
}

static bool ascii(const S &s)
{
    for (unsigned char c : s) if (c & 0x80) return false;
    return true;
}

template <typename CT>
static std::basic_string<CT> transcode(const S &utf8)
{
    ref::Decoded d = ref::decode_utf8(utf8);
    std::basic_string<CT> out;
    if constexpr (sizeof(CT) == 2) {
        std::u16string t;
        ref::to_utf16(d, false, t);
        out.assign(t.begin(), t.end());
    } else {
        std::u32string t;
        ref::to_utf32(d, false, t);
        out.assign(t.begin(), t.end());
    }
    return out;
}

// ST::writef is specified by its bytes alone ("byte-identical to ST::format"): whatever formatting state the destination
// stream carries (a pending width, a fill character, adjustment and numeric flags) must not show in the output.  One case
// in three hands writef a stream in such a state.
template <typename OS>
static void dress_stream(OS &os, const S &fmt, int shape)
{
    uint64_t h = vrt::fnv1a(fmt.data(), fmt.size(), static_cast<uint64_t>(shape) + 977);
    if (h % 3 != 0) return;
    h /= 3;
    static const int widths[] = {1, 5, 12, 40};
    os.width(widths[h % 4]); h /= 4;
    // (libstdc++ has no ctype facet for char16_t/char32_t: basic_ios::fill() itself throws std::bad_cast there)
    if constexpr (sizeof(typename OS::char_type) == 1 || std::is_same<typename OS::char_type, wchar_t>::value)
        os.fill(static_cast<typename OS::char_type>("*0 _"[h % 4]));
    h /= 4;
    switch (h % 3) { case 0: os.setf(std::ios_base::left, std::ios_base::adjustfield); break; case 1: os.setf(std::ios_base::internal, std::ios_base::adjustfield); break; default: break; }
    h /= 3;
    if (h & 1) os.setf(std::ios_base::hex, std::ios_base::basefield);
    if (h & 2) os.setf(std::ios_base::showbase | std::ios_base::uppercase);
    if (h & 4) os.setf(std::ios_base::boolalpha | std::ios_base::showpos);
    if (h & 8) os.precision(3);
    vrt::count("writef.stream_with_pending_state");
}

// big results are reported by length, hash and the bytes around the first difference
static std::string diff_note(const S &got, const S &want)
{
    if (got.size() <= 2000 && want.size() <= 2000) return std::string();
    const size_t d = scale::first_diff(got, want);
    return sfmt(" [first difference at byte %zu: got %s want %s]", d, scale::brief(got, d).c_str(), scale::brief(want, d).c_str());
}
template <typename CT>
static std::string diff_notew(const std::basic_string<CT> &got, const std::basic_string<CT> &want)
{
    if (got.size() <= 2000 && want.size() <= 2000) return std::string();
    size_t d = 0;
    while (d < got.size() && d < want.size() && got[d] == want[d]) ++d;
    const size_t lo = d > 6 ? d - 6 : 0;
    return sfmt(" [%zu units, want %zu; first difference at unit %zu: got ..%s want ..%s]", got.size(), want.size(), d,
                vrt::hex(got.data() + std::min(lo, got.size()), std::min<size_t>(12, got.size() - std::min(lo, got.size())), sizeof(CT)).c_str(),
                vrt::hex(want.data() + std::min(lo, want.size()), std::min<size_t>(12, want.size() - std::min(lo, want.size())), sizeof(CT)).c_str());
}

template <typename CT>
static void wide_sink(const char *name, int shape, const Values &v, const char *fmt, const S &want8, const std::string &ctx)
{
    std::basic_ostringstream<CT> os;
    dress_stream(os, S(fmt), shape);
    vrt::evals();
    try {
        call_shape_x(shape, v, fmt, nullptr, [&](const char *f, auto &&...a) { ST::writef(os, f, a...); });
    } catch (const std::exception &e) {
        vrt::violation(sfmt("C17:writef<%s>:threw:%s", name, vrt::demangle(typeid(e).name()).c_str()), ctx + " " + e.what());
        return;
    }
    std::basic_string<CT> got = os.str(), want = transcode<CT>(want8);
    if constexpr (sizeof(CT) == 2) {
        // libstdc++'s char_traits<char16_t>::to_int_type maps U+FFFF to U+FFFD because it collides
        // with eof(): the stream, not string_theory, rewrites that unit - not comparable
        if (want.find(static_cast<CT>(0xFFFF)) != std::basic_string<CT>::npos) { vrt::count("skipped.u16_stream_cannot_hold_FFFF"); return; }
    }
    if (got != want)
        vrt::violation(sfmt("C17:writef<%s>:differs-from-format", name), sfmt("%s got=%s want=%s%s", ctx.c_str(), showw(got).c_str(), showw(want).c_str(), diff_notew(got, want).c_str()));
    if (!os.good()) vrt::violation(sfmt("C17:writef<%s>:stream-failed", name), ctx);
}

// history phases: the order of the sinks (rotated), and a lighter sink_case for the soak (the two sinks that need a file
// descriptor of their own - a real file, standard output - are tried on every eighth call only)
static unsigned g_sink_rotation = 0;
static bool g_light_sinks = false;
static unsigned g_light_turn = 0;

static void sink_case(int shape, const Values &v, const S &fmt)
{
    vrt::Exact<char> f(fmt.data(), fmt.size(), true);
    vrt::cur_rewind();
    vrt::cur_printf("shape=%d fmt=%s\n", shape, show(fmt).c_str());
    std::vector<Arg> args;
    call_shape_x(shape, v, "", &args, [](const char *, auto &&...) {});
    std::string ctx = fmt.size() > 2000 ? sfmt("shape=%d fmt: %s (starts: \"%s\") args: %s", shape, scale::brief(fmt).c_str(), vrt::json_escape(fmt.substr(0, 60)).c_str(), describe_values(args).c_str())
                                        : sfmt("shape=%d fmt=\"%s\" args: %s", shape, vrt::json_escape(fmt).c_str(), describe_values(args).c_str());
    // reference output: ST::format itself (C11 checks it against the specification)
    // (when the bytes are not valid UTF-8 - a pad byte >= 0x80, say - the validating ST::format throws, but
    // ST::format(assume_valid, ...) still yields them, and the sinks that do not validate must emit exactly those bytes)
    S want, raw;
    bool bytes_only = false;
    vrt::evals(2);
    try {
        call_shape_x(shape, v, f.data(), nullptr, [&](const char *fs, auto &&...a) {
            ST::string q = ST::format(ST::assume_valid, fs, a...);
            raw.assign(q.c_str(), q.size());
        });
    } catch (const std::exception &) {
        vrt::count("format.failed");        // compared only when ST::format succeeds
        return;
    }
    try {
        call_shape_x(shape, v, f.data(), nullptr, [&](const char *fs, auto &&...a) {
            ST::string r = ST::format(fs, a...);
            want.assign(r.c_str(), r.size());
        });
        if (raw != want) vrt::violation("C17:format(assume_valid)-differs-from-format", ctx);
    } catch (const ST::unicode_error &) {
        if (ref::utf8_ok(raw)) vrt::violation("C17:format:unicode_error-on-valid-output", ctx);
        bytes_only = true;
        want = raw;
        vrt::count("format.bytes_not_valid_utf8");
    } catch (const std::exception &e) {
        vrt::violation(sfmt("C17:format:threw-after-assume_valid-succeeded:%s", vrt::demangle(typeid(e).name()).c_str()), ctx);
        return;
    }
    // FILE* sink
    const auto memory_file_sink = [&] {
        char *mem = nullptr;
        size_t msz = 0;
        FILE *fp = open_memstream(&mem, &msz);
        vrt::evals();
        bool threw = false;
        try {
            call_shape_x(shape, v, f.data(), nullptr, [&](const char *fs, auto &&...a) { ST::printf(fp, fs, a...); });
        } catch (const std::exception &e) {
            threw = true;
            vrt::violation(sfmt("C17:printf:threw:%s", vrt::demangle(typeid(e).name()).c_str()), ctx + " " + e.what());
        }
        fclose(fp);
        if (!threw && S(mem, msz) != want)
            vrt::violation("C17:printf:differs-from-format", sfmt("%s got=%s want=%s%s", ctx.c_str(), show(S(mem, msz)).c_str(), show(want).c_str(), diff_note(S(mem, msz), want).c_str()));
        free(mem);
    };
    // one case in four: a real file opened for writing whose sticky error indicator was set by an earlier failed read
    // (it still accepts writes): the sink's output is specified by its bytes, not by the stream's flags
    const auto real_file_sink = [&] {
        if (vrt::fnv1a(fmt.data(), fmt.size(), 0x51) % 4 != 0 || (g_light_sinks && g_light_turn % 8 != 0)) return;
        const std::string path = vrt::opt().outdir + sfmt("/w%d.sink", vrt::opt().worker);
        FILE *fp = fopen(path.c_str(), "w");
        if (!fp) { fprintf(stderr, "vrt: cannot create %s\n", path.c_str()); _exit(98); }
        (void)fgetc(fp);
        const bool flagged = ferror(fp) != 0;
        vrt::evals();
        bool threw = false;
        try {
            call_shape_x(shape, v, f.data(), nullptr, [&](const char *fs, auto &&...a) { ST::printf(fp, fs, a...); });
        } catch (const std::exception &e) {
            threw = true;
            vrt::violation(sfmt("C17:printf(file with error indicator):threw:%s", vrt::demangle(typeid(e).name()).c_str()), ctx + " " + e.what());
        }
        fclose(fp);
        S got;
        if (FILE *in = fopen(path.c_str(), "r")) { char buf[4096]; size_t k; while ((k = fread(buf, 1, sizeof(buf), in)) > 0) got.append(buf, k); fclose(in); }
        unlink(path.c_str());
        if (!threw && got != want)
            vrt::violation("C17:printf(file with error indicator):differs-from-format", sfmt("%s got=%s want=%s%s", ctx.c_str(), show(got).c_str(), show(want).c_str(), diff_note(got, want).c_str()));
        if (flagged) vrt::count("printf.file_with_error_indicator");
    };
    // the overload without a FILE*: standard output, captured through a memory file put in place of descriptor 1
    const auto stdout_sink = [&] {
        if (g_light_sinks && g_light_turn % 8 != 0) return;
        vrt::evals();
        bool threw = false;
        S got;
        fflush(stdout);
        const int saved = dup(1), mfd = memfd_create("vrt-stdout", 0);
        if (saved < 0 || mfd < 0 || dup2(mfd, 1) < 0) { fprintf(stderr, "vrt: cannot redirect stdout\n"); _exit(98); }
        try {
            call_shape_x(shape, v, f.data(), nullptr, [&](const char *fs, auto &&...a) { ST::printf(fs, a...); });
        } catch (const std::exception &e) {
            threw = true;
            fflush(stdout);
            dup2(saved, 1);
            vrt::violation(sfmt("C17:printf(stdout):threw:%s", vrt::demangle(typeid(e).name()).c_str()), ctx + " " + e.what());
        }
        fflush(stdout);
        dup2(saved, 1);
        close(saved);
        const off_t n = lseek(mfd, 0, SEEK_END);
        if (n > 0) { got.resize(static_cast<size_t>(n)); if (pread(mfd, &got[0], got.size(), 0) != n) got.clear(); }
        close(mfd);
        if (!threw && got != want)
            vrt::violation("C17:printf(stdout):differs-from-format", sfmt("%s got=%s want=%s%s", ctx.c_str(), show(got).c_str(), show(want).c_str(), diff_note(got, want).c_str()));
        vrt::count("printf.stdout_captured");
    };
    // narrow stream sink
    const auto narrow_stream_sink = [&] {
        std::ostringstream os;
        dress_stream(os, fmt, shape);
        vrt::evals();
        try {
            call_shape_x(shape, v, f.data(), nullptr, [&](const char *fs, auto &&...a) { ST::writef(os, fs, a...); });
            if (os.str() != want)
                vrt::violation("C17:writef<char>:differs-from-format", sfmt("%s got=%s want=%s%s", ctx.c_str(), show(os.str()).c_str(), show(want).c_str(), diff_note(os.str(), want).c_str()));
        } catch (const std::exception &e) {
            vrt::violation(sfmt("C17:writef<char>:threw:%s", vrt::demangle(typeid(e).name()).c_str()), ctx + " " + e.what());
        }
    };
    // the _stfmt literal formatter (validates like ST::format)
    const auto stfmt_sink = [&] {
        if (bytes_only) return;
        vrt::evals();
        try {
            S got;
            call_shape_x(shape, v, f.data(), nullptr, [&](const char *fs, auto &&...a) {
                ST::string r = ST::literals::operator""_stfmt(fs, strlen(fs))(a...);
                got.assign(r.c_str(), r.size());
            });
            if (got != want) vrt::violation("C17:_stfmt:differs-from-format", sfmt("%s got=%s want=%s%s", ctx.c_str(), show(got).c_str(), show(want).c_str(), diff_note(got, want).c_str()));
        } catch (const std::exception &e) {
            vrt::violation(sfmt("C17:_stfmt:threw:%s", vrt::demangle(typeid(e).name()).c_str()), ctx + " " + e.what());
        }
    };
    // Latin-1 reading of the same bytes
    const auto latin_1_sink = [&] {
        vrt::evals();
        try {
            S got;
            call_shape_x(shape, v, f.data(), nullptr, [&](const char *fs, auto &&...a) { ST::string r = ST::format_latin_1(fs, a...); got.assign(r.c_str(), r.size()); });
            if (got != latin1_to_utf8(raw))
                vrt::violation("C17:format_latin_1:differs", sfmt("%s got=%s want=%s%s", ctx.c_str(), show(got).c_str(), show(latin1_to_utf8(raw)).c_str(), diff_note(got, latin1_to_utf8(raw)).c_str()));
        } catch (const std::exception &e) {
            vrt::violation(sfmt("C17:format_latin_1:threw:%s", vrt::demangle(typeid(e).name()).c_str()), ctx + " " + e.what());
        }
    };
    const auto wide_stream_sinks = [&] {
        if (bytes_only) return;
        if (want.size() >= 65536) vrt::count("scale.wide_sinks_transcoded_a_result>=64KiB");
        wide_sink<wchar_t>("wchar_t", shape, v, f.data(), want, ctx);
        wide_sink<char16_t>("char16_t", shape, v, f.data(), want, ctx);
        wide_sink<char32_t>("char32_t", shape, v, f.data(), want, ctx);
    };
    // (the history phases rotate the order in which the sinks are tried; the verdicts do not depend on it)
    for (unsigned q = 0; q < 7; ++q)
        switch ((q + g_sink_rotation) % 7) {
        case 0: memory_file_sink(); break;
        case 1: real_file_sink(); break;
        case 2: stdout_sink(); break;
        case 3: narrow_stream_sink(); break;
        case 4: stfmt_sink(); break;
        case 5: latin_1_sink(); break;
        default: wide_stream_sinks(); break;
        }
    ++g_light_turn;
    vrt::count("format.compared");
    if (!ascii(want)) vrt::count("format.non_ascii_output");
    if (want.size() > 300) vrt::count("format.long_output");
    vrt::distinct(vrt::fnv1a(want.data(), want.size(), vrt::fnv1a(fmt.data(), fmt.size(), static_cast<uint64_t>(shape) + 111)));
    if (vrt::want_sample("sinks") && want.size() > 12 && want.size() < 400 && fmt.size() < 400 && !ascii(want)) vrt::sample("sinks", sfmt("%s -> \"%s\" through format/printf/writef<char,wchar_t,char16_t,char32_t>/format_latin_1", ctx.c_str(), vrt::json_escape(want).c_str()));
}

// The sinks are specified chunk by chunk (a wide sink transcodes every piece it is handed by itself), so a precision may
// only cut a text argument between two characters: a cut inside a multi-byte character moves back to its first byte.
// char8_t {c} emits a raw byte: kept ASCII for the same reason.  (Same rules as the "formats" phase.)
static void fix_for_sinks(ScaleFmt &sf, const std::vector<Arg> &args)
{
    size_t seq = 0;
    for (Field &f : sf.fields) {
        const size_t idx = f.argref ? static_cast<size_t>(f.argref - 1) : seq++;
        if (idx >= args.size()) continue;
        const Arg &a = args[idx];
        if (a.kind == Arg::Text && f.precision >= 0 && static_cast<size_t>(f.precision) < a.text.size()) {
            size_t p = static_cast<size_t>(f.precision);
            while (p > 0 && (static_cast<unsigned char>(a.text[p]) & 0xC0) == 0x80) --p;
            if (p != static_cast<size_t>(f.precision)) { f.precision = static_cast<int>(p); vrt::count("scale.precision_moved_back_to_a_character_boundary"); }
        }
        if (a.kind == Arg::Char8 && f.cls == 'c' && a.u >= 0x80) f.cls = 0;
    }
}

// ---------------------------------------------------------------- stream insertion / extraction
template <typename CT>
static void insert_case(const char *name, const S &text)
{
    vrt::Box<ST::string> st(vrt::mk(text));
    std::basic_ostringstream<CT> os;
    vrt::evals();
    os << *st;
    std::basic_string<CT> want;
    if constexpr (sizeof(CT) == 1) want.assign(text.begin(), text.end());
    else want = transcode<CT>(text);
    if constexpr (sizeof(CT) == 2) { if (want.find(static_cast<CT>(0xFFFF)) != std::basic_string<CT>::npos) return; }
    if (os.str() != want)
        vrt::violation(sfmt("C17:operator<<:%s", name), sfmt("text=%s got=%s want=%s", show(text).c_str(), showw(os.str()).c_str(), showw(want).c_str()));
    if (vrt::str_of(*st) != text) vrt::violation("C17:operator<<:changed-its-argument", show(text));
}

template <typename CT>
static void extract_case(const char *name, const std::vector<unsigned long> &cps)
{
    std::basic_string<CT> src;
    for (unsigned long c : cps) {
        if constexpr (sizeof(CT) == 1) { S t; ref::enc_utf8(t, c); src.append(t.begin(), t.end()); }
        else src += static_cast<CT>(c);
    }
    std::basic_istringstream<CT> a(src), b(src);
    // the same extraction state on both streams: a field width limits a token, noskipws keeps leading blanks from being skipped
    const uint64_t hstate = vrt::fnv1a(src.data(), src.size() * sizeof(CT), 0x77);
    const int width_for_token[6] = {0, hstate % 5 == 0 ? 3 : 0, hstate % 7 == 0 ? 1 : 0, 0, hstate % 3 == 0 ? 2 : 0, 0};
    if (hstate % 11 == 0) { a >> std::noskipws; b >> std::noskipws; vrt::count("extract.noskipws_streams"); }
    for (int tok = 0; tok < 6; ++tok) {
        std::basic_string<CT> want;
        ST::string got("previous");
        if (width_for_token[tok]) { a.width(width_for_token[tok]); b.width(width_for_token[tok]); vrt::count("extract.tokens_with_width"); }
        a >> want;
        vrt::evals();
        bool rejected = false;
        try { b >> got; } catch (const ST::unicode_error &) { rejected = true; }
        if (rejected) {
            // "subject to the default validation": a width can cut a narrow token inside a multi-byte character
            S cut;
            if constexpr (sizeof(CT) == 1) cut.assign(want.begin(), want.end());
            if (sizeof(CT) != 1 || ref::utf8_ok(cut)) vrt::violation(sfmt("C17:operator>>:%s:unexpected-unicode_error", name), sfmt("source=%s token %d", showw(src).c_str(), tok));
            vrt::count("extract.tokens_rejected_by_validation");
            if (a.fail()) break;
            continue;
        }
        if (a.width() != b.width()) vrt::violation(sfmt("C17:operator>>:%s:width-not-consumed-like-std", name), sfmt("source=%s token %d", showw(src).c_str(), tok));
        S want8;
        if constexpr (sizeof(CT) == 1) want8.assign(want.begin(), want.end());
        else for (CT c : want) ref::enc_utf8(want8, static_cast<unsigned long>(c));
        if (a.fail() != b.fail() || a.eof() != b.eof())
            vrt::violation(sfmt("C17:operator>>:%s:stream-state", name), sfmt("source=%s token %d", showw(src).c_str(), tok));
        if (!a.fail() && vrt::str_of(got) != want8)
            vrt::violation(sfmt("C17:operator>>:%s:wrong-token", name), sfmt("source=%s token %d got=%s want=%s", showw(src).c_str(), tok, show(vrt::str_of(got)).c_str(), show(want8).c_str()));
        if (a.fail()) break;
        vrt::count("extract.tokens");
    }
}

// ---------------------------------------------------------------- "state that survives a call" / "where the data lives"
// (rt/ref_format.h, sections 5-7): formatters that call back into the library, the caller's stack, format strings behind
// foreign bytes, buffers rewritten in place, tens of thousands of consecutive calls in one case - all through sink_case():
// every sink must still emit what ST::format returns.
struct SoakEntry {
    Values v;
    Reent x;
    int shape = 0;
    S fmt;
    int mode = 0;
    size_t slot = 256, align = 0;
    int depth = 0;
    unsigned rot = 0;
};
static void soak_execute(SoakEntry &e)
{
    Placement &pl = placement();
    pl.mode = e.mode; pl.slot = e.slot; pl.depth = e.depth; pl.rot = e.rot; pl.align = e.align;
    ReentScope rs(&e.x);
    sink_case(e.shape, e.v, e.fmt);
}
// a random call as in the "formats" phase, with shorter pad runs
static void random_sink_call(Rng &r, Values &v, int &shape, ScaleFmt &sf)
{
    random_values(r, v);
    shape = static_cast<int>(r.below(NSHAPES));
    std::vector<Arg> args;
    call_shape_x(shape, v, "", &args, [](const char *, auto &&...) {});
    sf.lit(random_literal(r));
    const size_t nf = args.empty() ? 0 : r.below(4);
    for (size_t k = 0; k < nf; ++k) {
        Field f = random_field(r, false);
        if (f.width > 60) f.width = static_cast<int>(1 + r.below(60));
        f.argref = static_cast<int>(1 + r.below(args.size()));
        sf.field(f);
        sf.lit(random_literal(r));
    }
    fix_for_sinks(sf, args);
}
// flavour 0: boring (ASCII only, short); 1: random; 2: interesting
static std::unique_ptr<SoakEntry> soak_entry(Rng &r, int flavour)
{
    std::unique_ptr<SoakEntry> e(new SoakEntry);
    ReentScope rs(&e->x);
    ScaleFmt sf;
    if (flavour == 0) {
        random_values(r, e->v);
        set_all_texts(e->v, compose(r, r.below(20), BG_ASCII_RANDOM));
        static const int shapes[] = {0, 1, 2, 3, 5, 45, 32};
        e->shape = r.pick(shapes);
        sf.lit(compose(r, 1 + r.below(30), BG_ASCII_RANDOM));
        if (e->shape != 0 && r.chance(1, 2)) { sf.field(plain_field(0)); sf.lit(compose(r, r.below(8), BG_ASCII_RANDOM)); }
    } else if (flavour == 1) {
        random_sink_call(r, e->v, e->shape, sf);
        if (r.chance(1, 6)) { e->mode = 3; e->align = r.below(16); }
    } else {
        switch (r.below(5)) {
        case 0: reentrant_case(r, e->v, e->shape, sf); break;
        case 1: { Placement pl; stack_case(r.below(200), r, e->v, e->shape, sf, pl, true); e->mode = 1; e->slot = pl.slot; e->depth = pl.depth; e->rot = pl.rot; break; }
        case 2: {   // the only characters that are not ASCII sit in the last 1..7 bytes of a text of 16 bytes or more (argument or literal)
            random_values(r, e->v);
            const size_t n = 16 + r.below(300), tail = 2 + r.below(6);
            std::vector<Plant> plants{Plant{n - tail, mb_char(r, static_cast<unsigned>(std::min<size_t>(tail, 2 + r.below(3))))}};
            const S t = compose(r, n, BG_ASCII_RANDOM, plants);
            static const int shapes[] = {2, 3, 31, 32, 5, 7, 45, 34, 38, 42, 13, 200};
            e->shape = r.pick(shapes);
            if (r.chance(1, 2)) { set_all_texts(e->v, t); std::vector<Arg> args; call_shape_x(e->shape, e->v, "", &args, [](const char *, auto &&...) {}); sf.lit(random_literal(r)); sf.field(plain_field(static_cast<int>(pick_text_arg(r, args, false) + 1))); }
            else { sf.lit(t); if (r.chance(1, 2)) sf.field(plain_field(1)); }
            break;
        }
        case 3: {   // the last append takes the output across 256 / 512 bytes
            random_values(r, e->v);
            e->shape = 5;
            const size_t C = r.chance(2, 3) ? 256 : 512, P = 1 + r.below(40), B = C - r.below(P);
            set_all_texts(e->v, compose(r, P, BG_ASCII_RANDOM));
            sf.lit(compose(r, B, BG_ASCII_RANDOM)); sf.field(plain_field(r.chance(1, 2) ? 2 : 4));
            break;
        }
        default: {  // pad runs of a few hundred
            random_sink_call(r, e->v, e->shape, sf);
            for (Field &f : sf.fields) if (f.cls != 'c') f.width = static_cast<int>(200 + r.below(400));
            break;
        }
        }
    }
    e->fmt = sf.text();
    return e;
}

static void history_phases()
{
    vrt::note("history phases: (reentrant) argument types whose format_type() calls ST::format / writef / printf itself - two and three of them in one call, trees of depth 2..4 whose nested calls have the "
              "signature of the running call, nested calls that throw and are caught; (stack) format string and text arguments in local arrays of 64 B..8 KiB right above the library's frames, the output "
              "outgrowing 256, 512, ... bytes with one append; (same_storage) format strings and arguments of identical size rewritten in place / rebuilt at the same address; (soak) more than 70000 "
              "consecutive sink calls in one case; (alignment) format strings of 32..200 bytes at every start alignment with braces directly in front of them - all through every sink, tried in rotated order");
    vrt::require("reentrant.cases", 5000);
    vrt::require("reentrant.nested_calls_of_recursive_formatters", 100000);
    vrt::require("reentrant.nested_call_with_the_signature_of_a_running_call", 50000);
    vrt::require("reentrant.nested_call_with_the_signature_of_two_or_more_running_calls", 10000);
    vrt::require("reentrant.nested_call_threw_and_was_caught_in_the_formatter", 10000);
    vrt::require("reentrant.nested_call_through_writef", 10000);
    vrt::require("reentrant.nested_call_through_printf", 10000);
    vrt::require("reentrant.values_with_a_tree_of_depth_4", 500);
    for (int k = 0; k < N_REENT_SHAPES; ++k) vrt::require(sfmt("reentrant.shape.%d", REENT_SHAPES[k]), 200);
    vrt::phase("reentrant", vrt::tier_count(8000, 400000), [&](uint64_t i, Rng &r) {
        PlacementScope ps;
        g_light_sinks = false;
        g_sink_rotation = static_cast<unsigned>(i % 7);
        Values v;
        int shape = 0;
        ScaleFmt sf;
        reentrant_case(r, v, shape, sf);
        sink_case(shape, v, sf.text());
        g_sink_rotation = 0;
        if (vrt::want_sample("reentrant") && sf.len > 10 && sf.len < 60) vrt::sample("reentrant", sfmt("shape %d (formatters that call back into the library), format \"%s\", through all sinks", shape, vrt::json_escape(sf.text()).c_str()));
    });

    vrt::require("stack.cases", 3000);
    vrt::require("stack.calls_with_format_string_and_arguments_in_the_caller's_frame", 30000);
    vrt::require("stack.piece_is_a_text_argument", 1000);
    vrt::require("stack.piece_is_a_literal_run", 400);
    vrt::require("stack.piece_is_the_rendering_of_a_number", 250);
    vrt::require("stack.lowest_array_less_than_4096_bytes_above_the_call", 15000);
    vrt::require("stack.format_string_less_than_4096_bytes_above_the_call", 8000);
    vrt::require("stack.output_crosses_256_bytes_in_one_append", 1000);
    vrt::require("stack.output_crosses_512_bytes_in_one_append", 150);
    vrt::require("stack.output_crosses_8192_bytes_in_one_append", 150);
    vrt::phase("stack", vrt::tier_count(4000, 160000), [&](uint64_t i, Rng &r) {
        PlacementScope ps;
        g_light_sinks = false;
        g_sink_rotation = static_cast<unsigned>(i % 7);
        Values v;
        int shape = 0;
        ScaleFmt sf;
        stack_case(i, r, v, shape, sf, placement(), true);
        std::vector<Arg> args;
        call_shape_x(shape, v, "", &args, [](const char *, auto &&...) {});
        fix_for_sinks(sf, args);
        sink_case(shape, v, sf.text());
        if (r.chance(1, 8)) {
            Values v2;
            ScaleFmt sf2;
            reentrant_case(r, v2, shape, sf2);
            sink_case(shape, v2, sf2.text());
        }
        g_sink_rotation = 0;
    });

    vrt::require("same_storage.cases", 300);
    vrt::require("same_storage.contents", 1200);
    vrt::require("same_storage.format_string_rewritten_in_place", 1000);
    vrt::require("same_storage.argument_buffers_rewritten_in_place", 2500);
    vrt::require("same_storage.ST::string_successors_of_the_same_size", 500);
    vrt::require("same_storage.ST::string_heap_block_at_the_address_of_its_predecessor", 250);
    vrt::require("same_storage.failing_call_between_two_contents", 200);
    vrt::phase("same_storage", vrt::tier_count(440, 13200), [&](uint64_t i, Rng &r) {
        PlacementScope ps;
        g_light_sinks = false;
        static const size_t LS[] = {33, 40, 64, 100, 256, 300, 1024, 1500, 4096, 5000, 16387};
        static const size_t AS[] = {20, 40, 64, 100, 256, 300, 1024, 1500, 4096, 5000};
        const size_t L = LS[i % 11], A = AS[(i / 11) % 10], K = 3 + r.below(4);
        placement().mode = 3;
        placement().align = r.below(16);
        const size_t arg_align = r.below(16);
        CallerTexts ct;
        Values v;
        random_values(r, v);
        static const int shapes[] = {5, 7, 45, 13, 2, 32, 200, 202, 8, 14, 3, 15, 46, 34, 42, 36};
        const int shape = r.pick(shapes);
        std::vector<Arg> args;
        call_shape_x(shape, v, "", &args, [](const char *, auto &&...) {});
        std::vector<ScaleFmt> fmts;
        std::vector<S> texts;
        same_storage_formats(r, args.size(), L, K, true, fmts);
        same_storage_texts(r, A, K, texts);
        for (size_t k = 0; k < K; ++k) {
            g_sink_rotation = static_cast<unsigned>((i + k) % 7);
            ST::string prev(std::move(v.st));
            ct.set(v, texts[k], arg_align);
            succeed_st(v, prev, texts[k]);
            sink_case(shape, v, fmts[k].text());
            vrt::count("same_storage.contents");
            if (r.chance(1, 2)) {       // a call that fails in every sink, from the same buffers (same length: a one-digit argument index becomes 9)
                ScaleFmt bad = fmts[k];
                std::vector<size_t> cand;
                for (size_t q = 0; q < bad.fields.size(); ++q) if (bad.fields[q].argref >= 1 && bad.fields[q].argref <= 8) cand.push_back(q);
                if (!cand.empty() && args.size() < 9) {
                    bad.fields[r.pick(cand)].argref = 9;
                    sink_case(shape, v, bad.text());
                    vrt::count("same_storage.failing_call_between_two_contents");
                }
            }
        }
        g_sink_rotation = 0;
        vrt::count("same_storage.cases");
        if (vrt::want_sample("same_storage") && L == 64)
            vrt::sample("same_storage", sfmt("shape %d: %zu format strings of %zu bytes in one buffer (\"%s\", \"%s\", ...), text arguments of %zu bytes rewritten in place, through all sinks", shape, K, L,
                                             vrt::json_escape(fmts[0].text()).c_str(), vrt::json_escape(fmts[1].text()).c_str(), A));
    });

    vrt::require("soak.cases_with_70000_or_more_consecutive_sink_calls", 16);
    vrt::require("soak.runs_of_64_or_more_equal_calls_then_an_interesting_one", 300);
    vrt::phase("soak", vrt::thorough() ? 64 : 16, [&](uint64_t, Rng &r) {
        PlacementScope ps;
        g_light_sinks = true;                   // (a real file and standard output on every eighth call)
        const size_t M = 40;
        std::vector<std::unique_ptr<SoakEntry>> pool, boring;
        for (size_t k = 0; k < M; ++k) pool.push_back(soak_entry(r, k % 4 == 3 ? 2 : 1));
        for (size_t k = 0; k < 6; ++k) boring.push_back(soak_entry(r, 0));
        const uint64_t evals0 = vrt::st().evaluations;
        uint64_t cases = 0, runs = 0;
        while (vrt::st().evaluations - evals0 < 90000) {
            g_sink_rotation = static_cast<unsigned>(cases % 7);
            if (r.chance(1, 150)) {
                SoakEntry &b = *boring[r.below(boring.size())];
                std::unique_ptr<SoakEntry> next = soak_entry(r, 2);
                const size_t n = 64 + r.below(237);
                for (size_t k = 0; k < n; ++k) soak_execute(b);
                soak_execute(*next);
                cases += n + 1;
                ++runs;
                if (r.chance(1, 4)) boring[r.below(boring.size())] = soak_entry(r, 0);
                pool[r.below(M)] = std::move(next);
            } else {
                soak_execute(*pool[r.below(M)]);
                ++cases;
                if (r.chance(1, 25)) pool[r.below(M)] = soak_entry(r, r.chance(1, 3) ? 2 : 1);
            }
        }
        g_sink_rotation = 0;
        g_light_sinks = false;
        const uint64_t calls = vrt::st().evaluations - evals0;
        vrt::count("soak.sink_calls", calls);
        vrt::count("soak.runs_of_64_or_more_equal_calls_then_an_interesting_one", runs);
        if (calls >= 70000) vrt::count("soak.cases_with_70000_or_more_consecutive_sink_calls");
        if (vrt::want_sample("soak")) vrt::sample("soak", sfmt("%llu consecutive format / printf / writef / format_latin_1 / _stfmt calls (%llu format calls of mixed shapes through the sinks) in one case, "
                                                               "%llu runs of 64..300 equal plain calls each followed by an interesting one", static_cast<unsigned long long>(calls), static_cast<unsigned long long>(cases),
                                                               static_cast<unsigned long long>(runs)));
    });

    vrt::require("alignment.format_strings", 250);
    vrt::require("alignment.calls_with_a_format_string_behind_foreign_bytes", 150000);
    const unsigned usual_budget = vrt::case_cpu_budget();
    vrt::case_cpu_budget() = 10;                // (small cases: a parser that runs away from such a string is stopped early)
    vrt::phase("alignment", vrt::tier_count(255, 20400), [&](uint64_t i, Rng &r) {
        PlacementScope ps;
        g_light_sinks = true;
        Values v;
        random_values(r, v);
        static const int shapes[] = {1, 2, 3, 5, 6, 7, 9, 10, 12, 47, 0, 200};
        const int shape = r.pick(shapes);
        std::vector<Arg> args;
        call_shape_x(shape, v, "", &args, [](const char *, auto &&...) {});
        ScaleFmt sf;
        alignment_format((i * 7) % 1020 + (i / 1020) * 1020, r, args.size(), true, sf);
        fix_for_sinks(sf, args);
        const S fmt = sf.text();
        Placement &pl = placement();
        pl.mode = 2;
        for (size_t a = 0; a < 16; ++a)
            for (int q = 0; q < N_ALIGN_PREFIXES; ++q) {
                pl.align = a;
                pl.prefix = ALIGN_PREFIXES[q];
                pl.fill_with_prefix = ((a + static_cast<size_t>(q) + i) % 2) != 0;
                g_sink_rotation = static_cast<unsigned>((a + static_cast<size_t>(q)) % 7);
                sink_case(shape, v, fmt);
            }
        g_sink_rotation = 0;
        g_light_sinks = false;
    });
    // text ARGUMENTS (const char*, string_view) of 32..96 bytes at every start alignment 0..15, exact end of the block behind them,
    // with their only non-ASCII character at every position of the last 16 bytes (and of the first 16): a sink that checks
    // "is this chunk ASCII?" a word at a time with a wrong prologue / tail for a pointer that is not 8-byte aligned widens the
    // bytes of that character one by one instead of decoding them, while ST::format and the narrow sinks stay right
    vrt::require("arg_alignment.calls", 10000);
    vrt::require("arg_alignment.argument_not_8_byte_aligned", 5000);
    vrt::phase("arg_alignment", vrt::tier_count(130, 1300), [&](uint64_t i, Rng &r) {
        g_light_sinks = true;
        const size_t len = 32 + static_cast<size_t>(i % 65) + (i >= 130 ? 97 * (i / 130) : 0);
        const unsigned width = 2 + static_cast<unsigned>((i / 65) % 3);
        static const char *const mb[] = {"\xc2\xb0", "\xe2\x82\xac", "\xf0\x9f\x98\x80"};
        Values v;
        random_values(r, v);
        for (size_t a = 0; a < 16; ++a) {
            for (size_t k = 0; k < 32; ++k) {
                // position of the character: k < 16 counts back from the end, otherwise forward from the start
                const size_t pos = k < 16 ? len - width - k : k - 16;
                if (pos + width > len) continue;
                S t(len, 'a');
                for (size_t j = 0; j < len; ++j) t[j] = static_cast<char>('a' + (j * 7 + i) % 26);
                t.replace(pos, width, mb[width - 2]);
                set_texts_narrow(v, t);
                char *b1 = static_cast<char *>(malloc(a + len + 1)), *b2 = static_cast<char *>(malloc(a + len));
                if (!b1 || !b2) _exit(98);
                memset(b1, 'z', a); memset(b2, 'z', a);
                memcpy(b1 + a, t.data(), len); b1[a + len] = 0;
                memcpy(b2 + a, t.data(), len);
                v.cstr = b1 + a;
                v.sv = std::string_view(b2 + a, len);
                g_sink_rotation = static_cast<unsigned>((a + k) % 7);
                sink_case(2, v, "{}");
                sink_case(32, v, k % 2 ? "[{}]" : "{}");
                v.cstr = v.text.c_str();
                v.sv = std::string_view(v.svback).substr(1, t.size());
                free(b1); free(b2);
                vrt::count("arg_alignment.calls", 2);
                if (a % 8) vrt::count("arg_alignment.argument_not_8_byte_aligned", 2);
            }
        }
        g_sink_rotation = 0;
        g_light_sinks = false;
    });
    vrt::case_cpu_budget() = usual_budget;
    g_sink_rotation = 0;
    g_light_sinks = false;
}

static void body()
{
    ambient::enable(3);
    vrt::box_shifts() = true;
    vrt::require("format.compared", 5000);
    vrt::require("format.non_ascii_output", 1000);
    vrt::require("format.long_output", 20);
    vrt::require("insert.cases", 1000);
    vrt::require("format.bytes_not_valid_utf8", 200);
    vrt::require("printf.stdout_captured", 5000);
    vrt::require("printf.file_with_error_indicator", 1000);
    vrt::require("insert.with_U+0000", 100);
    vrt::require("writef.stream_with_pending_state", 1000);
    vrt::require("extract.tokens", 1000);
    vrt::require("pad_sweep.lengths", 301);

    vrt::phase("formats", vrt::tier_count(300000, 6000000), [&](uint64_t, Rng &r) {
        Values v;
        random_values(r, v);
        int shape = static_cast<int>(r.below(NSHAPES));
        std::vector<Arg> args;
        call_shape_x(shape, v, "", &args, [](const char *, auto &&...) {});
        S fmt = random_literal(r);
        size_t nf = args.empty() ? 0 : r.below(4), seq = 0;
        for (size_t k = 0; k < nf; ++k) {
            Field f = random_field(r, false);
            // pad bytes >= 0x80 now and then: the output is then compared as bytes with ST::format(assume_valid, ...)
            if (f.padkind == 1 && r.chance(1, 12)) { static const char hi[] = {'\x80', '\xBF', '\xE9', '\xFF', '\xC3'}; f.padc = r.pick(hi); }
            // padding on most fields (the sinks' append_char loops)
            if (f.cls != 'c' && r.chance(3, 4) && !f.width) f.width = static_cast<int>(1 + r.below(r.chance(1, 20) ? 600 : 30));
            if (r.chance(1, 4) && !args.empty()) f.argref = static_cast<int>(1 + r.below(args.size()));
            // a precision cut inside a multi-byte character would make one chunk invalid by itself
            // (chunk-wise transcoding is how the wide sinks are specified): only cut ASCII text
            if (!f.argref && seq >= args.size()) f.argref = static_cast<int>(1 + r.below(args.size()));
            size_t idx = f.argref ? static_cast<size_t>(f.argref - 1) : seq;
            if (!f.argref) ++seq;
            if (idx < args.size() && args[idx].kind == Arg::Text && !ascii(args[idx].text)) f.precision = -1;
            // char8_t {c} emits a raw byte: keep it ASCII for the same reason
            if (idx < args.size() && args[idx].kind == Arg::Char8 && f.cls == 'c' && args[idx].u >= 0x80) f.cls = 0;
            fmt += field_text(f);
            fmt += random_literal(r);
        }
        sink_case(shape, v, fmt);
    });

    // every padding length 0..300 (block-wise fill loops in a sink would show at multiples of the block size)
    vrt::phase("pad_sweep", 301, [&](uint64_t pad, Rng &r) {
        Values v;
        random_values(r, v);
        v.text = "abc"; v.cstr = v.text.c_str(); v.i = -42; v.st = ST::string("xy");
        sink_case(2, v, sfmt("[{>%llu}]", static_cast<unsigned long long>(pad + 3)));
        sink_case(2, v, sfmt("{<%llu}|", static_cast<unsigned long long>(pad + 3)));
        sink_case(1, v, sfmt("{_*%llu}", static_cast<unsigned long long>(pad + 3)));
        sink_case(1, v, sfmt("{0%llu}", static_cast<unsigned long long>(pad + 3)));
        sink_case(5, v, sfmt("{&2_.<%llu}{&1}", static_cast<unsigned long long>(pad + 2)));
        vrt::count("pad_sweep.lengths");
    });

    vrt::phase("insert_extract", vrt::tier_count(150000, 3000000), [&](uint64_t, Rng &r) {
        // valid text of every width class, around the small-string limit
        std::vector<unsigned long> cps;
        size_t n = gen::pick_len(r) % 40;
        const bool with_nul = r.chance(1, 5);     // "all ST::string values": U+0000 is a character like any other
        for (size_t k = 0; k < n; ++k) cps.push_back(r.chance(1, 6) ? ' ' : (with_nul && r.chance(1, 4)) ? 0 : random_cp(r));
        if (with_nul && n) vrt::count("insert.with_U+0000");
        S text;
        for (auto c : cps) ref::enc_utf8(text, c);
        insert_case<char>("char", text);
        insert_case<wchar_t>("wchar_t", text);
        insert_case<char16_t>("char16_t", text);
        insert_case<char32_t>("char32_t", text);
        vrt::count("insert.cases");
        // whitespace-separated tokens
        static const unsigned long seps[] = {' ', ' ', '\t', '\n', ' '};
        std::vector<unsigned long> src;
        for (size_t t = r.below(5); t-- > 0;) {
            for (size_t k = r.below(3); k-- > 0;) src.push_back(r.pick(seps));
            for (size_t k = 1 + r.below(20); k-- > 0;) { unsigned long c = r.chance(1, 25) ? 0 : random_cp(r); src.push_back(c == ' ' ? 'x' : c); }   // tokens may contain U+0000
        }
        for (size_t k = r.below(3); k-- > 0;) src.push_back(r.pick(seps));
        extract_case<char>("char", src);
        extract_case<wchar_t>("wchar_t", src);
        vrt::distinct(vrt::fnv1a(text.data(), text.size(), vrt::fnv1a(src.data(), src.size() * sizeof(unsigned long), 112)));
        if (vrt::want_sample("insert_extract") && text.size() > 10) vrt::sample("insert_extract", "insert text=" + show(text) + " into char/wchar_t/char16_t/char32_t streams; extract whitespace-separated tokens");
    });
    // ---- U+0000 and the precision: a sized string argument is cut to the precision whatever its bytes are, in every sink
    const auto describe_only = [](const char *, auto &&...) {};
    vrt::require("nul_precision.cases", 3000);
    vrt::require("nul_precision.U+0000_inside_the_kept_part_of_a_sized_string", 500);
    vrt::require("nul_precision.U+0000_is_the_last_kept_byte", 300);
    vrt::require("nul_precision.U+0000_is_the_first_cut_byte", 300);
    vrt::require("nul_precision.converted_wide_string", 500);
    vrt::phase("nul_precision", vrt::tier_count(8000, 300000), [&](uint64_t, Rng &r) {
        Values v;
        int shape = 3;
        ScaleFmt sf;
        nul_precision_case(r, v, shape, sf);
        std::vector<Arg> args;
        call_shape_x(shape, v, "", &args, describe_only);
        fix_for_sinks(sf, args);
        sink_case(shape, v, sf.text());
    });

    // ---- scale (rt/ref_format.h, last section): the same monitor (sink_case) on format strings, arguments, renderings and pad
    // runs of several KiB to a MiB: every sink gets single pieces of more than 64 KiB (the wide streams transcode them) with
    // 2-, 3- and 4-byte characters touching / straddling multiples of block sizes, and pad runs of up to 200000
    vrt::note("scale phases: (1) literal runs of up to 400 KiB in which {{ / }} / a field / a stray } / a 2-, 3-, 4-byte character / the end of the string begins q*B-k bytes "
              "(B over scale::blocks(), q in 1..8, k in 0..3) behind the start of the run or of the string, chained; (2) 255..70000 fields in one format string, "
              "argument lists of 9, 17 and 20; (3) text arguments of 1 KB..1 MiB with characters / U+0000 / the precision cut / the end on such multiples, "
              "pad runs of up to 200000 behind texts and numbers, characters on multiples of the output offset - all through every sink");
    static const size_t CAP = 400 * 1024;
    vrt::require("scale.literal.cases", 200);
    vrt::require("scale.literal.token_straddles_a_multiple", 150);
    vrt::require("scale.literal.token_starts_on_a_multiple", 50);
    vrt::require("scale.literal.format_string>=64KiB", 50);
    vrt::require("scale.literal.format_string>=256KiB", 10);
    for (int t = 0; t < N_TOK; ++t) vrt::require(S("scale.literal.token.") + tok_name(t), 30);
    vrt::phase("scale_literals", vrt::tier_count(672, 20160), [&](uint64_t i, Rng &r) {
        const LiteralPlan p = literal_plan(i, N_TOK);
        Values v;
        random_values(r, v);
        static const int shapes[] = {1, 2, 3, 5, 6, 7, 9, 10, 11, 12, 47, 200, 201, 202};
        const int shape = r.pick(shapes);
        std::vector<Arg> args;
        call_shape_x(shape, v, "", &args, describe_only);
        ScaleFmt sf;
        if (!scale_literal_chain(r, p, p.kind, args.size(), CAP, true, sf)) { vrt::count("scale.literal.skipped_too_large"); return; }
        fix_for_sinks(sf, args);
        sink_case(shape, v, sf.text());
        if (vrt::want_sample("scale") && sf.len > 20000)
            vrt::sample("scale", sfmt("format string of %zu bytes, %zu fields: %s begins at offsets %zu.. (block %zu, first multiple %zu, %zu bytes in front of it), through all sinks", sf.len, sf.fields.size(),
                                      tok_name(p.kind), sf.starts.empty() ? 0 : sf.starts[0], p.B, p.q0, p.k0));
    });
    vrt::require("scale.fields.cases", 20);
    vrt::require("scale.fields.more_than_255_fields", 15);
    vrt::require("scale.fields.more_than_65535_fields", 4);
    vrt::require("scale.fields.more_than_16_arguments", 4);
    vrt::require("scale.fields.sequential_field_behind_255_others", 10);
    vrt::phase("scale_fields", vrt::tier_count(48, 1200), [&](uint64_t i, Rng &r) {
        Values v;
        random_values(r, v);
        static const int shapes[] = {200, 201, 202, 5, 47, 1, 10, 12, 200, 202};
        const int shape = r.pick(shapes);
        std::vector<Arg> args;
        call_shape_x(shape, v, "", &args, describe_only);
        ScaleFmt sf;
        scale_many_fields(i, r, args.size(), false, sf);
        fix_for_sinks(sf, args);
        sink_case(shape, v, sf.text());
    });
    vrt::require("scale.args.cases", 200);
    vrt::require("scale.args.whole_text", 30);
    vrt::require("scale.args.precision_cut", 30);
    vrt::require("scale.args.text_with_pad_run", 30);
    vrt::require("scale.args.number_with_pad_run", 30);
    vrt::require("scale.args.pad_run>=65536", 10);
    vrt::require("scale.args.text_of_block_length", 30);
    vrt::require("scale.args.output_offset", 30);
    vrt::require("scale.args.text_argument>=64KiB", 50);
    vrt::require("scale.args.text_argument>=1MB", 3);
    vrt::require("scale.args.character_straddles_a_multiple", 30);
    vrt::require("scale.wide_sinks_transcoded_a_result>=64KiB", 100);
    vrt::phase("scale_args", vrt::tier_count(504, 15120), [&](uint64_t i, Rng &r) {
        Values v;
        ArgCase c;
        scale_arg_case(i, r, v, c, (1u << 20) + 4096, 1u << 21);
        std::vector<Arg> args;
        call_shape_x(c.shape, v, "", &args, describe_only);
        fix_for_sinks(c.f, args);
        sink_case(c.shape, v, c.f.text());
        if (vrt::want_sample("scale-arguments")) vrt::sample("scale-arguments", sfmt("shape %d, format \"%s\": %s, through all sinks", c.shape, vrt::json_escape(c.f.text().substr(0, 80)).c_str(), c.what.c_str()));
    });
    history_phases();
    vrt::alloc::check_pairing("sinks");
}

VRT_MAIN(body)
