// C20 - concurrent use needs no locking.  N threads run seeded programs that
// mix every const operation on SHARED immutable strings / buffers with
// arbitrary operations on thread-local objects, under ThreadSanitizer.  The
// same programs are then run sequentially (after the concurrent round, so a
// lazily initialised table would be initialised concurrently first) and the
// per-thread result digests are compared.  The monitor uses no shared atomics
// during the round (they would add happens-before edges and hide races); real
// overlap is measured from thread-local timestamps merged after join.
#include "vrt.h"
#include "vrt_st.h"
#include "ref_unicode.h"
#include <thread>
#include <cmath>
#include <algorithm>
#include <atomic>
#include <sstream>
#include <time.h>

using vrt::Rng;
using vrt::sfmt;
typedef std::string S;

struct Shared {
    std::vector<ST::string> strs;
    ST::char_buffer cbuf;
    ST::utf16_buffer u16buf;
    ST::utf32_buffer u32buf;
    ST::wchar_buffer wbuf;
};

struct OpStamp {
    uint16_t op;
    uint16_t obj;
    uint64_t t0, t1;
};

struct ThreadOut {
    uint64_t digest = 0xcbf29ce484222325ull;
    uint64_t ops = 0;
    std::vector<OpStamp> stamps;
    std::string error;
};

static inline uint64_t now_ns()
{
    timespec ts;
    clock_gettime(CLOCK_MONOTONIC, &ts);
    return static_cast<uint64_t>(ts.tv_sec) * 1000000000ull + static_cast<uint64_t>(ts.tv_nsec);
}
static inline void mix(uint64_t &d, const void *p, size_t n) { d = vrt::fnv1a(p, n, d); }
static inline void mixv(uint64_t &d, uint64_t v) { d = vrt::fnv_u64(v, d); }
static inline void mixs(uint64_t &d, const ST::string &s) { mix(d, s.c_str(), s.size()); mixv(d, s.size()); }

static const int NOPS = 44;

// one operation of a thread program; shared objects are only read
static void do_op(int op, Rng &r, const Shared &sh, size_t oi, uint64_t &d)
{
    const ST::string &s = sh.strs[oi];
    const ST::string &t = sh.strs[(oi + 1 + r.below(sh.strs.size() - 1)) % sh.strs.size()];
    switch (op) {
    // ---- const operations on shared objects
    case 0: mixv(d, static_cast<uint64_t>(s.find(t)) + static_cast<uint64_t>(s.find("a")) + static_cast<uint64_t>(s.find_last('a')) + s.contains(t, ST::case_insensitive)); break;
    case 1: mixv(d, static_cast<uint64_t>(s.compare(t)) + static_cast<uint64_t>(s.compare_i(t)) + (s == t) + (s < t) + s.starts_with(t) + s.ends_with("z")); break;
    case 2: mixv(d, ST::hash()(s) ^ ST::hash_i()(t) ^ std::hash<ST::string>()(s)); break;
    case 3: mixs(d, s.substr(static_cast<ST_ssize_t>(r.below(s.size() + 1)), r.below(20))); mixs(d, s.left(5)); mixs(d, s.right(7)); break;
    case 4: mixs(d, s.trim()); mixs(d, s.trim_left("a ")); mixs(d, s.before_first(',')); mixs(d, s.after_last(' ')); break;
    case 5: { auto v = s.split(','); for (auto &p : v) mixs(d, p); auto w = s.tokenize(" ,"); mixv(d, w.size()); break; }
    case 6: mixs(d, s.replace("a", "<A>")); mixs(d, s.replace(t, ST::string("-"))); break;
    case 7: mixs(d, s.to_upper()); mixs(d, t.to_lower()); break;
    case 8: { auto b = s.to_utf16(); mix(d, b.data(), b.size() * 2); auto c = s.to_utf32(); mix(d, c.data(), c.size() * 4); break; }
    case 9: { auto b = s.to_wchar(); mix(d, b.data(), b.size() * sizeof(wchar_t)); auto c = s.to_latin_1(); mix(d, c.data(), c.size()); auto e = s.to_utf8(); mix(d, e.data(), e.size()); break; }
    case 10: { S x = s.to_std_string(); mix(d, x.data(), x.size()); std::u16string y = t.to_std_u16string(); mix(d, y.data(), y.size() * 2); break; }
    case 11: mixs(d, ST::format("[{}|{>30}|{<5}]", s, t, s)); break;
    case 12: { ST::string_stream ss; ss << s << ' ' << t; mix(d, ss.raw_buffer(), ss.size()); mixs(d, ss.to_string()); break; }
    case 13: { std::ostringstream os; os << s; S x = os.str(); mix(d, x.data(), x.size()); break; }
    case 14: mixs(d, ST::hex_encode(s.c_str(), s.size())); mixs(d, ST::base64_encode(t.to_utf8())); break;
    case 15: { ST::string c(s); mixs(d, c); ST::string e = s + t; mixs(d, e); ST::string f = s + "lit"; mixs(d, f); break; }
    case 16: mixv(d, static_cast<uint64_t>(sh.cbuf.compare(sh.cbuf)) + sh.cbuf.size() + static_cast<uint64_t>(sh.u16buf.compare(sh.u16buf)) + static_cast<uint64_t>(sh.u32buf[0]) + sh.wbuf.size()); break;
    case 17: { auto a = ST::utf16_to_utf8(sh.u16buf); mix(d, a.data(), a.size()); auto b = ST::utf32_to_utf16(sh.u32buf); mix(d, b.data(), b.size() * 2); auto c = ST::wchar_to_utf8(sh.wbuf); mix(d, c.data(), c.size()); break; }
    case 18: { ST::char_buffer c(sh.cbuf); mix(d, c.data(), c.size()); ST::utf16_buffer e(sh.u16buf); mix(d, e.data(), e.size() * 2); mixs(d, ST::string::from_utf8(sh.cbuf)); break; }
    case 19: { size_t n = 0; for (auto it = s.begin(); it != s.end(); ++it) n += static_cast<unsigned char>(*it); mixv(d, n + static_cast<uint64_t>(s.to_int()) + s.size() + s.empty()); std::string_view v = s.view(); mix(d, v.data(), v.size()); break; }
    // ---- arbitrary operations on thread-local objects
    case 20: { long long v = static_cast<long long>(r.next()); mixs(d, ST::format("{} {x} {X} {o} {b} {#x} {+}", v, v, v, v, static_cast<unsigned>(v), v, v)); break; }
    case 21: { double v = static_cast<double>(r.range(-100000, 100000)) / 7.0; mixs(d, ST::format("{} {f} {e} {.3f} {12.2f}", v, v, v, v, v)); break; }
    case 22: { double v = std::ldexp(1.0 + static_cast<double>(r.below(1000)) / 1000.0, static_cast<int>(r.range(200, 900))); mixs(d, ST::format("{f}|{.70f}|{.90e}", v, 1.0 / 3.0, v)); break; }   // renderings of 64 bytes and more
    case 23: { long long v = static_cast<long long>(r.next()); mixs(d, ST::string::from_int(v, 2 + static_cast<int>(r.below(35)))); mixs(d, ST::string::from_uint(static_cast<unsigned long>(v), 16, true)); break; }
    case 24: { double v = static_cast<double>(r.next()) * 1e280; mixs(d, ST::string::from_double(v, 'f')); mixs(d, ST::string::from_double(v)); mixs(d, ST::string::from_float(1.5f, 'e')); break; }
    case 25: { ST::string n = ST::string::from_int(static_cast<long long>(r.next() >> 8)); ST::conversion_result cr; mixv(d, static_cast<uint64_t>(n.to_long_long(cr, 10)) + cr.ok() + cr.full_match()); ST::string f("3.25e10x"); mixv(d, static_cast<uint64_t>(f.to_double(cr)) + cr.full_match()); break; }
    case 26: {
        S u8;
        for (size_t k = r.below(30); k-- > 0;) ref::enc_utf8(u8, r.chance(1, 2) ? 0x20 + r.below(0x5f) : r.chance(1, 2) ? 0xE9 + r.below(100) : 0x1F600 + r.below(50));
        auto a = ST::utf8_to_utf16(u8.data(), u8.size());
        auto b = ST::utf16_to_utf32(a);
        auto c = ST::utf32_to_utf8(b);
        mix(d, c.data(), c.size());
        auto w = ST::utf8_to_wchar(u8.data(), u8.size());
        auto l = ST::utf8_to_latin_1(u8.data(), u8.size());
        mix(d, l.data(), l.size());
        mixv(d, w.size());
        break;
    }
    case 27: { S bad = "ab\xFF" "cd\xC3"; mixs(d, ST::string(bad.data(), bad.size(), ST::substitute_invalid)); try { ST::string x(bad.data(), bad.size(), ST::check_validity); mixs(d, x); } catch (const ST::unicode_error &) { mixv(d, 77); } break; }
    case 28: {       // hex codec (table look-ups)
        unsigned char raw[24];
        for (auto &b : raw) b = static_cast<unsigned char>(r.below(256));
        ST::string h = ST::hex_encode(raw, sizeof(raw));
        ST::char_buffer back = ST::hex_decode(h);
        mixs(d, h);
        mix(d, back.data(), back.size());
        char out[24];
        mixv(d, static_cast<uint64_t>(ST::hex_decode(h.to_upper(), out, sizeof(out))));
        mix(d, out, sizeof(out));
        break;
    }
    case 29: {       // base64 codec
        unsigned char raw[25];
        for (auto &b : raw) b = static_cast<unsigned char>(r.below(256));
        size_t n = 1 + r.below(25);
        ST::string h = ST::base64_encode(raw, n);
        ST::char_buffer back = ST::base64_decode(h);
        mixs(d, h);
        mix(d, back.data(), back.size());
        try { (void)ST::base64_decode(ST::string("AB*D")); } catch (const ST::codec_error &) { mixv(d, 78); }
        break;
    }
    case 30: { ST::string_stream ss; for (int k = 0; k < 40; ++k) ss << static_cast<int>(r.below(100000)) << ' ' << 1.5 * k << "abc" << 'x'; ss.append_char('-', 300); mix(d, ss.raw_buffer(), ss.size()); ss.truncate(10); ST::string_stream m(std::move(ss)); m << L"wide €"; mixs(d, m.to_string()); break; }
    case 31: { ST::string acc; for (int k = 0; k < 12; ++k) { acc += ST::string::from_int(k); acc += ','; acc += U'é'; } mixs(d, acc); auto v = acc.split(','); mixv(d, v.size()); mixs(d, acc.replace(",", "")); break; }
    case 32: { ST::char_buffer b; b.allocate(40, 'q'); ST::char_buffer c(b); c = b; ST::char_buffer e(std::move(c)); mix(d, e.data(), e.size()); ST::utf32_buffer w(20, U'w'); mix(d, w.data(), w.size() * 4); break; }
    case 33: mixs(d, ST::format("{c}{c}{c}", 0x41, 0x20AC, 0x1F600)); mixs(d, ST::format("{_*>12}{08}", "pad", 42)); break;
    case 34: { std::ostringstream os; ST::writef(os, "{} {x} {}", 12345, 255, "text"); S x = os.str(); mix(d, x.data(), x.size()); std::wostringstream ws; ST::writef(ws, "{}é{}", 1, 2.5); mixv(d, ws.str().size()); break; }
    case 35: { char *mem = nullptr; size_t sz = 0; FILE *fp = open_memstream(&mem, &sz); ST::printf(fp, "{>20}|{f}", "printf", 2.75); fclose(fp); mix(d, mem, sz); free(mem); break; }
    case 36: mixs(d, ST::format_latin_1("{} caf\xE9 {}", 1, "x")); mixs(d, ST::string::from_latin_1("\xE9\xFF\x80", 3)); break;
    case 37: { ST::string a("Hello World"), b("hello world"); mixv(d, static_cast<uint64_t>(a.compare_i(b)) + ST::hash_i()(a) + ST::less_i()(a, b) + ST::equal_i()(a, b)); break; }
    case 38: { std::istringstream is("tok1 tok2"); ST::string a, b; is >> a >> b; mixs(d, a); mixs(d, b); break; }
    case 39: { ST::string f = ST::string::fill(50, 'f'); mixs(d, f); mixs(d, ST::string::from_bool(r.chance(1, 2))); mixv(d, ST::string("true").to_bool() + ST::string("0").to_bool()); break; }
    case 40: { try { (void)ST::format("{", 1); } catch (const ST::bad_format &) { mixv(d, 79); } try { (void)ST::format("{}{}", 1); } catch (const std::out_of_range &) { mixv(d, 80); } break; }
    case 41: { std::wstring w = L"wé\U0001F600"; mixs(d, ST::string(w)); mixs(d, ST::string::from_utf16(u"x€y")); mixs(d, ST::string::from_utf32(U"\U0001F600z")); break; }
    case 42: { ST::string big = ST::string::fill(2000, 'b'); mixs(d, big.substr(500, 700)); mixs(d, big.replace("bb", "c")); break; }
    default: { float v = static_cast<float>(r.range(-1000, 1000)) / 3.0f; mixs(d, ST::format("{} {.2f}", v, v)); ST::string_stream ss; ss << v << static_cast<double>(v) * 1e60; mix(d, ss.raw_buffer(), ss.size()); break; }
    }
}

static void run_program(uint64_t seed, size_t nops, const Shared &sh, ThreadOut &out, bool stamp)
{
    Rng r(seed);
    if (stamp) out.stamps.reserve(nops);
    try {
        for (size_t k = 0; k < nops; ++k) {
            int op = static_cast<int>(r.below(NOPS));
            size_t oi = r.below(sh.strs.size());
            uint64_t t0 = stamp ? now_ns() : 0;
            do_op(op, r, sh, oi, out.digest);
            if (stamp) out.stamps.push_back(OpStamp{static_cast<uint16_t>(op), static_cast<uint16_t>(oi), t0, now_ns()});
            ++out.ops;
        }
    } catch (const std::exception &e) {
        out.error = std::string(typeid(e).name()) + ": " + e.what();
    }
}

static void build_shared(Shared &sh)
{
    // every size class: empty, short, at the limit, long; ASCII, multi-byte
    const char *vals[] = {"", "a", "short, text a", "exactly15bytes!", "sixteen bytes!!,", "seventeen bytes, a",
                          "a longer string, with commas, spaces and the letter a in several places, long enough for the heap",
                          "caf\xC3\xA9 \xE2\x82\xAC \xF0\x9F\x98\x80 multi-byte, text a"};
    for (const char *v : vals) sh.strs.push_back(ST::string::from_validated(v, strlen(v)));
    sh.cbuf = ST::char_buffer("shared char buffer that is long enough to live on the heap", 58);
    sh.u16buf = ST::utf16_buffer(u"shared utf16 € buffer, long enough", 34);
    sh.u32buf = ST::utf32_buffer(U"shared utf32 \U0001F600 buffer, long enough", 34);
    sh.wbuf = ST::wchar_buffer(L"shared wide é buffer, long enough", 33);
}

static void body()
{
    vrt::require("rounds", 2);
    vrt::require("ops.concurrent", 10000);
    vrt::require("overlap.same_shared_object_pairs", 100);
    vrt::require("overlap.same_operation_pairs", 100);
    vrt::case_cpu_budget() = 600;
    const size_t rounds = vrt::tier_count(6, 80);
    vrt::phase("rounds", rounds, [&](uint64_t round, Rng &r) {
        const size_t nthreads = (round % 2) ? 16 : 4;
        const size_t nops = vrt::thorough() ? (round % 5 == 0 ? 50000 : 8000) : (round % 3 == 0 ? 6000 : 2500);
        Shared sh;
        build_shared(sh);
        std::vector<uint64_t> seeds;
        for (size_t k = 0; k < nthreads; ++k) seeds.push_back(r.next());
        std::vector<ThreadOut> conc(nthreads), seq(nthreads);
        vrt::cur_printf("round=%llu threads=%zu ops/thread=%zu\n", static_cast<unsigned long long>(round), nthreads, nops);
        // ---- concurrent round: threads start behind a barrier
        {
            std::atomic<int> ready(0);
            std::atomic<bool> go(false);
            std::vector<std::thread> th;
            for (size_t k = 0; k < nthreads; ++k)
                th.emplace_back([&, k] {
                    ready.fetch_add(1);
                    while (!go.load(std::memory_order_acquire)) { }
                    run_program(seeds[k], nops, sh, conc[k], true);
                });
            while (ready.load() < static_cast<int>(nthreads)) { }
            go.store(true, std::memory_order_release);
            for (auto &t : th) t.join();
        }
        // ---- the same programs alone, afterwards
        for (size_t k = 0; k < nthreads; ++k) run_program(seeds[k], nops, sh, seq[k], false);
        for (size_t k = 0; k < nthreads; ++k) {
            vrt::evals(conc[k].ops);
            vrt::count("ops.concurrent", conc[k].ops);
            if (!conc[k].error.empty() || !seq[k].error.empty())
                vrt::violation("C20:exception-in-thread-program", sfmt("thread %zu: concurrent '%s' sequential '%s'", k, conc[k].error.c_str(), seq[k].error.c_str()));
            else if (conc[k].digest != seq[k].digest || conc[k].ops != seq[k].ops)
                vrt::violation("C20:thread-result-differs-from-sequential-run", sfmt("round %llu thread %zu of %zu: digest %016llx concurrently, %016llx alone (%llu ops)", static_cast<unsigned long long>(round), k, nthreads,
                                                                                  static_cast<unsigned long long>(conc[k].digest), static_cast<unsigned long long>(seq[k].digest), static_cast<unsigned long long>(conc[k].ops)));
        }
        // ---- how concurrent was it: time-overlapping operation pairs between different threads
        {
            struct Ev { uint64_t t; int kind; uint32_t th; uint16_t op, obj; };
            std::vector<Ev> ev;
            size_t sample_every = 1;
            size_t total = nthreads * nops;
            if (total > 400000) sample_every = total / 400000 + 1;
            for (size_t k = 0; k < nthreads; ++k)
                for (size_t i = 0; i < conc[k].stamps.size(); i += sample_every) {
                    const OpStamp &s = conc[k].stamps[i];
                    ev.push_back(Ev{s.t0, 0, static_cast<uint32_t>(k), s.op, s.obj});
                    ev.push_back(Ev{s.t1, 1, static_cast<uint32_t>(k), s.op, s.obj});
                }
            std::sort(ev.begin(), ev.end(), [](const Ev &a, const Ev &b) { return a.t < b.t || (a.t == b.t && a.kind > b.kind); });
            std::vector<int> open_obj(sh.strs.size(), 0), open_op(NOPS, 0);
            uint64_t same_obj = 0, same_op = 0, any = 0;
            int open_total = 0;
            for (const Ev &e : ev) {
                if (e.kind == 0) {
                    any += static_cast<uint64_t>(open_total);
                    if (e.op < 20) same_obj += static_cast<uint64_t>(open_obj[e.obj]);
                    same_op += static_cast<uint64_t>(open_op[e.op]);
                    ++open_total;
                    if (e.op < 20) ++open_obj[e.obj];
                    ++open_op[e.op];
                } else {
                    --open_total;
                    if (e.op < 20) --open_obj[e.obj];
                    --open_op[e.op];
                }
            }
            vrt::count("overlap.any_pairs", any);
            vrt::count("overlap.same_shared_object_pairs", same_obj);
            vrt::count("overlap.same_operation_pairs", same_op);
        }
        vrt::count("rounds");
        vrt::count(sfmt("rounds.with_%zu_threads", nthreads));
        vrt::distinct(vrt::fnv_u64(seeds[0], vrt::fnv_u64(nthreads, 161)));
        vrt::sample("rounds", sfmt("round %llu: %zu threads x %zu operations (44 kinds: 20 const operations on 8 shared strings + 4 shared buffers, 24 on thread-local objects), digests compared with a sequential re-run",
                                   static_cast<unsigned long long>(round), nthreads, nops), 2);
    });
}

VRT_MAIN(body)
