// C20 - concurrent use needs no locking.  N threads run seeded programs that
// mix every const operation on SHARED immutable strings / buffers with
// arbitrary operations on thread-local objects, under ThreadSanitizer.  The
// same programs are then run sequentially (after the concurrent round, so a
// lazily initialised table would be initialised concurrently first) and the
// per-thread result digests are compared.  The monitor uses no shared atomics
// during the round (they would add happens-before edges and hide races); real
// overlap is measured from thread-local timestamps merged after join.
// Scale: next to the small shared objects there are shared strings / buffers of
// 64 KiB .. 1 MiB (lengths on and next to multiples of the block sizes); about
// one step in 60..150 of every thread program is a const operation on one of
// them (searches in both case modes, split, replace, trim, comparisons, hashes,
// conversions ...) or an operation on thread-local objects of that size.  After
// the concurrent round and after the sequential one every shared object is
// compared with a private copy taken before (same place, same size, same units,
// terminator included).
// neighbours phase: every thread owns one odd-sized record of an array of records
// that lie back to back in one arena (bytes, char16_t, char32_t), refills it in
// place and works on it through the raw-pointer overloads while its neighbours do
// the same with theirs; the threads print padded fields to sinks of their own,
// each with its own fill character, and read shared const string_streams.
#include "vrt.h"
#include "vrt_st.h"
#include "ref_unicode.h"
#include "gen_scale.h"
#include <thread>
#include <cmath>
#include <algorithm>
#include <atomic>
#include <sstream>
#include <time.h>

using vrt::Rng;
using vrt::sfmt;
typedef std::string S;

// a shared object as it was when the round started: where its units are, and a private copy of them (terminator included)
struct Watch {
    std::string name;
    const void *data;
    size_t units, unit;
    std::string orig;
};

struct Shared {
    std::vector<ST::string> strs;     // the small ones first, then (from index nsmall on) the ones of 64 KiB .. 1 MiB
    size_t nsmall = 0, large = 0;     // large: the index of the one string of 256 KiB .. 1 MiB
    std::vector<size_t> twin;         // for a big string: the index of a big string that equals it up to case / up to its last bytes
    ST::char_buffer cbuf;
    ST::utf16_buffer u16buf;
    ST::utf32_buffer u32buf;
    ST::wchar_buffer wbuf;
    // the same four buffer types holding >= 64 Ki units
    ST::char_buffer big_cbuf;
    ST::utf16_buffer big_u16buf;
    ST::utf32_buffer big_u32buf;
    ST::wchar_buffer big_wbuf;
    std::vector<Watch> watch;
    size_t nbig() const { return strs.size() - nsmall; }
};

struct OpStamp {
    uint16_t op;
    uint16_t obj;
    uint64_t t0, t1;
};

struct ThreadOut {
    uint64_t digest = 0xcbf29ce484222325ull;
    uint64_t ops = 0, big_ops = 0;
    std::vector<OpStamp> stamps;
    std::string error;
};

static inline uint64_t now_ns()
{
    timespec ts;
    clock_gettime(CLOCK_MONOTONIC, &ts);
    return static_cast<uint64_t>(ts.tv_sec) * 1000000000ull + static_cast<uint64_t>(ts.tv_nsec);
}
static inline void mix(uint64_t &d, const void *p, size_t n) { d = vrt::fnv1a(p, n, d); }
static inline void mixv(uint64_t &d, uint64_t v) { d = vrt::fnv_u64(v, d); }
static inline void mixs(uint64_t &d, const ST::string &s) { mix(d, s.c_str(), s.size()); mixv(d, s.size()); }

static const int NOPS_BASE = 44;      // 0..19 const operations on shared objects, 20..43 on thread-local objects
static const int NOPS_SHARED2 = 10;   // 44..53 more const operations on shared objects (searches of both case modes, split, trim, ...)
static const int NOPS_LOCAL_BIG = 4;  // 54..57 thread-local objects of >= 64 KiB (only chosen in "big" steps)
static const int NOPS = NOPS_BASE + NOPS_SHARED2 + NOPS_LOCAL_BIG;
static inline bool on_shared(int op) { return op < 20 || (op >= NOPS_BASE && op < NOPS_BASE + NOPS_SHARED2); }

// one operation of a thread program; shared objects are only read
static void do_op(int op, Rng &r, const Shared &sh, size_t oi, uint64_t &d)
{
    const ST::string &s = sh.strs[oi];
    const bool big = oi >= sh.nsmall;
    // the second operand: another small string for a small one; for a big one any other string, often its twin (so that
    // comparisons and searches run over the whole length)
    const size_t ti = !big ? (oi + 1 + r.below(sh.nsmall - 1)) % sh.nsmall
                           : r.chance(1, 2) ? sh.twin[oi - sh.nsmall] : (oi + 1 + r.below(sh.strs.size() - 1)) % sh.strs.size();
    const ST::string &t = sh.strs[ti];
    const ST::char_buffer &cbuf = big ? sh.big_cbuf : sh.cbuf;
    const ST::utf16_buffer &u16buf = big ? sh.big_u16buf : sh.u16buf;
    const ST::utf32_buffer &u32buf = big ? sh.big_u32buf : sh.u32buf;
    const ST::wchar_buffer &wbuf = big ? sh.big_wbuf : sh.wbuf;
    static const char probes[] = "aAzZqQeEkK,xX mM";
    switch (op) {
    // ---- const operations on shared objects
    case 0: mixv(d, static_cast<uint64_t>(s.find(t)) + static_cast<uint64_t>(s.find("a")) + static_cast<uint64_t>(s.find_last('a')) + s.contains(t, ST::case_insensitive)); break;
    case 1: mixv(d, static_cast<uint64_t>(s.compare(t)) + static_cast<uint64_t>(s.compare_i(t)) + (s == t) + (s < t) + s.starts_with(t) + s.ends_with("z")); break;
    case 2: mixv(d, ST::hash()(s) ^ ST::hash_i()(t) ^ std::hash<ST::string>()(s)); break;
    case 3: mixs(d, s.substr(static_cast<ST_ssize_t>(r.below(s.size() + 1)), r.below(20))); mixs(d, s.left(5)); mixs(d, s.right(7)); break;
    case 4: mixs(d, s.trim()); mixs(d, s.trim_left("a ")); mixs(d, s.before_first(',')); mixs(d, s.after_last(' ')); break;
    case 5: { auto v = s.split(','); for (auto &p : v) mixs(d, p); auto w = s.tokenize(" ,"); mixv(d, w.size()); break; }
    case 6: mixs(d, s.replace("a", "<A>")); mixs(d, s.replace(t, ST::string("-"))); break;
    case 7: mixs(d, s.to_upper()); mixs(d, t.to_lower()); break;
    case 8: { auto b = s.to_utf16(); mix(d, b.data(), b.size() * 2); auto c = s.to_utf32(); mix(d, c.data(), c.size() * 4); break; }
    case 9: { auto b = s.to_wchar(); mix(d, b.data(), b.size() * sizeof(wchar_t)); auto c = s.to_latin_1(); mix(d, c.data(), c.size()); auto e = s.to_utf8(); mix(d, e.data(), e.size()); break; }
    case 10: { S x = s.to_std_string(); mix(d, x.data(), x.size()); std::u16string y = t.to_std_u16string(); mix(d, y.data(), y.size() * 2); break; }
    case 11: mixs(d, ST::format("[{}|{>30}|{<5}]", s, t, s)); break;
    case 12: { ST::string_stream ss; ss << s << ' ' << t; mix(d, ss.raw_buffer(), ss.size()); mixs(d, ss.to_string()); break; }
    case 13: { std::ostringstream os; os << s; S x = os.str(); mix(d, x.data(), x.size()); break; }
    case 14: mixs(d, ST::hex_encode(s.c_str(), s.size())); mixs(d, ST::base64_encode(t.to_utf8())); break;
    case 15: { ST::string c(s); mixs(d, c); ST::string e = s + t; mixs(d, e); ST::string f = s + "lit"; mixs(d, f); break; }
    case 16: mixv(d, static_cast<uint64_t>(cbuf.compare(cbuf)) + cbuf.size() + static_cast<uint64_t>(u16buf.compare(u16buf)) + static_cast<uint64_t>(u32buf[0]) + wbuf.size()); break;
    case 17: { auto a = ST::utf16_to_utf8(u16buf); mix(d, a.data(), a.size()); auto b = ST::utf32_to_utf16(u32buf); mix(d, b.data(), b.size() * 2); auto c = ST::wchar_to_utf8(wbuf); mix(d, c.data(), c.size()); break; }
    case 18: { ST::char_buffer c(cbuf); mix(d, c.data(), c.size()); ST::utf16_buffer e(u16buf); mix(d, e.data(), e.size() * 2); mixs(d, ST::string::from_utf8(cbuf)); break; }
    case 19: { size_t n = 0; for (auto it = s.begin(); it != s.end(); ++it) n += static_cast<unsigned char>(*it); mixv(d, n + static_cast<uint64_t>(s.to_int()) + s.size() + s.empty()); std::string_view v = s.view(); mix(d, v.data(), v.size()); break; }
    // ---- arbitrary operations on thread-local objects
    case 20: { long long v = static_cast<long long>(r.next()); mixs(d, ST::format("{} {x} {X} {o} {b} {#x} {+}", v, v, v, v, static_cast<unsigned>(v), v, v)); break; }
    case 21: { double v = static_cast<double>(r.range(-100000, 100000)) / 7.0; mixs(d, ST::format("{} {f} {e} {.3f} {12.2f}", v, v, v, v, v)); break; }
    case 22: { double v = std::ldexp(1.0 + static_cast<double>(r.below(1000)) / 1000.0, static_cast<int>(r.range(200, 900))); mixs(d, ST::format("{f}|{.70f}|{.90e}", v, 1.0 / 3.0, v)); break; }   // renderings of 64 bytes and more
    case 23: { long long v = static_cast<long long>(r.next()); mixs(d, ST::string::from_int(v, 2 + static_cast<int>(r.below(35)))); mixs(d, ST::string::from_uint(static_cast<unsigned long>(v), 16, true)); break; }
    case 24: { double v = static_cast<double>(r.next()) * 1e280; mixs(d, ST::string::from_double(v, 'f')); mixs(d, ST::string::from_double(v)); mixs(d, ST::string::from_float(1.5f, 'e')); break; }
    case 25: { ST::string n = ST::string::from_int(static_cast<long long>(r.next() >> 8)); ST::conversion_result cr; mixv(d, static_cast<uint64_t>(n.to_long_long(cr, 10)) + cr.ok() + cr.full_match()); ST::string f("3.25e10x"); mixv(d, static_cast<uint64_t>(f.to_double(cr)) + cr.full_match()); break; }
    case 26: {
        S u8;
        for (size_t k = r.below(30); k-- > 0;) ref::enc_utf8(u8, r.chance(1, 2) ? 0x20 + r.below(0x5f) : r.chance(1, 2) ? 0xE9 + r.below(100) : 0x1F600 + r.below(50));
        auto a = ST::utf8_to_utf16(u8.data(), u8.size());
        auto b = ST::utf16_to_utf32(a);
        auto c = ST::utf32_to_utf8(b);
        mix(d, c.data(), c.size());
        auto w = ST::utf8_to_wchar(u8.data(), u8.size());
        auto l = ST::utf8_to_latin_1(u8.data(), u8.size());
        mix(d, l.data(), l.size());
        mixv(d, w.size());
        break;
    }
    case 27: { S bad = "ab\xFF" "cd\xC3"; mixs(d, ST::string(bad.data(), bad.size(), ST::substitute_invalid)); try { ST::string x(bad.data(), bad.size(), ST::check_validity); mixs(d, x); } catch (const ST::unicode_error &) { mixv(d, 77); } break; }
    case 28: {       // hex codec (table look-ups)
        unsigned char raw[24];
        for (auto &b : raw) b = static_cast<unsigned char>(r.below(256));
        ST::string h = ST::hex_encode(raw, sizeof(raw));
        ST::char_buffer back = ST::hex_decode(h);
        mixs(d, h);
        mix(d, back.data(), back.size());
        char out[24];
        mixv(d, static_cast<uint64_t>(ST::hex_decode(h.to_upper(), out, sizeof(out))));
        mix(d, out, sizeof(out));
        break;
    }
    case 29: {       // base64 codec
        unsigned char raw[25];
        for (auto &b : raw) b = static_cast<unsigned char>(r.below(256));
        size_t n = 1 + r.below(25);
        ST::string h = ST::base64_encode(raw, n);
        ST::char_buffer back = ST::base64_decode(h);
        mixs(d, h);
        mix(d, back.data(), back.size());
        try { (void)ST::base64_decode(ST::string("AB*D")); } catch (const ST::codec_error &) { mixv(d, 78); }
        break;
    }
    case 30: { ST::string_stream ss; for (int k = 0; k < 40; ++k) ss << static_cast<int>(r.below(100000)) << ' ' << 1.5 * k << "abc" << 'x'; ss.append_char('-', 300); mix(d, ss.raw_buffer(), ss.size()); ss.truncate(10); ST::string_stream m(std::move(ss)); m << L"wide €"; mixs(d, m.to_string()); break; }
    case 31: { ST::string acc; for (int k = 0; k < 12; ++k) { acc += ST::string::from_int(k); acc += ','; acc += U'é'; } mixs(d, acc); auto v = acc.split(','); mixv(d, v.size()); mixs(d, acc.replace(",", "")); break; }
    case 32: { ST::char_buffer b; b.allocate(40, 'q'); ST::char_buffer c(b); c = b; ST::char_buffer e(std::move(c)); mix(d, e.data(), e.size()); ST::utf32_buffer w(20, U'w'); mix(d, w.data(), w.size() * 4); break; }
    case 33: mixs(d, ST::format("{c}{c}{c}", 0x41, 0x20AC, 0x1F600)); mixs(d, ST::format("{_*>12}{08}", "pad", 42)); break;
    case 34: { std::ostringstream os; ST::writef(os, "{} {x} {}", 12345, 255, "text"); S x = os.str(); mix(d, x.data(), x.size()); std::wostringstream ws; ST::writef(ws, "{}é{}", 1, 2.5); mixv(d, ws.str().size()); break; }
    case 35: { char *mem = nullptr; size_t sz = 0; FILE *fp = open_memstream(&mem, &sz); ST::printf(fp, "{>20}|{f}", "printf", 2.75); fclose(fp); mix(d, mem, sz); free(mem); break; }
    case 36: mixs(d, ST::format_latin_1("{} caf\xE9 {}", 1, "x")); mixs(d, ST::string::from_latin_1("\xE9\xFF\x80", 3)); break;
    case 37: { ST::string a("Hello World"), b("hello world"); mixv(d, static_cast<uint64_t>(a.compare_i(b)) + ST::hash_i()(a) + ST::less_i()(a, b) + ST::equal_i()(a, b)); break; }
    case 38: { std::istringstream is("tok1 tok2"); ST::string a, b; is >> a >> b; mixs(d, a); mixs(d, b); break; }
    case 39: { ST::string f = ST::string::fill(50, 'f'); mixs(d, f); mixs(d, ST::string::from_bool(r.chance(1, 2))); mixv(d, ST::string("true").to_bool() + ST::string("0").to_bool()); break; }
    case 40: { try { (void)ST::format("{", 1); } catch (const ST::bad_format &) { mixv(d, 79); } try { (void)ST::format("{}{}", 1); } catch (const std::out_of_range &) { mixv(d, 80); } break; }
    case 41: { std::wstring w = L"wé\U0001F600"; mixs(d, ST::string(w)); mixs(d, ST::string::from_utf16(u"x€y")); mixs(d, ST::string::from_utf32(U"\U0001F600z")); break; }
    case 42: { ST::string big = ST::string::fill(2000, 'b'); mixs(d, big.substr(500, 700)); mixs(d, big.replace("bb", "c")); break; }
    // ---- more const operations on shared objects: searches in both case modes, with start positions / limits, split, trim ...
    case 44: { const char c = probes[r.below(sizeof(probes) - 1)]; const size_t p = r.below(s.size() + 2);
               mixv(d, static_cast<uint64_t>(s.find(c)) + 3 * static_cast<uint64_t>(s.find_last(c)) + 5 * static_cast<uint64_t>(s.find(p, c)) + 7 * static_cast<uint64_t>(s.find_last(p, c)) + s.contains(c)); break; }
    case 45: { const char c = probes[r.below(sizeof(probes) - 1)]; const size_t p = r.below(s.size() + 2);
               mixv(d, static_cast<uint64_t>(s.find(c, ST::case_insensitive)) + 3 * static_cast<uint64_t>(s.find_last(c, ST::case_insensitive)) + 5 * static_cast<uint64_t>(s.find(p, c, ST::case_insensitive))
                       + 7 * static_cast<uint64_t>(s.find_last(p, c, ST::case_insensitive)) + s.contains(c, ST::case_insensitive)); break; }
    case 46: { static const char *const needles[] = {"NEEDLE", "needle", "Tail", "a LONGER", "several", "\xC3\xA9 \xE2\x82\xAC", "zz", "absent from all of them"};
               const char *n = needles[r.below(8)]; const size_t p = r.below(s.size() + 2);
               mixv(d, static_cast<uint64_t>(s.find(n, ST::case_insensitive)) + 3 * static_cast<uint64_t>(s.find_last(n, ST::case_insensitive)) + 5 * static_cast<uint64_t>(s.find(p, n, ST::case_insensitive))
                       + 7 * static_cast<uint64_t>(s.find_last(p, n, ST::case_insensitive)) + s.contains(n, ST::case_insensitive) + 11 * static_cast<uint64_t>(s.find(n)) + 13 * static_cast<uint64_t>(s.find_last(n)) + 2 * s.contains(n)); break; }
    case 47: { static const char seps[] = ",Nn;T"; const char c = seps[r.below(sizeof(seps) - 1)];
               auto v = s.split(c, 1 + r.below(6), ST::case_insensitive); for (auto &p : v) mixs(d, p);
               auto w = s.split("Needle", 3, ST::case_insensitive); for (auto &p : w) mixs(d, p);
               auto x = s.split(", ", 4); mixv(d, x.size()); break; }
    case 48: mixs(d, s.replace("NEEDLE", "<n>", ST::case_insensitive)); mixs(d, s.replace("needle", ST::string("N"))); mixs(d, s.replace(ST::string("Tail"), "T", ST::case_insensitive)); break;
    case 49: mixs(d, s.trim()); mixs(d, s.trim_left()); mixs(d, s.trim_right(" \t\r\nz")); mixs(d, s.trim("abcdefghij \n")); break;
    case 50: mixs(d, s.before_first('N', ST::case_insensitive)); mixs(d, s.after_first("needle", ST::case_insensitive)); mixs(d, s.before_last('t', ST::case_insensitive)); mixs(d, s.after_last("TAIL", ST::case_insensitive));
             mixs(d, s.before_first(',')); mixs(d, s.after_last(',')); break;
    case 51: mixv(d, static_cast<uint64_t>(s.compare_i(t)) + 3 * static_cast<uint64_t>(s.compare_ni(t, s.size() / 2 + 1)) + 5 * static_cast<uint64_t>(s.compare_n(t, s.size() - s.size() / 4)) + s.starts_with(t, ST::case_insensitive) + 2 * s.ends_with(t, ST::case_insensitive)
                     + 4 * ST::equal_i()(s, t) + 8 * ST::less_i()(s, t) + (ST::hash_i()(s) ^ ST::hash()(t)) + 16 * (s == t) + 32 * s.ends_with("needle tail", ST::case_insensitive)); break;
    case 52: { const size_t B = scale::blocks()[r.below(scale::blocks().size())], at = B <= s.size() ? B - std::min<size_t>(B, r.below(4)) : r.below(s.size() + 1);
               mixs(d, s.substr(static_cast<ST_ssize_t>(at), 1 + r.below(40))); mixs(d, s.left(s.size() - std::min<size_t>(s.size(), 1))); mixs(d, s.right(s.size() - std::min<size_t>(s.size(), 1))); mixs(d, s.substr(-5)); break; }
    case 53: { mixs(d, ST::string::from_utf16(u16buf)); mixs(d, ST::string::from_utf32(u32buf)); mixs(d, ST::string::from_wchar(wbuf)); mixs(d, ST::string::from_latin_1(cbuf)); mixs(d, ST::string::from_validated(cbuf));
               auto a = ST::utf8_to_utf16(cbuf); mix(d, a.data(), a.size() * 2); auto b = ST::utf16_to_utf32(u16buf); mix(d, b.data(), b.size() * 4); auto c = ST::utf32_to_utf8(u32buf); mix(d, c.data(), c.size());
               mixv(d, static_cast<uint64_t>(cbuf.compare(cbuf)) + static_cast<uint64_t>(u32buf.compare(u32buf)) + static_cast<uint64_t>(wbuf.compare(wbuf))); break; }
    // ---- thread-local objects of 64 KiB and more (a scratch area / block cache shared between threads above a size threshold)
    case 54: { const size_t n = scale::length(r, 70000, 65535); ST::string b = ST::string::fill(n, 'b') + "Needle"; mixv(d, static_cast<uint64_t>(b.find('N', ST::case_insensitive)) + static_cast<uint64_t>(b.find("EDLE", ST::case_insensitive)) + static_cast<uint64_t>(b.find_last('L')));
               mixs(d, b.to_upper()); mixs(d, b.replace("bbbbbbbbbbbbbbbb", "c")); mixs(d, b.substr(static_cast<ST_ssize_t>(n - 3))); auto v = b.split('n', 2, ST::case_insensitive); mixv(d, v.size()); mixv(d, ST::hash_i()(b)); break; }
    case 55: { const size_t n = scale::length(r, 70000, 65535); ST::char_buffer a(n, 'a'), b(n, 'b'); a = b; ST::char_buffer c(65536, 'c'); c.clear(); c.allocate(n, 'd'); mix(d, a.data(), a.size()); a = c; mix(d, a.data(), a.size()); mix(d, b.data(), b.size());
               ST::utf16_buffer u(n, u'u'); ST::utf16_buffer v(u); v = u; u.allocate(n); mix(d, v.data(), v.size() * 2); ST::string s1 = ST::string::from_validated(b), s2 = ST::string::fill(n, 'e'); s1 = s2; s2.clear(); mixs(d, s1); break; }
    case 56: { const size_t n = scale::length(r, 70000, 65536); ST::string_stream ss; for (size_t k = 0; k < n; k += 1000) ss.append_char(static_cast<char>('a' + k / 1000 % 26), 1000); mix(d, ss.raw_buffer(), ss.size()); ss.truncate(r.below(300));
               ss.append_char('y', 2 * n + 300); mix(d, ss.raw_buffer(), ss.size()); ST::string_stream m(std::move(ss)); m << "tail"; mixs(d, m.to_string()); break; }
    case 57: { const int w = 65530 + static_cast<int>(r.below(12)); const std::string fmt = "{>" + std::to_string(w) + "}|{<70000}|{}"; mixs(d, ST::format(fmt.c_str(), "pad", 42, 2.5)); ST::string big = ST::string::fill(static_cast<size_t>(w), 'f');
               mixs(d, ST::format("{}{}", big, big)); auto u = big.to_utf16(); mixv(d, u.size()); mixs(d, big + big); break; }
    default: { float v = static_cast<float>(r.range(-1000, 1000)) / 3.0f; mixs(d, ST::format("{} {.2f}", v, v)); ST::string_stream ss; ss << v << static_cast<double>(v) * 1e60; mix(d, ss.raw_buffer(), ss.size()); break; }
    }
}

// one step in big_every is a "big" step: a const operation on one of the shared objects of 64 KiB .. 1 MiB (or, one time in
// five, an operation on thread-local objects of that size); all other steps are as before
static void run_program(uint64_t seed, size_t nops, size_t big_every, const Shared &sh, ThreadOut &out, bool stamp)
{
    Rng r(seed);
    if (stamp) out.stamps.reserve(nops);
    try {
        for (size_t k = 0; k < nops; ++k) {
            int op;
            size_t oi;
            if (r.below(big_every) == 0) {
                if (r.chance(1, 5)) { op = NOPS_BASE + NOPS_SHARED2 + static_cast<int>(r.below(NOPS_LOCAL_BIG)); oi = r.below(sh.nsmall); }
                else {
                    // every const operation once, the searches / split / replace / comparisons in both case modes twice
                    static const int menu[] = {0, 1, 2, 3, 4, 5, 6, 7, 8, 9, 10, 11, 12, 13, 14, 15, 16, 17, 18, 19, 44, 45, 46, 47, 48, 49, 50, 51, 52, 53, 0, 45, 46, 47, 48, 50, 51};
                    op = r.pick(menu);
                    oi = sh.nsmall + r.below(sh.nbig());
                    if (oi == sh.large && !r.chance(1, 3)) oi = sh.nsmall + r.below(sh.nbig());
                    ++out.big_ops;
                }
            } else {
                op = static_cast<int>(r.below(NOPS_BASE + NOPS_SHARED2));
                oi = r.below(sh.nsmall);
            }
            uint64_t t0 = stamp ? now_ns() : 0;
            do_op(op, r, sh, oi, out.digest);
            if (stamp) out.stamps.push_back(OpStamp{static_cast<uint16_t>(op), static_cast<uint16_t>(oi), t0, now_ns()});
            ++out.ops;
        }
    } catch (const std::exception &e) {
        out.error = std::string(typeid(e).name()) + ": " + e.what();
    }
}

template <typename T>
static void watch_units(Shared &sh, const std::string &name, const T *data, size_t units)
{
    sh.watch.push_back(Watch{name, data, units, sizeof(T), std::string(reinterpret_cast<const char *>(data), (units + 1) * sizeof(T))});
}

static void build_shared(Shared &sh, Rng &r, bool any_large_size)
{
    // every size class: empty, short, at the limit, long; ASCII, multi-byte
    const char *vals[] = {"", "a", "short, text a", "exactly15bytes!", "sixteen bytes!!,", "seventeen bytes, a",
                          "a longer string, with commas, spaces and the letter a in several places, long enough for the heap",
                          "caf\xC3\xA9 \xE2\x82\xAC \xF0\x9F\x98\x80 multi-byte, text a"};
    for (const char *v : vals) sh.strs.push_back(ST::string::from_validated(v, strlen(v)));
    sh.nsmall = sh.strs.size();
    sh.cbuf = ST::char_buffer("shared char buffer that is long enough to live on the heap", 58);
    sh.u16buf = ST::utf16_buffer(u"shared utf16 € buffer, long enough", 34);
    sh.u32buf = ST::utf32_buffer(U"shared utf32 \U0001F600 buffer, long enough", 34);
    sh.wbuf = ST::wchar_buffer(L"shared wide é buffer, long enough", 33);

    // ---- 64 KiB .. 1 MiB: lengths on / next to multiples of the block sizes; the features the operations look for (needles
    // in both cases, separators, white space at the ends, multi-byte characters) sit late in the text or straddle a multiple
    std::vector<S> bigs;
    auto words = [&](size_t n, const char *alphabet, unsigned space_one_in) {
        S t(n, 'x');
        const size_t na = strlen(alphabet);
        for (size_t i = 0; i < n; ++i) t[i] = r.chance(1, space_one_in) ? ' ' : alphabet[r.below(na)];
        return t;
    };
    auto finish = [&](S t, bool commas) {
        // a handful of separators and needles (few: replace / split stay cheap), one needle across a 64 KiB multiple, a tail
        const size_t n = t.size();
        if (commas) for (int k = 0; k < 12; ++k) t[r.below(n)] = ',';
        scale::plant(t, 65536 - 3, "NeEdLe");
        scale::plant(t, scale::offset_any(r, n - 40), "needle");
        scale::plant(t, n - 30, ", a longer Needle tail");
        return t;
    };
    // exactly 64 KiB, one less, a little more
    bigs.push_back(finish(words(65536, "bcdefghijklmnopqrstuvwy", 7), true));
    bigs.push_back(finish(words(65535, "BCDefghIJKlmnopqRSTuvwy", 9), false));
    bigs.push_back(finish(words(65536 + 1 + r.below(40), "bcdfgh", 5), true));
    // 3 * 2^15 with white space at both ends (trim), a two-byte background, mixed UTF-8 with four-byte characters around 2^17
    { S t = finish(words(scale::length(r, 110000, 98304), "bcdefgh", 6), true); const size_t ws = 20000 + r.below(20000); for (size_t i = 0; i < ws; ++i) { t[i] = " \t\n"[i % 3]; t[t.size() - 1 - i] = ' '; } bigs.push_back(t); }
    { S t = scale::utf8_background(r, scale::length(r, 80000, 66000) - 22, scale::TWO_BYTE_RUN) + ", a longer Needle tail"; bigs.push_back(t); }
    { S t = scale::utf8_background(r, scale::length(r, 140000, 131000) - 22, scale::MIXED_UTF8) + ", a longer Needle tail"; bigs.push_back(t); }
    // one large one: 256 KiB / 512 KiB / 1 MiB (any q * 2^k up to 1 MiB in the thorough tier); it is picked less often
    {
        static const size_t large[] = {262144, 524288, 1048576};
        const size_t n = any_large_size ? scale::length(r, 1u << 20, 262144) : static_cast<size_t>(static_cast<long>(r.pick(large)) + std::min<long>(0, scale::nudge(r)));
        bigs.push_back(finish(words(n, "bcdefghijklmnopqrstuvwy", 50), true));
    }
    const size_t nb = bigs.size();
    sh.large = sh.nsmall + nb - 1;
    // twins: the same text in the other case, a long proper prefix: compare_i / starts_with / find(t) run over the whole length
    { S t = bigs[1]; for (char &c : t) if (c >= 'a' && c <= 'z') c = static_cast<char>(c - 32); else if (c >= 'A' && c <= 'Z') c = static_cast<char>(c + 32); bigs.push_back(t); }
    { S t = bigs[0]; t.resize(t.size() - 20); bigs.push_back(t); }
    for (const S &b : bigs) sh.strs.push_back(ST::string::from_validated(b.data(), b.size()));
    sh.twin.assign(bigs.size(), 0);
    for (size_t k = 0; k < bigs.size(); ++k) sh.twin[k] = sh.nsmall + (k + 1) % (nb - 1);
    sh.twin[1] = sh.nsmall + nb; sh.twin[nb] = sh.nsmall + 1;
    sh.twin[0] = sh.nsmall + nb + 1; sh.twin[nb + 1] = sh.nsmall;
    {
        const S &src = bigs[5];      // mixed UTF-8
        ref::Decoded dec = ref::decode_utf8(src);
        std::u16string u16; std::u32string u32;
        ref::to_utf16(dec, false, u16);
        ref::to_utf32(dec, false, u32);
        std::wstring w(u32.begin(), u32.end());
        sh.big_cbuf = ST::char_buffer(src.data(), src.size());
        sh.big_u16buf = ST::utf16_buffer(u16.data(), u16.size());
        sh.big_u32buf = ST::utf32_buffer(u32.data(), u32.size());
        sh.big_wbuf = ST::wchar_buffer(w.data(), w.size());
    }
    // private copies of everything that is shared (taken last: the objects do not move any more)
    for (size_t k = 0; k < sh.strs.size(); ++k) watch_units(sh, sfmt("string #%zu (%zu bytes)", k, sh.strs[k].size()), sh.strs[k].c_str(), sh.strs[k].size());
    watch_units(sh, "char_buffer", sh.cbuf.data(), sh.cbuf.size());
    watch_units(sh, "utf16_buffer", sh.u16buf.data(), sh.u16buf.size());
    watch_units(sh, "utf32_buffer", sh.u32buf.data(), sh.u32buf.size());
    watch_units(sh, "wchar_buffer", sh.wbuf.data(), sh.wbuf.size());
    watch_units(sh, "big char_buffer", sh.big_cbuf.data(), sh.big_cbuf.size());
    watch_units(sh, "big utf16_buffer", sh.big_u16buf.data(), sh.big_u16buf.size());
    watch_units(sh, "big utf32_buffer", sh.big_u32buf.data(), sh.big_u32buf.size());
    watch_units(sh, "big wchar_buffer", sh.big_wbuf.data(), sh.big_wbuf.size());
}

// every shared object still is where it was, as long as it was, with exactly its original units and its terminator
static void verify_shared(const Shared &sh, const char *when)
{
    auto current = [&](size_t k, const void *&data, size_t &units) {
        const size_t ns = sh.strs.size();
        if (k < ns) { data = sh.strs[k].c_str(); units = sh.strs[k].size(); return; }
        switch (k - ns) {
        case 0: data = sh.cbuf.data(); units = sh.cbuf.size(); break;
        case 1: data = sh.u16buf.data(); units = sh.u16buf.size(); break;
        case 2: data = sh.u32buf.data(); units = sh.u32buf.size(); break;
        case 3: data = sh.wbuf.data(); units = sh.wbuf.size(); break;
        case 4: data = sh.big_cbuf.data(); units = sh.big_cbuf.size(); break;
        case 5: data = sh.big_u16buf.data(); units = sh.big_u16buf.size(); break;
        case 6: data = sh.big_u32buf.data(); units = sh.big_u32buf.size(); break;
        default: data = sh.big_wbuf.data(); units = sh.big_wbuf.size(); break;
        }
    };
    for (size_t k = 0; k < sh.watch.size(); ++k) {
        const Watch &w = sh.watch[k];
        const void *data; size_t units;
        current(k, data, units);
        vrt::count("shared_objects.verified");
        if (data != w.data || units != w.units) { vrt::violation("C20:shared-object-moved-or-resized", sfmt("%s %s: data %p size %zu, was %p size %zu", w.name.c_str(), when, data, units, w.data, w.units)); continue; }
        if (memcmp(data, w.orig.data(), w.orig.size()) != 0) {
            const std::string now(static_cast<const char *>(data), w.orig.size());
            const size_t at = scale::first_diff(now, w.orig);
            vrt::violation("C20:shared-object-changed", sfmt("%s %s: byte %zu of %zu (unit %zu of %zu%s) is %02x, was %02x; now %s", w.name.c_str(), when, at, w.orig.size(), at / w.unit, w.units,
                                                             at / w.unit == w.units ? ", the terminator" : "", static_cast<unsigned char>(now[at]), static_cast<unsigned char>(w.orig[at]), scale::brief(now, at).c_str()));
        }
    }
}

// ---- neighbours: thread-private ranges that are adjacent inside one arena -------------------------------------------------
// Every thread owns ONE record of an array of odd-sized records (75 bytes; 37 char16_t; 19 char32_t) that lie back to back in
// one malloc'ed block per element type, so that most records start at an address that is not 8-byte aligned and every record's
// first and last aligned word is shared with a neighbour's record.  A thread only ever passes pointers into its own record to
// the library (raw-pointer overloads: conversions, searches with (pointer, length) needles, comparisons with const char*,
// codecs, caller-buffer decoders writing INTO the record) and refills it in place, while the neighbours do the same with
// theirs: a library access that touches a byte outside the range it was given - rounding the start down or the end up to a
// whole word - is a data race with the neighbour's refill, although every single-threaded result is unchanged.  The same
// programs also print / write through the stdio and iostream writers to sinks of their own, each thread with its own fill
// character and padding runs of 2..200 characters, and read shared CONST string_streams (to_string and the other const
// members).  Digests are compared with the same programs run alone afterwards.
struct Lane {
    char *rec; size_t n;              // bytes [rec, rec + n) of the byte arena
    char16_t *rec16; size_t n16;
    char32_t *rec32; size_t n32;
    unsigned style;                   // which fill character its padded fields use
};
struct LaneOut {
    uint64_t digest = 0xcbf29ce484222325ull;
    uint64_t steps = 0, calls = 0, ranges_not_8_aligned = 0, refills_by_library = 0, printf_lines = 0, writef_lines = 0, pad_runs = 0, longest_pad = 0, files[3] = {0, 0, 0},
             stream_reads = 0, boring_runs = 0, needles = 0, cstr_calls = 0, t0 = 0, t1 = 0;
    std::string error;
};
struct SharedConst {
    const ST::string_stream *ss[3];
    S text[3];
    const ST::string *hay;
};

static const char lane_fills[] = "0 *._#=-~+";      // style 0: zero padding ({08x}), 1: the default space ({>8}), then {_*>12} ...

// "{08}" / "{>8}" / "{_*<12}" for a padding run of `run` characters around a value of `vlen` characters
static S pad_spec(unsigned style, size_t run, size_t vlen, bool left, bool hexa)
{
    const unsigned w = static_cast<unsigned>(run + vlen);
    if (style == 0) return sfmt("{0%u%s}", w, hexa ? "x" : "");
    if (style == 1) return sfmt("{%c%u%s}", left ? '<' : '>', w, hexa ? "x" : "");
    return sfmt("{_%c%c%u%s}", lane_fills[style], left ? '<' : '>', w, hexa ? "x" : "");
}

static void lane_program(uint64_t seed, size_t steps, const Lane &L, const SharedConst &sc, LaneOut &out)
{
    Rng r(seed);
    uint64_t &d = out.digest;
    out.t0 = now_ns();
    S img(L.n, ' ');
    std::u16string img16(L.n16, u' ');
    std::u32string img32(L.n32, U' ');
    std::vector<char> membuf(8192);
    size_t boring = 0;           // > 0: inside a run of identical unremarkable steps; the step after the run is the remarkable one
    bool after_boring = false;
    try {
        for (size_t step = 0; step < steps; ++step) {
            ++out.steps;
            unsigned kind = static_cast<unsigned>(r.below(12));
            if (boring == 0 && !after_boring && r.chance(1, 500)) { boring = 64 + r.below(237); ++out.boring_runs; }
            const bool dull = boring > 0, sharp = !dull && after_boring;
            if (dull) { --boring; after_boring = boring == 0; kind = 0; }
            else if (sharp) { after_boring = false; kind = 0; }
            if (kind < 7) {
                // ---- the byte record: new content, put there by a caller-buffer decoder or by memcpy, then read through raw pointers
                const unsigned content = dull || sharp ? 0 : static_cast<unsigned>(r.below(3));
                if (content == 0) {             // Latin-1: where the bytes >= 0x80 are is what the measuring passes care about
                    const unsigned hb = dull ? 0 : sharp ? 1 : static_cast<unsigned>(r.below(6));
                    for (size_t i = 0; i < L.n; ++i) img[i] = static_cast<char>(0x20 + r.below(0x5f));
                    const size_t edge = 1 + r.below(7);
                    switch (hb) {
                    case 0: break;
                    case 1: for (size_t i = L.n - edge; i < L.n; ++i) img[i] = static_cast<char>(0x80 + r.below(0x80)); break;
                    case 2: for (size_t i = 0; i < edge; ++i) img[i] = static_cast<char>(0x80 + r.below(0x80)); break;
                    case 3: for (size_t i = 0; i < L.n; ++i) if (r.chance(1, 4)) img[i] = static_cast<char>(0x80 + r.below(0x80)); break;
                    case 4: for (size_t i = 0; i < L.n; ++i) img[i] = static_cast<char>(0x80 + r.below(0x80)); break;
                    default: img[r.below(L.n)] = static_cast<char>(0x80 + r.below(0x80)); break;
                    }
                } else if (content == 1) {      // UTF-8 (one time in five with an ill-formed unit), padded with ASCII to the record size
                    S t;
                    while (t.size() < L.n) {
                        const unsigned w = static_cast<unsigned>(r.below(8));
                        S c;
                        if (w < 4) c += static_cast<char>(0x21 + r.below(0x5e)); else if (w < 6) ref::enc_utf8(c, 0xA0 + r.below(0x700)); else if (w == 6) ref::enc_utf8(c, 0x800 + r.below(0xD000)); else ref::enc_utf8(c, 0x10000 + r.below(0x30000));
                        if (t.size() + c.size() > L.n) { t += '.'; continue; }
                        t += c;
                    }
                    img = t;
                    if (r.chance(1, 5)) img[r.chance(1, 2) ? L.n - 1 - r.below(8) : r.below(L.n)] = static_cast<char>(r.chance(1, 2) ? 0xFF : 0x80 + r.below(0x40));
                } else {                        // words; the record is a C string (NUL in its last byte)
                    for (size_t i = 0; i < L.n; ++i) img[i] = r.chance(1, 6) ? ' ' : r.chance(1, 12) ? ',' : static_cast<char>('a' + r.below(8));
                    static const char *const marks[] = {"Needle", "NEEDLE", "needle", "nEEDLE tail"};
                    const char *mk = marks[r.below(4)];
                    const size_t at = r.chance(1, 3) ? L.n - 1 - strlen(mk) : r.below(L.n - 1 - strlen(mk));
                    memcpy(&img[at], mk, strlen(mk));
                    img[L.n - 1] = '\0';
                }
                switch (dull ? 2 : r.below(5)) {
                case 0: { ST::string hex = ST::hex_encode(img.data(), img.size()); mixv(d, static_cast<uint64_t>(ST::hex_decode(hex, L.rec, L.n))); ++out.refills_by_library; break; }
                case 1: { ST::string b64 = ST::base64_encode(img.data(), img.size()); mixv(d, static_cast<uint64_t>(ST::base64_decode(b64, L.rec, L.n))); ++out.refills_by_library; break; }
                case 2: memcpy(L.rec, img.data(), L.n); break;
                case 3: {                       // in two pieces: the second decoder call starts in the middle of the record
                    const size_t h = 1 + r.below(L.n - 1);
                    ST::string a = ST::hex_encode(img.data(), h), b = ST::hex_encode(img.data() + h, L.n - h);
                    mixv(d, static_cast<uint64_t>(ST::hex_decode(a, L.rec, h)) + 3 * static_cast<uint64_t>(ST::hex_decode(b, L.rec + h, L.n - h)));
                    ++out.refills_by_library;
                    break;
                }
                default: {                      // upper-case hex, decoded into exactly the space it needs
                    ST::string hex = ST::hex_encode(img.data(), img.size()).to_upper();
                    mixv(d, static_cast<uint64_t>(ST::hex_decode(hex, L.rec, L.n)));
                    ++out.refills_by_library;
                    break;
                }
                }
                // the range handed to the library: the whole record (its first and last word are shared with the neighbours) or
                // a part of it; a C string always ends with the record
                size_t a = 0, b = 0;
                if (!dull && !sharp && r.chance(2, 5)) { a = r.below(16); b = content == 2 ? 0 : r.below(16); }
                const char *p = L.rec + a;
                const size_t len = L.n - a - b;
                if (reinterpret_cast<uintptr_t>(p) & 7) ++out.ranges_not_8_aligned;
                const unsigned rot = dull || sharp ? 0u : static_cast<unsigned>(r.below(8));
                if (content == 0) {
                    for (unsigned q = 0; q < (dull ? 1u : 8u); ++q) {
                        ++out.calls;
                        switch ((q + rot) % 8) {
                        case 0: mixs(d, ST::string::from_latin_1(p, len)); break;
                        case 1: { auto x = ST::latin_1_to_utf8(p, len); mix(d, x.data(), x.size()); break; }
                        case 2: { auto x = ST::latin_1_to_utf16(p, len); mix(d, x.data(), x.size() * 2); break; }
                        case 3: { auto x = ST::latin_1_to_utf32(p, len); mix(d, x.data(), x.size() * 4); break; }
                        case 4: mixs(d, ST::hex_encode(p, len)); break;
                        case 5: mixs(d, ST::base64_encode(p, len)); break;
                        case 6: { ST::char_buffer x(p, len); mix(d, x.data(), x.size()); ST::string_stream ss; ss.append(p, len); ss << 7; mixs(d, ss.to_string(false)); break; }
                        default: { auto x = ST::latin_1_to_wchar(p, len); mix(d, x.data(), x.size() * sizeof(wchar_t)); mixs(d, ST::format_latin_1("{}", std::string_view(p, len))); break; }
                        }
                    }
                } else if (content == 1) {
                    for (unsigned q = 0; q < 8; ++q) {
                        ++out.calls;
                        switch ((q + rot) % 8) {
                        case 0: { auto x = ST::utf8_to_utf16(p, len, ST::substitute_invalid); mix(d, x.data(), x.size() * 2); break; }
                        case 1: { auto x = ST::utf8_to_utf32(p, len, ST::substitute_invalid); mix(d, x.data(), x.size() * 4); break; }
                        case 2: { auto x = ST::utf8_to_latin_1(p, len, ST::substitute_invalid); mix(d, x.data(), x.size()); break; }
                        case 3: { auto x = ST::utf8_to_wchar(p, len, ST::substitute_invalid); mix(d, x.data(), x.size() * sizeof(wchar_t)); break; }
                        case 4: mixs(d, ST::string::from_utf8(p, len, ST::substitute_invalid)); break;
                        case 5: { ST::string x(p, len, ST::substitute_invalid); mixs(d, x); x.set(p, len / 2, ST::substitute_invalid); mixs(d, x); break; }
                        case 6: try { mixs(d, ST::string::from_utf8(p, len, ST::check_validity)); } catch (const ST::unicode_error &) { mixv(d, 81); } break;
                        default: { ST::string x = ST::string::from_validated(p, len); mixv(d, ST::hash()(x)); try { mixs(d, ST::format("{>90}|{}", std::string_view(p, len), 5)); } catch (const ST::unicode_error &) { mixv(d, 84); } break; }
                        }
                    }
                } else {
                    // (pointer, length) needles out of the record, searched in a thread-local haystack that holds the record's text
                    S ht;
                    for (size_t k = r.below(40); k-- > 0;) ht += static_cast<char>('a' + r.below(8));
                    ht.append(p, len - 1);
                    for (size_t k = r.below(40); k-- > 0;) ht += static_cast<char>('a' + r.below(8));
                    const ST::string hay = ST::string::from_validated(ht.data(), ht.size());
                    const size_t na = r.below(len - 4), nl = std::min<size_t>(len - 1 - na, 4 + r.below(37));
                    const char *np = p + na;
                    ++out.needles;
                    for (unsigned q = 0; q < 8; ++q) {
                        ++out.calls;
                        switch ((q + rot) % 8) {
                        case 0: mixv(d, static_cast<uint64_t>(hay.find(np, nl)) + 3 * static_cast<uint64_t>(hay.find_last(np, nl)) + hay.contains(np, nl)); break;
                        case 1: mixv(d, static_cast<uint64_t>(hay.find(np, nl, ST::case_insensitive)) + 3 * static_cast<uint64_t>(hay.find_last(np, nl, ST::case_insensitive)) + hay.contains(np, nl, ST::case_insensitive)); break;
                        case 2: mixv(d, static_cast<uint64_t>(hay.find(r.below(hay.size()), np, nl)) + 3 * static_cast<uint64_t>(hay.find_last(r.below(hay.size() + 1), np, nl, ST::case_insensitive))); break;
                        case 3: mixv(d, static_cast<uint64_t>(hay.find(p)) + 3 * static_cast<uint64_t>(hay.find_last(p, ST::case_insensitive)) + hay.contains(p) + 2 * sc.hay->contains(np, nl, ST::case_insensitive) + 4 * static_cast<uint64_t>(sc.hay->find(np, nl))); ++out.cstr_calls; break;
                        case 4: mixv(d, static_cast<uint64_t>(hay.compare(p)) + 3 * static_cast<uint64_t>(hay.compare_i(p)) + 5 * static_cast<uint64_t>(hay.compare_n(p, 20)) + 7 * static_cast<uint64_t>(hay.compare_ni(p, 33)) + hay.starts_with(p) + 2 * hay.ends_with(p, ST::case_insensitive)
                                             + 4 * (hay == p) + static_cast<uint64_t>(hay.substr(static_cast<ST_ssize_t>(hay.find(p) < 0 ? 0 : hay.find(p))).compare(p))); ++out.cstr_calls; break;
                        case 5: { ST::string x(p); mixs(d, x); x = p + (len > 40 ? 30 : 0); mixs(d, x); x += p; mixs(d, x); mixs(d, hay + p); ++out.cstr_calls; break; }
                        case 6: { ST::string_stream ss; ss << p << 1 << p + len / 2; mixs(d, ss.to_string()); mixs(d, ST::format("{}|{>80}|{<3}", p, p + len / 3, p + len - 2)); ++out.cstr_calls; break; }
                        default: { ST::char_buffer cb(p, len - 1); mixv(d, static_cast<uint64_t>(cb.compare(p)) + 3 * static_cast<uint64_t>(cb.compare_n(p + 1, 9)) + static_cast<uint64_t>(ST::char_buffer::compare(p, len - 1, np, nl))); mixs(d, ST::hex_encode(np, nl)); ++out.cstr_calls; break; }
                        }
                    }
                }
            } else if (kind == 7) {
                // ---- the char16_t record
                for (size_t i = 0; i < L.n16; ++i) img16[i] = static_cast<char16_t>(r.chance(1, 2) ? 0x20 + r.below(0x5f) : 0xA0 + r.below(0x2000));
                const unsigned mode = static_cast<unsigned>(r.below(4));
                if (mode == 1) for (size_t i = 0; i < L.n16; ++i) img16[i] = static_cast<char16_t>(0x20 + r.below(0x5f));
                if (mode >= 2) { const size_t at = r.chance(1, 2) ? L.n16 - 2 - r.below(3) : r.below(L.n16 - 1); img16[at] = static_cast<char16_t>(0xD800 + r.below(0x400)); img16[at + 1] = static_cast<char16_t>(0xDC00 + r.below(0x400)); }
                if (mode == 3) img16[r.chance(1, 2) ? L.n16 - 1 : r.below(L.n16)] = static_cast<char16_t>(0xD800 + r.below(0x800));
                memcpy(L.rec16, img16.data(), L.n16 * 2);
                size_t a = 0, b = 0;
                if (r.chance(2, 5)) { a = r.below(5); b = r.below(5); }
                const char16_t *p = L.rec16 + a;
                const size_t len = L.n16 - a - b;
                if (reinterpret_cast<uintptr_t>(p) & 7) ++out.ranges_not_8_aligned;
                out.calls += 5;
                { auto x = ST::utf16_to_utf8(p, len, ST::substitute_invalid); mix(d, x.data(), x.size()); }
                { auto x = ST::utf16_to_utf32(p, len, ST::substitute_invalid); mix(d, x.data(), x.size() * 4); }
                { auto x = ST::utf16_to_latin_1(p, len, ST::substitute_invalid); mix(d, x.data(), x.size()); }
                mixs(d, ST::string::from_utf16(p, len, ST::substitute_invalid));
                { ST::utf16_buffer x(p, len); mixv(d, static_cast<uint64_t>(x.compare(x)) + x.size()); ST::string y; y.set(p, len, ST::substitute_invalid); mixs(d, y); }
            } else if (kind == 8) {
                // ---- the char32_t record (also read as wchar_t)
                for (size_t i = 0; i < L.n32; ++i) img32[i] = static_cast<char32_t>(r.chance(1, 2) ? 0x20 + r.below(0x5f) : r.chance(1, 2) ? 0xA0 + r.below(0x2000) : 0x10000 + r.below(0x20000));
                const unsigned mode = static_cast<unsigned>(r.below(3));
                if (mode == 1) for (size_t i = 0; i < L.n32; ++i) img32[i] = static_cast<char32_t>(0x20 + r.below(0x5f));
                if (mode == 2) img32[r.chance(1, 2) ? L.n32 - 1 : r.below(L.n32)] = static_cast<char32_t>(r.chance(1, 2) ? 0x110000 + r.below(0x1000) : 0xD800 + r.below(0x800));
                memcpy(L.rec32, img32.data(), L.n32 * 4);
                size_t a = 0, b = 0;
                if (r.chance(2, 5)) { a = r.below(3); b = r.below(3); }
                const char32_t *p = L.rec32 + a;
                const size_t len = L.n32 - a - b;
                if (reinterpret_cast<uintptr_t>(p) & 7) ++out.ranges_not_8_aligned;
                out.calls += 6;
                { auto x = ST::utf32_to_utf8(p, len, ST::substitute_invalid); mix(d, x.data(), x.size()); }
                { auto x = ST::utf32_to_utf16(p, len, ST::substitute_invalid); mix(d, x.data(), x.size() * 2); }
                { auto x = ST::utf32_to_latin_1(p, len, ST::substitute_invalid); mix(d, x.data(), x.size()); }
                mixs(d, ST::string::from_utf32(p, len, ST::substitute_invalid));
                { auto x = ST::wchar_to_utf8(reinterpret_cast<const wchar_t *>(p), len, ST::substitute_invalid); mix(d, x.data(), x.size()); }
                mixs(d, ST::string::from_wchar(reinterpret_cast<const wchar_t *>(p), len, ST::substitute_invalid));
            } else if (kind < 11) {
                // ---- padded fields through the stdio and iostream writers, to sinks of the thread's own, in the thread's own fill character
                const size_t lines = 1 + r.below(6);
                const unsigned fk = step % 97 == 13 ? 2 : static_cast<unsigned>(r.below(2));       // open_memstream / fmemopen / (rarely: it is a real file) tmpfile
                char *mem = nullptr;
                size_t msz = 0;
                memset(membuf.data(), 0, membuf.size());
                FILE *fp = fk == 0 ? open_memstream(&mem, &msz) : fk == 1 ? fmemopen(membuf.data(), membuf.size(), "w") : tmpfile();
                std::ostringstream os;
                if (!fp) { mixv(d, 82); continue; }
                ++out.files[fk];
                static const size_t runs[] = {2, 2, 3, 4, 7, 8, 9, 12, 15, 16, 17, 31, 32, 33, 63, 64, 65, 66, 100, 127, 128, 129, 150, 199, 200};
                for (size_t ln = 0; ln < lines; ++ln) {
                    const unsigned long v1 = static_cast<unsigned long>(r.below(100000)), v2 = static_cast<unsigned long>(r.below(1000));
                    static const char *const words[] = {"x", "ab", "pad", "text"};
                    const char *w = words[r.below(4)];
                    const size_t r1 = r.pick(runs), r2 = 2 + r.below(199), r3 = r.pick(runs);
                    char hx[32];
                    snprintf(hx, sizeof(hx), "%lx", v1);
                    const S fmt = pad_spec(L.style, r1, strlen(hx), false, true) + "|" + pad_spec(L.style, r2, std::to_string(v2).size(), false, false) + "|" + pad_spec(L.style == 0 ? 1 : L.style, r3, strlen(w), r.chance(1, 2), false) + "\n";
                    ST::printf(fp, fmt.c_str(), v1, v2, w);
                    ST::writef(os, fmt.c_str(), v1, v2, w);
                    ++out.printf_lines;
                    ++out.writef_lines;
                    out.pad_runs += 6;
                    out.longest_pad = std::max<uint64_t>(out.longest_pad, std::max(r1, std::max(r2, r3)));
                    out.calls += 2;
                }
                if (fk == 2) {
                    fflush(fp);
                    rewind(fp);
                    const size_t got = fread(membuf.data(), 1, membuf.size(), fp);
                    mix(d, membuf.data(), got);
                    mixv(d, got);
                    fclose(fp);
                } else {
                    fclose(fp);
                    if (fk == 0) { mix(d, mem, msz); mixv(d, msz); free(mem); }
                    else { const size_t got = strnlen(membuf.data(), membuf.size()); mix(d, membuf.data(), got); mixv(d, got); }
                }
                const S o = os.str();
                mix(d, o.data(), o.size());
            } else {
                // ---- const members of string_streams that every thread reads
                const size_t which = r.below(3);
                const ST::string_stream &ss = *sc.ss[which];
                ++out.stream_reads;
                out.calls += 4;
                const ST::string u = ss.to_string();
                mixs(d, u);
                if (u.size() != sc.text[which].size() || memcmp(u.c_str(), sc.text[which].data(), u.size()) != 0) mixv(d, 83);
                if (which != 2 || r.chance(1, 4)) { mixs(d, ss.to_string(false)); mixs(d, ss.to_string(true, ST::substitute_invalid)); }
                mix(d, ss.raw_buffer(), std::min<size_t>(ss.size(), 4096));
                mixv(d, ss.size());
            }
        }
    } catch (const std::exception &e) {
        out.error = std::string(typeid(e).name()) + ": " + e.what();
    }
    out.t1 = now_ns();
}

static void body()
{
    vrt::require("rounds", 2);
    vrt::require("ops.concurrent", 10000);
    vrt::require("overlap.same_shared_object_pairs", 100);
    vrt::require("overlap.same_operation_pairs", 100);
    // scale: const operations on shared objects of 64 KiB .. 1 MiB, overlapping in time on the same object
    vrt::require("scale.ops_on_big_shared_objects.concurrent", 500);
    vrt::require("scale.overlap.same_big_shared_object_pairs", 50);
    vrt::require("scale.overlap.same_operation_on_same_big_object_pairs", 1);
    vrt::require("shared_objects.verified", 50);
    vrt::case_cpu_budget() = 600;
    const size_t rounds = vrt::tier_count(6, 80);
    vrt::phase("rounds", rounds, [&](uint64_t round, Rng &r) {
        const size_t nthreads = (round % 2) ? 16 : 4;
        const size_t nops = vrt::thorough() ? (round % 5 == 0 ? 50000 : 8000) : (round % 3 == 0 ? 6000 : 2500);
        const size_t big_every = std::max<size_t>(12, nops / (vrt::thorough() ? 96 : 32));      // about 32 (96) big steps in each thread program
        std::vector<uint64_t> seeds;
        for (size_t k = 0; k < nthreads; ++k) seeds.push_back(r.next());
        Shared sh;
        build_shared(sh, r, vrt::thorough() && round % 2);
        std::vector<ThreadOut> conc(nthreads), seq(nthreads);
        vrt::cur_printf("round=%llu threads=%zu ops/thread=%zu\n", static_cast<unsigned long long>(round), nthreads, nops);
        // ---- concurrent round: threads start behind a barrier
        {
            std::atomic<int> ready(0);
            std::atomic<bool> go(false);
            std::vector<std::thread> th;
            for (size_t k = 0; k < nthreads; ++k)
                th.emplace_back([&, k] {
                    ready.fetch_add(1);
                    while (!go.load(std::memory_order_acquire)) { }
                    run_program(seeds[k], nops, big_every, sh, conc[k], true);
                });
            while (ready.load() < static_cast<int>(nthreads)) { }
            go.store(true, std::memory_order_release);
            for (auto &t : th) t.join();
        }
        verify_shared(sh, "after the concurrent round");
        // ---- the same programs alone, afterwards
        for (size_t k = 0; k < nthreads; ++k) run_program(seeds[k], nops, big_every, sh, seq[k], false);
        verify_shared(sh, "after the sequential re-run");
        for (size_t k = 0; k < nthreads; ++k) {
            vrt::evals(conc[k].ops);
            vrt::count("ops.concurrent", conc[k].ops);
            vrt::count("scale.ops_on_big_shared_objects.concurrent", conc[k].big_ops);
            if (!conc[k].error.empty() || !seq[k].error.empty())
                vrt::violation("C20:exception-in-thread-program", sfmt("thread %zu: concurrent '%s' sequential '%s'", k, conc[k].error.c_str(), seq[k].error.c_str()));
            else if (conc[k].digest != seq[k].digest || conc[k].ops != seq[k].ops)
                vrt::violation("C20:thread-result-differs-from-sequential-run", sfmt("round %llu thread %zu of %zu: digest %016llx concurrently, %016llx alone (%llu ops)", static_cast<unsigned long long>(round), k, nthreads,
                                                                                  static_cast<unsigned long long>(conc[k].digest), static_cast<unsigned long long>(seq[k].digest), static_cast<unsigned long long>(conc[k].ops)));
        }
        // ---- how concurrent was it: time-overlapping operation pairs between different threads
        {
            struct Ev { uint64_t t; int kind; uint32_t th; uint16_t op, obj; };
            std::vector<Ev> ev;
            size_t sample_every = 1;
            size_t total = nthreads * nops;
            if (total > 400000) sample_every = total / 400000 + 1;
            for (size_t k = 0; k < nthreads; ++k)
                for (size_t i = 0; i < conc[k].stamps.size(); i += sample_every) {
                    const OpStamp &s = conc[k].stamps[i];
                    ev.push_back(Ev{s.t0, 0, static_cast<uint32_t>(k), s.op, s.obj});
                    ev.push_back(Ev{s.t1, 1, static_cast<uint32_t>(k), s.op, s.obj});
                }
            std::sort(ev.begin(), ev.end(), [](const Ev &a, const Ev &b) { return a.t < b.t || (a.t == b.t && a.kind > b.kind); });
            std::vector<int> open_obj(sh.strs.size(), 0), open_op(NOPS, 0), open_op_obj(static_cast<size_t>(NOPS) * sh.strs.size(), 0);
            uint64_t same_obj = 0, same_op = 0, any = 0, same_big = 0, same_op_big = 0;
            int open_total = 0;
            for (const Ev &e : ev) {
                const bool shared = on_shared(e.op), big = shared && e.obj >= sh.nsmall;
                if (e.kind == 0) {
                    any += static_cast<uint64_t>(open_total);
                    if (shared) same_obj += static_cast<uint64_t>(open_obj[e.obj]);
                    if (big) { same_big += static_cast<uint64_t>(open_obj[e.obj]); same_op_big += static_cast<uint64_t>(open_op_obj[e.op * sh.strs.size() + e.obj]); }
                    same_op += static_cast<uint64_t>(open_op[e.op]);
                    ++open_total;
                    if (shared) { ++open_obj[e.obj]; ++open_op_obj[e.op * sh.strs.size() + e.obj]; }
                    ++open_op[e.op];
                } else {
                    --open_total;
                    if (shared) { --open_obj[e.obj]; --open_op_obj[e.op * sh.strs.size() + e.obj]; }
                    --open_op[e.op];
                }
            }
            vrt::count("overlap.any_pairs", any);
            vrt::count("overlap.same_shared_object_pairs", same_obj);
            vrt::count("overlap.same_operation_pairs", same_op);
            vrt::count("scale.overlap.same_big_shared_object_pairs", same_big);
            vrt::count("scale.overlap.same_operation_on_same_big_object_pairs", same_op_big);
        }
        vrt::count("rounds");
        vrt::count(sfmt("rounds.with_%zu_threads", nthreads));
        vrt::distinct(vrt::fnv_u64(seeds[0], vrt::fnv_u64(nthreads, 161)));
        vrt::sample("rounds", sfmt("round %llu: %zu threads x %zu operations (%d kinds: %d const operations on 8 small + %zu big (64 KiB .. 1 MiB) shared strings and 4 + 4 shared buffers, the others on thread-local objects), digests compared with a sequential re-run",
                                   static_cast<unsigned long long>(round), nthreads, nops, NOPS, 20 + NOPS_SHARED2, sh.nbig()), 2);
        {
            std::string sizes;
            for (size_t k = sh.nsmall; k < sh.strs.size(); ++k) sizes += sfmt(" %zu", sh.strs[k].size());
            vrt::sample("scale", sfmt("round %llu: one step in %zu is a const operation on one of %zu shared strings of%s bytes (or on shared buffers of %zu / %zu / %zu / %zu units); every shared object compared with its private copy after the round",
                                      static_cast<unsigned long long>(round), big_every, sh.nbig(), sizes.c_str(), sh.big_cbuf.size(), sh.big_u16buf.size(), sh.big_u32buf.size(), sh.big_wbuf.size()), 1);
        }
    });

    // neighbours: records of several threads back to back in one arena, private sinks with different fill characters, shared
    // const streams (see lane_program)
    {
        vrt::require("neighbours.rounds", 4);
        vrt::require("neighbours.library_calls", 70000);
        vrt::require("neighbours.ranges_not_8_byte_aligned", 5000);
        vrt::require("neighbours.records_starting_inside_a_word_of_the_neighbour's", 20);
        vrt::require("neighbours.records_refilled_by_a_caller_buffer_decoder", 2000);
        vrt::require("neighbours.pointer_length_needles", 1000);
        vrt::require("neighbours.printf_lines", 2000);
        vrt::require("neighbours.rounds_with_3_or_more_fill_characters", 4);
        vrt::require("neighbours.const_stream_reads", 1000);
        vrt::require("neighbours.thread_pairs_overlapping_in_time", 10);
        vrt::require("neighbours.dull_runs_followed_by_a_remarkable_call", 20);
        const size_t ncases = vrt::tier_count(8, 48);
        vrt::phase("neighbours", ncases, [&](uint64_t c, Rng &r) {
            static const size_t tcounts[] = {4, 16, 8, 5, 12, 3, 6, 7};
            static const size_t odd_sizes[] = {45, 61, 99, 131, 33, 259};
            const size_t T = tcounts[c % 8];
            const size_t steps = vrt::thorough() ? (c % 8 == 0 ? 12000 : 4000) : 1000;
            const size_t reclen = c % 4 == 3 ? r.pick(odd_sizes) : 75, n16 = 37, n32 = 19;
            const size_t off = r.below(8), off16 = r.below(4), off32 = r.below(2);
            char *arena = static_cast<char *>(malloc(off + T * reclen));
            char16_t *arena16 = static_cast<char16_t *>(malloc((off16 + T * n16) * 2));
            char32_t *arena32 = static_cast<char32_t *>(malloc((off32 + T * n32) * 4));
            if (!arena || !arena16 || !arena32) { fprintf(stderr, "threads harness: out of memory\n"); _exit(98); }
            memset(arena, ' ', off + T * reclen);
            memset(arena16, 0, (off16 + T * n16) * 2);
            memset(arena32, 0, (off32 + T * n32) * 4);
            std::vector<Lane> lanes(T);
            std::vector<uint64_t> seeds(T);
            size_t inside_word = 0;
            std::string fills;
            for (size_t k = 0; k < T; ++k) {
                lanes[k] = Lane{arena + off + k * reclen, reclen, arena16 + off16 + k * n16, n16, arena32 + off32 + k * n32, n32, static_cast<unsigned>((k + c) % (sizeof(lane_fills) - 1))};
                seeds[k] = r.next();
                if (k > 0 && (reinterpret_cast<uintptr_t>(lanes[k].rec) & 7)) ++inside_word;
                if (fills.find(lane_fills[lanes[k].style]) == std::string::npos) fills += lane_fills[lanes[k].style];
            }
            // shared const objects
            ST::string_stream streams[3];
            SharedConst sc;
            {
                const size_t sizes[3] = {40 + r.below(200), 300 + r.below(3000), scale::length(r, 80000, 65536)};
                for (int k = 0; k < 3; ++k) {
                    S t = k == 0 ? S() : scale::utf8_background(r, sizes[k] - 30, scale::MIXED_UTF8);
                    while (t.size() < sizes[k]) { if (r.chance(1, 5)) ref::enc_utf8(t, 0xE9); else t += static_cast<char>('a' + r.below(26)); }
                    if (k == 1) { for (size_t at = 0; at < t.size();) { const size_t m = std::min<size_t>(1 + r.below(40), t.size() - at); streams[k].append(t.data() + at, m); at += m; } }      // grown by many small appends
                    else streams[k].append(t.data(), t.size());
                    sc.ss[k] = &streams[k];
                    sc.text[k] = t;
                }
            }
            S hay_text;
            while (hay_text.size() < 3000) hay_text += r.chance(1, 6) ? ' ' : static_cast<char>('a' + r.below(8));
            scale::plant(hay_text, 2900, "nEEDLE tail");
            const ST::string shared_hay = ST::string::from_validated(hay_text.data(), hay_text.size());
            sc.hay = &shared_hay;
            std::vector<LaneOut> conc(T), seq(T);
            vrt::cur_printf("neighbours case=%llu threads=%zu steps/thread=%zu record=%zu bytes at +%zu\n", static_cast<unsigned long long>(c), T, steps, reclen, off);
            {
                std::atomic<int> ready(0);
                std::atomic<bool> go(false);
                std::vector<std::thread> th;
                for (size_t k = 0; k < T; ++k)
                    th.emplace_back([&, k] {
                        ready.fetch_add(1);
                        while (!go.load(std::memory_order_acquire)) std::this_thread::yield();
                        lane_program(seeds[k], steps, lanes[k], sc, conc[k]);
                    });
                while (ready.load() < static_cast<int>(T)) std::this_thread::yield();
                go.store(true, std::memory_order_release);
                for (auto &t : th) t.join();
            }
            for (size_t k = 0; k < T; ++k) lane_program(seeds[k], steps, lanes[k], sc, seq[k]);
            for (int k = 0; k < 3; ++k)
                if (streams[k].size() != sc.text[k].size() || memcmp(streams[k].raw_buffer(), sc.text[k].data(), sc.text[k].size()) != 0)
                    vrt::violation("C20:shared-object-changed", sfmt("shared const string_stream #%d (%zu bytes) after the neighbours round: size %zu", k, sc.text[k].size(), streams[k].size()));
            if (shared_hay.size() != hay_text.size() || memcmp(shared_hay.c_str(), hay_text.data(), hay_text.size() + 1) != 0)
                vrt::violation("C20:shared-object-changed", "shared haystack after the neighbours round");
            uint64_t pairs = 0;
            for (size_t k = 0; k < T; ++k) {
                const LaneOut &o = conc[k];
                vrt::evals(o.calls);
                vrt::count("neighbours.steps", o.steps);
                vrt::count("neighbours.library_calls", o.calls);
                vrt::count("neighbours.ranges_not_8_byte_aligned", o.ranges_not_8_aligned);
                vrt::count("neighbours.records_refilled_by_a_caller_buffer_decoder", o.refills_by_library);
                vrt::count("neighbours.pointer_length_needles", o.needles);
                vrt::count("neighbours.const_char_pointer_calls", o.cstr_calls);
                vrt::count("neighbours.printf_lines", o.printf_lines);
                vrt::count("neighbours.writef_lines", o.writef_lines);
                vrt::count("neighbours.padding_runs", o.pad_runs);
                vrt::count("neighbours.sinks.open_memstream", o.files[0]);
                vrt::count("neighbours.sinks.fmemopen", o.files[1]);
                vrt::count("neighbours.sinks.tmpfile", o.files[2]);
                vrt::count("neighbours.const_stream_reads", o.stream_reads);
                vrt::count("neighbours.dull_runs_followed_by_a_remarkable_call", o.boring_runs);
                if (o.longest_pad >= 200) vrt::count("neighbours.threads_with_a_padding_run_of_200");
                for (size_t m = k + 1; m < T; ++m) if (conc[k].t0 < conc[m].t1 && conc[m].t0 < conc[k].t1) ++pairs;
                if (!conc[k].error.empty() || !seq[k].error.empty())
                    vrt::violation("C20:exception-in-thread-program", sfmt("neighbours case %llu thread %zu: concurrent '%s' sequential '%s'", static_cast<unsigned long long>(c), k, conc[k].error.c_str(), seq[k].error.c_str()));
                else if (conc[k].digest != seq[k].digest || conc[k].calls != seq[k].calls)
                    vrt::violation("C20:thread-result-differs-from-sequential-run", sfmt("neighbours case %llu thread %zu of %zu (fill character '%c'): digest %016llx concurrently, %016llx alone (%llu library calls)", static_cast<unsigned long long>(c), k, T,
                                                                                      lane_fills[lanes[k].style], static_cast<unsigned long long>(conc[k].digest), static_cast<unsigned long long>(seq[k].digest), static_cast<unsigned long long>(conc[k].calls)));
            }
            vrt::count("neighbours.rounds");
            vrt::count("neighbours.threads", T);
            vrt::count("neighbours.records_starting_inside_a_word_of_the_neighbour's", inside_word);
            vrt::count("neighbours.thread_pairs_overlapping_in_time", pairs);
            if (fills.size() >= 3) vrt::count("neighbours.rounds_with_3_or_more_fill_characters");
            vrt::distinct(vrt::fnv_u64(seeds[0], vrt::fnv_u64(T, 163)));
            vrt::sample("neighbours", sfmt("case %llu: %zu threads x %zu steps, each on its own %zu-byte record (byte arena starts at +%zu: %zu records start inside an 8-byte word of their neighbour's), its own 37-unit char16_t and 19-unit char32_t record, its own stdio / iostream sinks with fill characters \"%s\", and three shared const string_streams of %zu / %zu / %zu bytes",
                                           static_cast<unsigned long long>(c), T, steps, reclen, off, inside_word, fills.c_str(), sc.text[0].size(), sc.text[1].size(), sc.text[2].size()), 2);
            free(arena);
            free(arena16);
            free(arena32);
        });
    }
}

VRT_MAIN(body)
