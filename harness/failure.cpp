// C18 - a failed operation leaves its target and its arguments unchanged.
// Every throwing entry point is driven with invalid data of every kind against
// targets and arguments of every size class; after catching the exception all
// watched objects are compared with the values captured before the call, the
// allocation registry is checked for leaks, and the objects are used again.
// The scale phase runs the same table with the invalid datum behind up to 1 Mi
// valid units and with targets (strings, streams) of up to 1 MiB.
#include "vrt.h"
#include "vrt_alloc.h"
#include "vrt_st.h"
#include "ref_unicode.h"
#include "gen_text.h"
#include "gen_scale.h"
#include "ambient.h"
#include <sstream>
#include <optional>

using vrt::Rng;
using vrt::sfmt;
namespace va = vrt::alloc;
typedef std::string S;

static std::string show(const S &s) { return vrt::hex(s.data(), s.size(), 1, 40); }

static std::string g_op;        // scenario name
static std::string g_ctx;

static void fail(const char *what, const std::string &detail)
{
    va::HarnessScope hs;
    vrt::violation(sfmt("C18:%s:%s", g_op.c_str(), what), sfmt("%s %s", g_ctx.c_str(), detail.c_str()));
}

// objects that must still hold their value after the failed call
struct Watch {
    std::vector<std::function<void(const char *)>> checks;
    void str(const char *role, const ST::string *p)
    {
        S v(p->c_str(), p->size());
        checks.push_back([=](const char *when) {
            S now(p->c_str(), p->size());
            if (now != v) fail(sfmt("%s-changed", role).c_str(), sfmt("(%s) was %zu bytes %s now %zu bytes %s, first difference at byte %zu", when, v.size(), show(v).c_str(), now.size(), show(now).c_str(), scale::first_diff(v, now)));
            if (p->c_str()[p->size()] != 0) fail(sfmt("%s-no-terminator", role).c_str(), when);
        });
    }
    template <typename T> void buf(const char *role, const ST::buffer<T> *p)
    {
        std::basic_string<T> v(p->data(), p->size());
        checks.push_back([=](const char *when) {
            std::basic_string<T> now(p->data(), p->size());
            if (now != v) fail(sfmt("%s-changed", role).c_str(), sfmt("(%s) was %zu units %s now %zu units %s", when, v.size(), vrt::hex(v.data(), v.size(), sizeof(T), 30).c_str(), now.size(), vrt::hex(now.data(), now.size(), sizeof(T), 30).c_str()));
        });
    }
    template <typename T> void stl(const char *role, const std::basic_string<T> *p)
    {
        std::basic_string<T> v(*p);
        checks.push_back([=](const char *when) { if (*p != v) fail(sfmt("%s-changed", role).c_str(), when); });
    }
    void stream(const char *role, const ST::string_stream *p)
    {
        S v(p->raw_buffer(), p->size());
        checks.push_back([=](const char *when) {
            S now(p->raw_buffer(), p->size());
            if (now != v) fail(sfmt("%s-changed", role).c_str(), sfmt("(%s) size was %zu now %zu, first difference at byte %zu", when, v.size(), now.size(), scale::first_diff(v, now)));
        });
    }
    void verify(const char *when) { va::HarnessScope hs; for (auto &c : checks) c(when); vrt::evals(); }
};

enum Exc { UNICODE, CODEC, BADFMT, RANGE };
static const char *ename(Exc e) { return e == UNICODE ? "ST::unicode_error" : e == CODEC ? "ST::codec_error" : e == BADFMT ? "ST::bad_format" : "std::out_of_range"; }

// run `f`, which must throw `want`; then verify the watched objects
template <typename F>
static bool must_throw(Exc want, Watch &w, F &&f)
{
    vrt::cur_rewind();
    vrt::cur_printf("op=%s %s\n", g_op.c_str(), g_ctx.c_str());
    vrt::evals();
    bool thrown = false;
    const size_t live_before = va::reg().live_lib;
    try {
        va::LibScope ls;
        f();
    } catch (const ST::unicode_error &) { thrown = want == UNICODE; if (!thrown) fail("wrong-exception", "unicode_error");
    } catch (const ST::codec_error &) { thrown = want == CODEC; if (!thrown) fail("wrong-exception", "codec_error");
    } catch (const ST::bad_format &) { thrown = want == BADFMT; if (!thrown) fail("wrong-exception", "bad_format");
    } catch (const std::out_of_range &) { thrown = want == RANGE; if (!thrown) fail("wrong-exception", "out_of_range"); }
    if (!thrown) { fail("did-not-throw", ename(want)); return false; }
    w.verify("after the exception");
    if (va::reg().live_lib != live_before)
        fail("leak", sfmt("%zu library allocations made by the failed call are still alive", va::reg().live_lib - live_before));
    vrt::count(std::string("threw.") + ename(want));
    vrt::count("scenarios");
    return true;
}

// ---------------------------------------------------------------- data
static const size_t TARGET_LENS[] = {0, 5, 15, 16, 17, 40};

static S valid8(Rng &r, size_t n)
{
    S t;
    while (t.size() < n) {
        if (n - t.size() >= 4 && r.chance(1, 4)) ref::enc_utf8(t, 0x1F600);
        else if (n - t.size() >= 2 && r.chance(1, 3)) ref::enc_utf8(t, 0xE9);
        else t += static_cast<char>('a' + r.below(26));
    }
    return t;
}
// malformed UTF-8 of total length about n with the damage at the start / middle / end
static S bad8(Rng &r, size_t n, int where)
{
    static const char *const pieces[] = {"\x80", "\xC3", "\xE2\x82", "\xF0\x9F\x98", "\xF8", "\xFF", "\xC3\x41", "\xBF\xBF", "\xE2\x41\x82"};
    S piece = r.pick(pieces);
    size_t rest = n > piece.size() ? n - piece.size() : 0;
    size_t a = where == 0 ? 0 : where == 1 ? rest / 2 : rest;
    S out = valid8(r, a) + piece + (where == 2 && (piece.back() & 0x80) ? S() : valid8(r, rest - a));
    if (!ref::has_bad(ref::decode_utf8(out))) out += "\xFF";
    return out;
}
static std::u16string bad16(Rng &r, size_t n, int where)
{
    std::u16string out;
    for (size_t k = 0; k < n; ++k) out += static_cast<char16_t>('a' + r.below(26));
    char16_t lone = r.chance(1, 2) ? 0xD800 + r.below(0x400) : 0xDC00 + r.below(0x400);
    size_t pos = where == 0 ? 0 : where == 1 ? n / 2 : n;
    out.insert(pos, 1, lone);
    return out;
}
static std::u32string bad32(Rng &r, size_t n, int where)
{
    std::u32string out;
    for (size_t k = 0; k < n; ++k) out += static_cast<char32_t>(r.chance(1, 4) ? 0x1F600 : 'a' + r.below(26));
    static const char32_t bads[] = {0x110000, 0x7FFFFFFF, 0xFFFFFFFFu, 0x200000};
    size_t pos = where == 0 ? 0 : where == 1 ? n / 2 : n;
    out.insert(pos, 1, r.pick(bads));
    return out;
}

// after a failure the same objects can be used normally
static void reuse(vrt::Box<ST::string> &t, const S &was)
{
    va::LibScope ls;
    *t += "+ok";
    S now((*t).c_str(), (*t).size());
    if (now != was + "+ok") fail("target-unusable-afterwards", sfmt("after += got %s", show(now).c_str()));
    *t = vrt::mk(was);
}

// ---------------------------------------------------------------- scenarios on an ST::string target
enum Group { G_UTF8 = 1, G_UTF16 = 2, G_UTF32 = 4, G_CODE_POINT = 8, G_LATIN1 = 16, G_MISC = 32, G_CODEC = 64, G_FORMAT = 128, G_ALL = 255 };

// the inputs of one pass over the scenario table
struct Data {
    S tv;                               // value of the target
    S b8;                               // ill-formed UTF-8
    std::u16string b16;                 // ill-formed UTF-16
    std::u32string b32;                 // UTF-32 with a code point above U+10FFFF
    char32_t badcp = 0x110000;
    S latin;                            // well-formed text with a character above U+00FF
    S hexbad, hexodd, b64bad, b64len;
    S badfmt, missfmt, invfmt;          // malformed format string / one that names a missing argument / one whose result is not UTF-8
    unsigned groups = G_ALL;
};

static void run_string_scenarios(Rng &r, const Data &dt)
{
    const S &tv = dt.tv, &b8 = dt.b8;
    const std::u16string &b16 = dt.b16;
    const std::u32string &b32 = dt.b32;
    const std::wstring bw(b32.begin(), b32.end());
    const bool nonul = b8.find('\0') == S::npos;
    auto grp = [&](unsigned g) { return (dt.groups & g) != 0; };

#define SCEN(name, exc, watch_extra, call)                                  \
    do {                                                                    \
        g_op = name;                                                        \
        vrt::Box<ST::string> t(vrt::mk(tv));                                \
        Watch w;                                                            \
        w.str("target", &*t);                                               \
        watch_extra;                                                        \
        if (must_throw(exc, w, [&] { call; })) reuse(t, tv);                \
    } while (0)

    // --- UTF-8 arguments
    if (grp(G_UTF8)) {
        vrt::Exact<char> z(b8.data(), b8.size(), true);
        ST::char_buffer cb(b8.data(), b8.size());
        S ss(b8);
        if (nonul) {
            SCEN("string=const char*", UNICODE, , *t = z.data());
            SCEN("string.set(const char*)", UNICODE, , t->set(z.data()));
            SCEN("string+=const char*", UNICODE, , *t += z.data());
            SCEN("string+=const char8_t*", UNICODE, , *t += reinterpret_cast<const char8_t *>(z.data()));
            SCEN("string+const char*", UNICODE, , ST::string x = *t + z.data(); (void)x);
            SCEN("const char*+string", UNICODE, , ST::string x = z.data() + *t; (void)x);
            SCEN("string.replace(const char*,..)", UNICODE, , ST::string x = t->replace(z.data(), "x"); (void)x);
            SCEN("string.replace(..,const char*)", UNICODE, , ST::string x = t->replace("a", z.data()); (void)x);
        }
        SCEN("string.set(ptr,n)", UNICODE, , t->set(z.data(), b8.size()));
        SCEN("string.set(ptr,n,check_validity)", UNICODE, , t->set(z.data(), b8.size(), ST::check_validity));
        SCEN("string=char_buffer", UNICODE, w.buf("argument", &cb), *t = cb);
        SCEN("string.set(char_buffer)", UNICODE, w.buf("argument", &cb), t->set(cb));
        SCEN("string=std::string", UNICODE, w.stl("argument", &ss), *t = ss);
        SCEN("string.set(std::string)", UNICODE, w.stl("argument", &ss), t->set(ss));
        SCEN("string=string_view", UNICODE, , *t = std::string_view(ss));
        SCEN("string=string(ctor throws)", UNICODE, , *t = ST::string(z.data(), b8.size()));
        SCEN("string=from_utf8(throws)", UNICODE, w.buf("argument", &cb), *t = ST::string::from_utf8(cb));
        // rvalue arguments keep their value when the call fails
        {
            ST::char_buffer rv(b8.data(), b8.size());
            SCEN("string=char_buffer&&", UNICODE, w.buf("rvalue-argument", &rv), *t = std::move(rv));
            SCEN("string.set(char_buffer&&)", UNICODE, w.buf("rvalue-argument", &rv), t->set(std::move(rv)));
            SCEN("string(char_buffer&&) ctor", UNICODE, w.buf("rvalue-argument", &rv), ST::string x(std::move(rv)); (void)x);
            SCEN("string(char_buffer&&,check_validity) ctor", UNICODE, w.buf("rvalue-argument", &rv), ST::string x(std::move(rv), ST::check_validity); (void)x);
            SCEN("string::from_utf8(const char_buffer&)", UNICODE, w.buf("argument", &rv), ST::string x = ST::string::from_utf8(rv); (void)x);
        }
        // stream extraction of a malformed token
        if (nonul && b8.find_first_of(" \t\n\v\f\r") == S::npos) {
            std::istringstream is(b8 + " next");
            SCEN("istream>>string", UNICODE, , is >> *t);
        }
        // free converters: arguments only
        SCEN("utf8_to_utf16(buffer)", UNICODE, w.buf("argument", &cb), auto x = ST::utf8_to_utf16(cb, ST::check_validity); (void)x);
        SCEN("utf8_to_utf32(buffer)", UNICODE, w.buf("argument", &cb), auto x = ST::utf8_to_utf32(cb, ST::check_validity); (void)x);
        SCEN("utf8_to_latin_1(buffer)", UNICODE, w.buf("argument", &cb), auto x = ST::utf8_to_latin_1(cb, ST::check_validity); (void)x);
    }
    // --- UTF-16 arguments
    if (grp(G_UTF16)) {
        vrt::Exact<char16_t> z(b16.data(), b16.size(), true);
        ST::utf16_buffer ub(b16.data(), b16.size());
        std::u16string us(b16);
        SCEN("string=const char16_t*", UNICODE, , *t = z.data());
        SCEN("string.set(char16_t*,n)", UNICODE, , t->set(z.data(), b16.size()));
        SCEN("string+=const char16_t*", UNICODE, , *t += z.data());
        SCEN("string+const char16_t*", UNICODE, , ST::string x = *t + z.data(); (void)x);
        SCEN("string=utf16_buffer", UNICODE, w.buf("argument", &ub), *t = ub);
        SCEN("string.set(utf16_buffer)", UNICODE, w.buf("argument", &ub), t->set(ub));
        SCEN("string=u16string", UNICODE, w.stl("argument", &us), *t = us);
        SCEN("string=u16string_view", UNICODE, , *t = std::u16string_view(us));
        SCEN("string=from_utf16(throws)", UNICODE, w.buf("argument", &ub), *t = ST::string::from_utf16(ub));
        SCEN("utf16_to_utf8(buffer)", UNICODE, w.buf("argument", &ub), auto x = ST::utf16_to_utf8(ub, ST::check_validity); (void)x);
        SCEN("utf16_to_utf32(buffer)", UNICODE, w.buf("argument", &ub), auto x = ST::utf16_to_utf32(ub, ST::check_validity); (void)x);
    }
    // --- UTF-32 / wchar_t arguments
    if (grp(G_UTF32)) {
        vrt::Exact<char32_t> z(b32.data(), b32.size(), true);
        vrt::Exact<wchar_t> zw(bw.data(), bw.size(), true);
        ST::utf32_buffer ub(b32.data(), b32.size());
        ST::wchar_buffer wb(bw.data(), bw.size());
        std::u32string us(b32);
        std::wstring ws(bw);
        SCEN("string=const char32_t*", UNICODE, , *t = z.data());
        SCEN("string=const wchar_t*", UNICODE, , *t = zw.data());
        SCEN("string.set(char32_t*,n)", UNICODE, , t->set(z.data(), b32.size()));
        SCEN("string.set(wchar_t*,n)", UNICODE, , t->set(zw.data(), bw.size()));
        SCEN("string+=const char32_t*", UNICODE, , *t += z.data());
        SCEN("string+=const wchar_t*", UNICODE, , *t += zw.data());
        SCEN("string+const char32_t*", UNICODE, , ST::string x = *t + z.data(); (void)x);
        SCEN("const wchar_t*+string", UNICODE, , ST::string x = zw.data() + *t; (void)x);
        SCEN("string=utf32_buffer", UNICODE, w.buf("argument", &ub), *t = ub);
        SCEN("string=wchar_buffer", UNICODE, w.buf("argument", &wb), *t = wb);
        SCEN("string.set(utf32_buffer)", UNICODE, w.buf("argument", &ub), t->set(ub));
        SCEN("string=u32string", UNICODE, w.stl("argument", &us), *t = us);
        SCEN("string=wstring", UNICODE, w.stl("argument", &ws), *t = ws);
        SCEN("string=u32string_view", UNICODE, , *t = std::u32string_view(us));
        SCEN("utf32_to_utf8(buffer)", UNICODE, w.buf("argument", &ub), auto x = ST::utf32_to_utf8(ub, ST::check_validity); (void)x);
        SCEN("utf32_to_utf16(buffer)", UNICODE, w.buf("argument", &ub), auto x = ST::utf32_to_utf16(ub, ST::check_validity); (void)x);
        SCEN("wchar_to_utf8(buffer)", UNICODE, w.buf("argument", &wb), auto x = ST::wchar_to_utf8(wb, ST::check_validity); (void)x);
    }
    // --- an invalid code point appended / concatenated
    if (grp(G_CODE_POINT)) {
        const char32_t badcp = dt.badcp;
        if (badcp > 0x10FFFF) {
            SCEN("string+=char32_t", UNICODE, , *t += badcp);
            SCEN("string+=wchar_t", UNICODE, , *t += static_cast<wchar_t>(badcp));
            SCEN("string+char32_t", UNICODE, , ST::string x = *t + badcp; (void)x);
            SCEN("char32_t+string", UNICODE, , ST::string x = badcp + *t; (void)x);
            SCEN("wchar_t+string", UNICODE, , ST::string x = static_cast<wchar_t>(badcp) + *t; (void)x);
        }
    }
    // --- Latin-1 range, index range
    if (grp(G_LATIN1)) {
        g_op = "to_latin_1(false)";
        const S &txt = dt.latin;
        vrt::Box<ST::string> t(vrt::mk(txt));
        Watch w;
        w.str("target", &*t);
        if (must_throw(UNICODE, w, [&] { auto x = t->to_latin_1(false); (void)x; })) reuse(t, txt);
        g_op = "to_std_string(latin1,false)";
        Watch w2;
        w2.str("target", &*t);
        if (must_throw(UNICODE, w2, [&] { auto x = t->to_std_string(false, false); (void)x; })) reuse(t, txt);
        g_op = "to_buffer(latin1,false)";
        ST::char_buffer dest("keep", 4);
        Watch w3;
        w3.str("target", &*t);
        w3.buf("destination", &dest);
        must_throw(UNICODE, w3, [&] { t->to_buffer(dest, false, false); });
        // the std::string output-parameter forms: the caller's string keeps its value (short and long previous values)
        for (const char *prev : {"keep", "a previous value that is long enough to live on the heap"}) {
            g_op = "to_std_string(std::string&,latin1,false)";
            std::string out(prev);
            Watch w4;
            w4.str("target", &*t);
            w4.stl("destination", &out);
            must_throw(UNICODE, w4, [&] { t->to_std_string(out, false, false); });
            g_op = "to_std_string(std::string&,latin1,check_validity) [deprecated]";
            Watch w5;
            w5.str("target", &*t);
            w5.stl("destination", &out);
            must_throw(UNICODE, w5, [&] { t->to_std_string(out, false, ST::check_validity); });
        }
    }
    // --- a failed floating-point rendering leaves the formatter object as it was
    if (grp(G_MISC)) {
        g_op = "float_formatter.format(unsupported specifier)";
        for (double prev : {1.5, 1e100, -1e300}) {
            ST::float_formatter<double> ff;
            ff.format(prev, 'f');
            const S before(ff.text(), ff.size());
            bool threw = false;
            try { va::LibScope ls; ff.format(2.0, r.chance(1, 2) ? 'q' : 'd'); } catch (const ST::bad_format &) { threw = true; vrt::count("threw.ST::bad_format"); }
            vrt::evals();
            if (!threw) fail("did-not-throw", "float_formatter::format with an unsupported specifier");
            else if (ff.size() != before.size() || S(ff.text(), ff.size()) != before) fail("target-changed", sfmt("float_formatter held %zu bytes, now reports %zu", before.size(), ff.size()));
            vrt::count("scenarios");
        }
    }
    if (grp(G_MISC)) SCEN("string.at(out of range)", RANGE, , char c = t->at(tv.size() + r.below(3)); (void)c);
    if (grp(G_MISC)) {
        g_op = "buffer.at(out of range)";
        ST::char_buffer b(tv.data(), tv.size());
        Watch w;
        w.buf("target", &b);
        must_throw(RANGE, w, [&] { char c = b.at(tv.size()); (void)c; });
    }
    // --- codecs
    if (grp(G_CODEC)) {
        const S &hexbad = dt.hexbad, &hexodd = dt.hexodd, &b64bad = dt.b64bad, &b64len = dt.b64len;
        for (const S *txt : {&hexbad, &hexodd}) {
            g_op = "hex_decode";
            vrt::Box<ST::string> a(vrt::mk(*txt));
            Watch w;
            w.str("argument", &*a);
            must_throw(CODEC, w, [&] { auto x = ST::hex_decode(*a); (void)x; });
        }
        for (const S *txt : {&b64bad, &b64len}) {
            g_op = "base64_decode";
            vrt::Box<ST::string> a(vrt::mk(*txt));
            Watch w;
            w.str("argument", &*a);
            must_throw(CODEC, w, [&] { auto x = ST::base64_decode(*a); (void)x; });
        }
    }
    // --- formatting: bad format string, missing argument, invalid result; arguments passed as lvalues
    if (grp(G_FORMAT)) {
        const char *bf = dt.badfmt.c_str(), *ms = dt.missfmt.c_str(), *iv = dt.invfmt.c_str();
        SCEN("format(bad format, lvalue string)", BADFMT, , ST::string x = ST::format(bf, *t, 42); (void)x);
        SCEN("format(missing argument, lvalue string)", RANGE, , ST::string x = ST::format(ms, *t, 42); (void)x);
        SCEN("format(invalid UTF-8 result, lvalue string)", UNICODE, , ST::string x = ST::format(iv, *t, 1); (void)x);
        // (the sink lives inside the call: what an incremental sink already received is its own)
        SCEN("writef(bad format, lvalue string)", BADFMT, , std::ostringstream os; ST::writef(os, bf, *t, 42));
        // an argument passed as an rvalue: known finding K1 (by-value capture before the format string is parsed)
        {
            g_op = "format(bad format, rvalue string)";
            vrt::Box<ST::string> a(vrt::mk(tv));
            bool thrown = false;
            try { ST::string x = ST::format(bf, std::move(*a)); (void)x; } catch (const ST::bad_format &) { thrown = true; }
            vrt::evals();
            if (!thrown) fail("did-not-throw", "bad_format");
            else if (vrt::str_of(*a) != tv && !tv.empty())
                vrt::violation("C18:format:rvalue-argument-moved-from-before-parse", sfmt("ST::format(\"%s\", std::move(s)) threw bad_format but s (%zu bytes) now holds %zu bytes", dt.badfmt.size() > 200 ? "..." : bf, tv.size(), (*a).size()));
            vrt::count("format.rvalue_argument");
        }
    }
#undef SCEN
}

static const char *const BADFMTS[] = {"{", "x{", "{5", "{_", "{.", "{&", "{q}", "{} {", "{}{!}", "} {{ {"};
static const char *const MISSING[] = {"{}{}{}", "{&4}", "{&0}", "{} {} {&9}"};

static void string_target_scenarios(Rng &r, size_t tlen, size_t alen, int where)
{
    Data dt;
    dt.tv = valid8(r, tlen);
    dt.b8 = bad8(r, alen, where);
    dt.b16 = bad16(r, alen, where);
    dt.b32 = bad32(r, alen, where);
    dt.badcp = dt.b32[where == 0 ? 0 : where == 1 ? dt.b32.size() / 2 : dt.b32.size() - 1];
    g_ctx = sfmt("target=%zu bytes, argument about %zu units, damage at %s", tlen, alen, where == 0 ? "start" : where == 1 ? "middle" : "end");
    dt.latin = valid8(r, tlen / 2) + "\xC4\x80" + valid8(r, tlen / 2);
    dt.hexbad = gen::bytes_over(r, alen & ~static_cast<size_t>(1), "0123456789abcdef");
    if (dt.hexbad.empty()) dt.hexbad = "zz"; else dt.hexbad[where == 0 ? 0 : where == 1 ? dt.hexbad.size() / 2 : dt.hexbad.size() - 1] = 'g';
    dt.hexodd = gen::bytes_over(r, alen | 1, "0123456789ABCDEF");
    dt.b64bad = gen::bytes_over(r, (alen & ~static_cast<size_t>(3)) + 4, "ABCDEFabcdef0123+/");
    dt.b64bad[where == 0 ? 0 : where == 1 ? dt.b64bad.size() / 2 : dt.b64bad.size() - 1] = where == 2 ? '*' : '=';
    dt.b64len = gen::bytes_over(r, (alen & ~static_cast<size_t>(3)) + 1 + r.below(3), "ABCDEFabcdef0123+/");
    dt.badfmt = r.pick(BADFMTS);
    dt.missfmt = r.pick(MISSING);
    dt.invfmt = "{}\xFF{_\x80" "6}";
    run_string_scenarios(r, dt);
}

// ---------------------------------------------------------------- scenarios on a string_stream target
static void run_stream_scenarios(const S &content, const std::u16string &b16, const std::u32string &b32)
{
    const std::wstring bw(b32.begin(), b32.end());
#define SSCEN(name, call)                                                   \
    do {                                                                    \
        g_op = name;                                                        \
        vrt::Box<ST::string_stream> ss;                                     \
        { va::LibScope ls; ss->append(content.data(), content.size()); }    \
        Watch w;                                                            \
        w.stream("target-stream", &*ss);                                    \
        if (must_throw(UNICODE, w, [&] { call; })) {                        \
            va::LibScope ls;                                                \
            *ss << "+ok";                                                   \
            if (S(ss->raw_buffer(), ss->size()) != content + "+ok") fail("stream-unusable-afterwards", ""); \
        }                                                                   \
    } while (0)
    vrt::Exact<char16_t> z16(b16.data(), b16.size(), true);
    vrt::Exact<char32_t> z32(b32.data(), b32.size(), true);
    vrt::Exact<wchar_t> zw(bw.data(), bw.size(), true);
    SSCEN("string_stream<<const char16_t*", *ss << z16.data());
    SSCEN("string_stream<<const char32_t*", *ss << z32.data());
    SSCEN("string_stream<<const wchar_t*", *ss << zw.data());
    SSCEN("string_stream<<u16string", *ss << b16);
    SSCEN("string_stream<<u32string", *ss << b32);
    SSCEN("string_stream<<wstring", *ss << bw);
    SSCEN("string_stream<<u16string_view", *ss << std::u16string_view(b16));
    SSCEN("string_stream<<u32string_view", *ss << std::u32string_view(b32));
    SSCEN("string_stream<<wstring_view", *ss << std::wstring_view(bw));
    if (!ref::utf8_ok(content)) {
        SSCEN("string_stream.to_string(check_validity)", ST::string x = ss->to_string(true, ST::check_validity); (void)x);
    }
#undef SSCEN
}

static void stream_scenarios(Rng &r, size_t fill, size_t alen, int where)
{
    const std::u16string b16 = bad16(r, alen, where);
    const std::u32string b32 = bad32(r, alen, where);
    g_ctx = sfmt("stream holding %zu bytes, argument about %zu units, damage at %s", fill, alen, where == 0 ? "start" : where == 1 ? "middle" : "end");
    const S content = gen::any_bytes(r, fill);
    run_stream_scenarios(content, b16, b32);
}

// ================================================================ scale
// The same scenario table with the invalid datum behind q x B valid units (B from scale::blocks(), q = 1..8) and with targets
// (strings, string_streams) that are themselves big.
namespace sc {

enum Enc { E8, E16, E32 };
static inline size_t units(Enc e, char32_t c)
{
    if (e == E32) return 1;
    if (e == E16) return c >= 0x10000 ? 2 : 1;
    return c < 0x80 ? 1 : c < 0x800 ? 2 : c < 0x10000 ? 3 : 4;
}
enum Bg { BG_ASCII_CONST, BG_ASCII_RANDOM, BG_TWO, BG_THREE, BG_FOUR, BG_MIXED, N_BG };

// well-formed text of exactly n units in encoding e, appended to `out` already encoded in e
template <typename Str>
static void put(Str &out, Enc e, char32_t c)
{
    if (e == E8) { S t; ref::enc_utf8(t, c); for (char ch : t) out += static_cast<typename Str::value_type>(static_cast<unsigned char>(ch)); }
    else if (e == E16 && c >= 0x10000) { out += static_cast<typename Str::value_type>(0xD800 + ((c - 0x10000) >> 10)); out += static_cast<typename Str::value_type>(0xDC00 + ((c - 0x10000) & 0x3FF)); }
    else out += static_cast<typename Str::value_type>(c);
}
template <typename Str>
static void fill_units(Rng &r, Str &out, Enc e, size_t n, unsigned bg, bool filler_first, char32_t cap = 0x10FFFF)
{
    static const char32_t two[] = {0xE9, 0xFF, 0x80, 0x7FF, 0x100}, three[] = {0x20AC, 0x800, 0xFFFF, 0xD7FF, 0xE000, 0xFFFD}, four[] = {0x1F600, 0x10000, 0x10FFFF, 0x1F9FF};
    char32_t c2 = r.pick(two), c3 = r.pick(three), c4 = r.pick(four);
    if (cap < 0x100) { c2 = r.chance(1, 2) ? 0xE9 : 0xFF; c3 = 0x80; c4 = 0xA0; }          // (Latin-1 range only)
    const char32_t a = static_cast<char32_t>("ax _0"[r.below(5)]);
    typedef typename Str::value_type T;
    switch (bg) {
    case BG_ASCII_CONST: out.append(n, static_cast<T>(a)); return;
    case BG_ASCII_RANDOM: for (size_t k = 0; k < n; ++k) out += static_cast<T>(0x21 + r.below(0x5A)); return;      // ('{' '}' and above are left out: format strings)
    case BG_TWO: case BG_THREE: case BG_FOUR: {
        const char32_t m = bg == BG_TWO ? c2 : bg == BG_THREE ? c3 : c4;
        const size_t w = units(e, m), rem = n % w;
        if (filler_first) out.append(rem, static_cast<T>(a));
        for (size_t k = n / w; k-- > 0;) put(out, e, m);
        if (!filler_first) out.append(rem, static_cast<T>(a));
        return;
    }
    default: {
        size_t left = n;
        while (left) {
            const unsigned k = static_cast<unsigned>(r.below(6));
            char32_t c = k == 0 ? c2 : k == 1 ? c3 : k == 2 ? c4 : static_cast<char32_t>('a' + r.below(26));
            size_t w = units(e, c);
            if (w > left) { c = a; w = 1; }
            put(out, e, c);
            left -= w;
        }
    }
    }
}

static size_t pick_margin(Rng &r)
{
    return r.chance(1, 2) ? r.below(40) : r.chance(2, 3) ? 1000 + r.below(70000) : 131072 + r.below(70000);
}
static size_t pick_target_len(Rng &r, size_t cap)
{
    static const size_t small[] = {0, 5, 15, 16, 17, 40};
    if (r.chance(1, 2)) return r.pick(small);
    return scale::length(r, r.chance(1, 6) ? cap : std::min<size_t>(cap, 1u << 17), 4096);
}

// where the datum goes: `back` of its units before the point at distance dist from the beginning (or from the end) of an input of
// prefix + width + suffix units
struct Place { size_t prefix, suffix; };
static Place place(Rng &r, size_t dist, size_t width, size_t back, bool from_end, long nd)
{
    Place p;
    const size_t margin = pick_margin(r);
    if (!from_end) { p.prefix = static_cast<size_t>(std::max<long>(0, static_cast<long>(dist) - static_cast<long>(back) + nd)); p.suffix = r.chance(1, 3) ? 0 : margin; }
    else { p.prefix = margin; p.suffix = static_cast<size_t>(std::max<long>(0, static_cast<long>(dist) + static_cast<long>(back) - static_cast<long>(width) + nd)); }
    return p;
}

static const char *const BAD8_PIECES[] = {"\x80", "\xC3", "\xE2\x82", "\xF0\x9F\x98", "\xF8", "\xFF", "\xC3\x41", "\xBF\xBF", "\xE2\x41\x82", "\xF0\x9F\x41", "\xC0"};
static S bad8_build(Rng &r, const S &piece, const Place &pl, size_t &at)
{
    S out;
    out.reserve(pl.prefix + pl.suffix + 8);
    fill_units(r, out, E8, pl.prefix, static_cast<unsigned>(r.below(N_BG)), r.chance(1, 2));
    at = out.size();
    out += piece;
    fill_units(r, out, E8, pl.suffix, static_cast<unsigned>(r.below(N_BG)), r.chance(1, 2));
    if (!ref::has_bad(ref::decode_utf8(out))) { at = out.size(); out += "\xFF"; }
    return out;
}
static S bad8_at(Rng &r, size_t dist, bool from_end, long nd, size_t &at)
{
    const S piece = r.pick(BAD8_PIECES);
    const Place pl = place(r, dist, piece.size(), r.below(piece.size() + 1), from_end, nd);
    return bad8_build(r, piece, pl, at);
}
static std::u16string bad16_at(Rng &r, size_t dist, bool from_end, long nd, size_t &at)
{
    // a lone low surrogate, a lone high one (followed by an ordinary unit or by the end), two high ones
    const unsigned kind = static_cast<unsigned>(r.below(4));
    std::u16string piece;
    if (kind == 0) piece += static_cast<char16_t>(0xDC00 + r.below(0x400));
    else if (kind == 1) piece += static_cast<char16_t>(0xD800 + r.below(0x400));
    else if (kind == 2) { piece += static_cast<char16_t>(0xD800 + r.below(0x400)); piece += u'x'; }
    else { piece += static_cast<char16_t>(0xD800 + r.below(0x400)); piece += static_cast<char16_t>(0xD800 + r.below(0x400)); piece += u'y'; }
    Place pl = place(r, dist, piece.size(), r.below(piece.size() + 1), from_end, nd);
    std::u16string out;
    out.reserve(pl.prefix + pl.suffix + 8);
    fill_units(r, out, E16, pl.prefix, static_cast<unsigned>(r.below(N_BG)), r.chance(1, 2));
    at = out.size();
    out += piece;
    const size_t mark = out.size();
    fill_units(r, out, E16, pl.suffix, static_cast<unsigned>(r.below(N_BG)), true);
    // (a lone surrogate must not be completed by what follows: the library also reads low + high as a pair)
    auto sur = [](char16_t c) { return c >= 0xD800 && c <= 0xDFFF; };
    if (mark < out.size() && sur(out[mark - 1]) && sur(out[mark])) out.insert(mark, 1, u'-');
    if (!ref::has_bad(ref::decode_utf16(out.data(), out.size()))) { at = out.size(); out += static_cast<char16_t>(0xDC00); }
    return out;
}
static std::u32string bad32_at(Rng &r, size_t dist, bool from_end, long nd, size_t &at)
{
    static const char32_t bads[] = {0x110000, 0x7FFFFFFF, 0xFFFFFFFFu, 0x200000, 0x80000000u};
    const Place pl = place(r, dist, 1, r.below(2), from_end, nd);
    std::u32string out;
    out.reserve(pl.prefix + pl.suffix + 8);
    fill_units(r, out, E32, pl.prefix, static_cast<unsigned>(r.below(N_BG)), r.chance(1, 2));
    at = out.size();
    out += r.pick(bads);
    fill_units(r, out, E32, pl.suffix, static_cast<unsigned>(r.below(N_BG)), r.chance(1, 2));
    return out;
}

static const char *const GROUP_NAME[] = {"UTF-8 arguments", "UTF-16 arguments", "UTF-32 / wchar_t arguments and code points", "hex / base64 text", "format strings, Latin-1 range, index range", "string_stream targets"};

static void failure_case(uint64_t i, Rng &r)
{
    const std::vector<size_t> &BL = scale::blocks();
    const uint64_t G = BL.size() * 8 * 6;
    const uint64_t g = (i * 625) % G;                    // a fixed permutation of the grid
    const size_t B = BL[g % BL.size()];
    size_t q = 1 + (g / BL.size()) % 8;
    const unsigned group = static_cast<unsigned>((g / (BL.size() * 8)) % 6);
    const size_t CAP = vrt::opt().scale < 1.0 ? (1u << 17) : (1u << 20);
    if (B > CAP) { vrt::count("scale.skipped_too_large"); return; }
    if (B * q > CAP) q = 1 + (q - 1) % (CAP / B);
    const size_t dist = q * B;
    const bool from_end = r.chance(1, 5);
    const long nd = r.chance(1, 6) ? scale::nudge(r) : 0;
    size_t at = 0, arg_units = 0;

    if (group == 5) {
        // the target is a stream that has grown (or not); the rejected text is long (datum behind dist units) or short
        const bool short_arg = r.chance(1, 3);
        const size_t d2 = short_arg ? r.below(40) : dist;
        const std::u16string b16 = bad16_at(r, d2, from_end, nd, at);
        const std::u32string b32 = bad32_at(r, d2, from_end, nd, at);
        size_t fill;
        switch (r.below(6)) {
        case 0: fill = r.below(600); break;
        case 1: fill = (static_cast<size_t>(1) << (9 + r.below(12))) + static_cast<size_t>(2 + scale::nudge(r)) - 2; break;
        case 2: fill = CAP + r.below(3) * 4093; break;                  // (1 MiB and a bit more)
        default: fill = scale::length(r, r.chance(1, 4) ? CAP : std::min<size_t>(CAP, 1u << 18), 4096); break;
        }
        // content: well-formed text, for half of the cases with an ill-formed piece at a grid offset (to_string then throws)
        S content;
        size_t cat = 0;
        if (r.chance(1, 2)) {
            const S piece = r.pick(BAD8_PIECES);
            Place pl;
            pl.prefix = scale::offset_any(r, fill);
            pl.suffix = fill > pl.prefix + piece.size() ? fill - pl.prefix - piece.size() : 0;
            content = bad8_build(r, piece, pl, cat);
        }
        else fill_units(r, content, E8, fill, static_cast<unsigned>(r.below(N_BG)), r.chance(1, 2));
        g_ctx = sfmt("[scale] stream holding %zu bytes (%s), rejected UTF-16 text of %zu units / UTF-32 text of %zu units with the invalid unit at %zu = %s%zu x %zu%+ld", content.size(),
                     scale::brief(content, cat).c_str(), b16.size(), b32.size(), at, from_end ? "end - " : "", short_arg ? static_cast<size_t>(0) : q, B, nd);
        run_stream_scenarios(content, b16, b32);
        vrt::count("scale.stream_target_cases");
        if (content.size() > 32768) vrt::count("scale.stream_target>32KiB");
        if (content.size() >= (1u << 20)) vrt::count("scale.stream_target>=1MiB");
        if (b32.size() > 65536 && !from_end) vrt::count("scale.stream_argument>64Ki_units");
        arg_units = b32.size();
    } else {
        Data dt;
        const size_t tlen = pick_target_len(r, CAP);
        if (tlen) fill_units(r, dt.tv, E8, tlen, static_cast<unsigned>(r.below(N_BG)), r.chance(1, 2));
        std::string what;
        switch (group) {
        case 0: dt.groups = G_UTF8; dt.b8 = bad8_at(r, dist, from_end, nd, at); arg_units = dt.b8.size(); what = scale::brief(dt.b8, at); break;
        case 1: dt.groups = G_UTF16; dt.b16 = bad16_at(r, dist, from_end, nd, at); arg_units = dt.b16.size(); what = vrt::hex(dt.b16.data() + (at > 4 ? at - 4 : 0), std::min<size_t>(10, dt.b16.size() - (at > 4 ? at - 4 : 0)), 2); break;
        case 2: dt.groups = G_UTF32 | G_CODE_POINT; dt.b32 = bad32_at(r, dist, from_end, nd, at); dt.badcp = dt.b32[at]; arg_units = dt.b32.size();
                what = vrt::hex(dt.b32.data() + (at > 4 ? at - 4 : 0), std::min<size_t>(10, dt.b32.size() - (at > 4 ? at - 4 : 0)), 4); break;
        case 3: {
            dt.groups = G_CODEC;
            static const char hexd[] = "0123456789abcdefABCDEF", b64d[] = "ABCDEFGHIJKLMNOPQRSTUVWXYZabcdefghijklmnopqrstuvwxyz0123456789+/";
            const Place ph = place(r, dist, 1, r.below(2), from_end, nd);
            size_t hl = (ph.prefix + 1 + ph.suffix + 1) & ~static_cast<size_t>(1);
            dt.hexbad = gen::bytes_over(r, hl, S(hexd, r.chance(1, 2) ? 16 : 22));
            at = std::min(ph.prefix, hl - 1);
            dt.hexbad[at] = "gG xz:\x80"[r.below(7)];
            dt.hexodd = gen::bytes_over(r, (dist + static_cast<size_t>(9 + nd) - 9) | 1, S(hexd, 16));
            const Place pb = place(r, dist, 1, r.below(2), from_end, nd);
            const size_t bl = (pb.prefix + 1 + pb.suffix + 3) & ~static_cast<size_t>(3);
            dt.b64bad = gen::bytes_over(r, bl, S(b64d, 64));
            const size_t bat = std::min(pb.prefix, bl - 1);
            dt.b64bad[bat] = bat + 2 >= bl ? '*' : "=*-_ \x80"[r.below(6)];
            dt.b64len = gen::bytes_over(r, ((dist + static_cast<size_t>(9 + nd) - 9) & ~static_cast<size_t>(3)) + 1 + r.below(3), S(b64d, 64));
            arg_units = bl;
            what = sfmt("hex %s base64 %s", scale::brief(dt.hexbad, at).c_str(), scale::brief(dt.b64bad, bat).c_str());
            break;
        }
        default: {
            dt.groups = G_FORMAT | G_LATIN1 | G_MISC;
            // literal text (with escaped braces and at most one field) in front of the malformed / unsatisfiable / non-UTF-8 part
            auto literal = [&](size_t n, unsigned fields) {
                S f;
                fill_units(r, f, E8, n, r.chance(1, 2) ? BG_ASCII_RANDOM : BG_ASCII_CONST, false);       // (neither alphabet has braces)
                // escapes and fields go to offsets that are multiples of 4, so that they never touch each other
                for (size_t k = r.below(4); k-- > 0 && n >= 8;) { const size_t pos = 4 * r.below(n / 4); if (pos + 1 < n) { f[pos] = '{'; f[pos + 1] = '{'; } }
                for (unsigned k = 0; k < fields && n >= 8; ++k) { const size_t pos = 4 * r.below(n / 4); if (pos + 1 < n) { f[pos] = '{'; f[pos + 1] = '}'; } }
                return f;
            };
            const Place pf = place(r, dist, 1, 0, false, nd);
            const char *const tail = r.pick(BADFMTS);          // (one scenario passes a single argument: at most one field in all)
            dt.badfmt = literal(pf.prefix, strstr(tail, "{}") ? 0 : static_cast<unsigned>(r.below(2))) + tail;
            dt.missfmt = literal(pf.prefix, 0) + r.pick(MISSING);
            dt.invfmt = literal(pf.prefix, 0) + (r.chance(1, 2) ? "\xFF" : "{}\xFF{_\x80" "6}") + literal(r.chance(1, 2) ? 0 : pick_margin(r) % 5000, 0);
            at = pf.prefix;
            // text that is Latin-1 up to the point
            const bool in_chars = r.chance(1, 2);
            static const char32_t wide[] = {0x100, 0x20AC, 0xFFFD, 0x1F600, 0x10FFFF, 0x7FF};
            const char32_t wc = r.pick(wide);
            const Place pl = place(r, dist, in_chars ? 1 : units(E8, wc), in_chars ? r.below(2) : r.below(units(E8, wc) + 1), from_end, nd);
            if (in_chars) {
                std::u32string cps;
                fill_units(r, cps, E32, pl.prefix, static_cast<unsigned>(r.below(N_BG)), true, 0xFF);
                cps += wc;
                fill_units(r, cps, E32, pl.suffix, static_cast<unsigned>(r.below(N_BG)), true, r.chance(1, 2) ? 0xFF : 0x10FFFF);
                for (char32_t c : cps) ref::enc_utf8(dt.latin, c);
            } else {
                fill_units(r, dt.latin, E8, pl.prefix, static_cast<unsigned>(r.below(N_BG)), r.chance(1, 2), 0xFF);
                ref::enc_utf8(dt.latin, wc);
                fill_units(r, dt.latin, E8, pl.suffix, static_cast<unsigned>(r.below(N_BG)), r.chance(1, 2), r.chance(1, 2) ? 0xFF : 0x10FFFF);
            }
            arg_units = dt.badfmt.size();
            what = sfmt("format %s; Latin-1 text %s", scale::brief(dt.badfmt, at).c_str(), scale::brief(dt.latin).c_str());
            break;
        }
        }
        g_ctx = sfmt("[scale] target=%zu bytes, %s: %zu units, invalid datum at %zu = %s%zu x %zu%+ld: %s", dt.tv.size(), GROUP_NAME[group], arg_units, at, from_end ? "end - " : "", q, B, nd, what.c_str());
        run_string_scenarios(r, dt);
        if (dt.tv.size() >= 4096) vrt::count("scale.string_target>=4KiB");
        if (dt.tv.size() >= 65536) vrt::count("scale.string_target>=64KiB");
    }
    vrt::count("scale.cases");
    vrt::count(sfmt("scale.cases.%s", GROUP_NAME[group]));
    if (!from_end && at >= 65536) vrt::count("scale.datum_behind>=64Ki_valid_units");
    if (!from_end && at >= (1u << 20) - 16) vrt::count("scale.datum_behind>=1Mi_valid_units");
    if (from_end) vrt::count("scale.measured_from_end");
    vrt::distinct(vrt::fnv_u64(i, vrt::fnv_u64(g, 151)));
    if (vrt::want_sample("scale")) vrt::sample("scale", g_ctx);
}

} // namespace sc

// ================================================================ sequences around a failure
// On ONE target (stream / string): a successful operation with argument X, a failing operation with an ill-formed argument Y (at
// another address, or written over X in place), then the first operation again with the very same X (same address, same
// content): the failing call must leave the target alone AND the call after it must give what the model says.  Between them also
// a successful call with other well-formed text Z of the same size, first and last 16 units at X's address.
namespace seq {

template <typename T> struct Family;
template <> struct Family<char> { static const char *name() { return "char"; } static const sc::Enc enc = sc::E8; };
template <> struct Family<char16_t> { static const char *name() { return "char16_t"; } static const sc::Enc enc = sc::E16; };
template <> struct Family<char32_t> { static const char *name() { return "char32_t"; } static const sc::Enc enc = sc::E32; };
template <> struct Family<wchar_t> { static const char *name() { return "wchar_t"; } static const sc::Enc enc = sc::E32; };

// the UTF-8 form of well-formed text (reference transcoder)
template <typename T>
static S utf8_of(const std::basic_string<T> &t)
{
    if constexpr (sizeof(T) == 1) return S(t.begin(), t.end());
    else {
        ref::Decoded d;
        if constexpr (sizeof(T) == 2) { std::u16string u(t.begin(), t.end()); d = ref::decode_utf16(u.data(), u.size()); }
        else { std::u32string u(t.begin(), t.end()); d = ref::decode_utf32(u.data(), u.size()); }
        S out;
        ref::to_utf8(d, false, out);
        return out;
    }
}
template <typename T>
static bool ill_formed(const std::basic_string<T> &t)
{
    if constexpr (sizeof(T) == 1) return ref::has_bad(ref::decode_utf8(S(t.begin(), t.end())));
    else if constexpr (sizeof(T) == 2) { std::u16string u(t.begin(), t.end()); return ref::has_bad(ref::decode_utf16(u.data(), u.size())); }
    else { std::u32string u(t.begin(), t.end()); return ref::has_bad(ref::decode_utf32(u.data(), u.size())); }
}

// three texts of n units: X and Z well-formed (same first and last 16 units when n >= 40, different in between), Y = X with one
// unit replaced so that it is ill-formed (the unit lies in an island of three ASCII units, so that its neighbours cannot complete it)
template <typename T>
struct Texts {
    std::basic_string<T> X, Y, Z;
    size_t damage = 0;
};
template <typename T>
static Texts<T> make_texts(Rng &r, size_t n)
{
    typedef std::basic_string<T> Str;
    const sc::Enc e = Family<T>::enc;
    Texts<T> t;
    auto ascii = [&](Str &o, size_t k) { while (k-- > 0) o += static_cast<T>('a' + r.below(26)); };
    auto body = [&](Str &o, size_t k, size_t &island) {          // k units with an island of three ASCII units somewhere
        if (k < 3) { island = o.size() + (k ? r.below(k) : 0); ascii(o, k); return; }
        const size_t a = r.chance(1, 4) ? 0 : r.chance(1, 3) ? k - 3 : r.below(k - 2);
        sc::fill_units(r, o, e, a, static_cast<unsigned>(r.below(sc::N_BG)), r.chance(1, 2));
        island = o.size() + 1;
        ascii(o, 3);
        sc::fill_units(r, o, e, k - 3 - a, static_cast<unsigned>(r.below(sc::N_BG)), r.chance(1, 2));
    };
    size_t ix = 0, iz = 0;
    if (n >= 40) {
        Str head, tail;
        ascii(head, 16);
        ascii(tail, 16);
        t.X = head; body(t.X, n - 32, ix); t.X += tail;
        t.Z = head; body(t.Z, n - 32, iz); t.Z += tail;
    } else { body(t.X, n, ix); body(t.Z, n, iz); }
    if (t.Z == t.X && n) t.Z[iz < n ? iz : 0] = static_cast<T>(t.X[iz < n ? iz : 0] == T('q') ? 'r' : 'q');
    t.Y = t.X;
    t.damage = ix < n ? ix : 0;
    T bad;
    if constexpr (sizeof(T) == 1) { static const unsigned char b[] = {0xFF, 0x80, 0xC3, 0xE2, 0xF0, 0xBF, 0xF8}; bad = static_cast<T>(r.pick(b)); }
    else if constexpr (sizeof(T) == 2) bad = static_cast<T>(r.chance(1, 2) ? 0xD800 + r.below(0x400) : 0xDC00 + r.below(0x400));
    else { static const uint32_t b[] = {0x110000, 0x7FFFFFFF, 0xFFFFFFFFu, 0x200000, 0x80000000u}; bad = static_cast<T>(r.pick(b)); }
    if (n) t.Y[t.damage] = bad;
    return t;
}

// caller-side storage that stays where it is for the whole sequence: a NUL-terminated array in an exact-size block and an STL string
template <typename T>
struct Storage {
    vrt::Exact<T> arr;
    std::basic_string<T> stl;
    const T *stl_data;
    explicit Storage(const std::basic_string<T> &v) : arr(v.data(), v.size(), true), stl(v), stl_data(stl.data()) { }
    void write(const std::basic_string<T> &v)            // same number of units, in place
    {
        for (size_t i = 0; i < v.size(); ++i) { arr.p[i] = v[i]; stl[i] = v[i]; }
        if (stl.data() != stl_data) fail("harness-self-check", "an STL string moved when it was overwritten in place");
    }
    const T *ptr() const { return arr.data(); }
    size_t n() const { return arr.size(); }
};

static std::string g_family, g_form;
static void set_op(const char *step) { g_op = sfmt("sequence:%s:%s:%s", g_family.c_str(), g_form.c_str(), step); }

// ---- string_stream targets
static const char *const STREAM_FORM[] = {"stream<<pointer", "stream<<STL string", "stream<<STL view"};
template <typename T>
static void stream_insert(ST::string_stream &ss, unsigned form, const T *ptr, size_t n, const std::basic_string<T> &stl)
{
    va::LibScope ls;
    switch (form) {
    case 0: ss << ptr; break;
    case 1: ss << stl; break;
    default: ss << std::basic_string_view<T>(ptr, n); break;
    }
}

template <typename T>
static void stream_sequence(Rng &r, unsigned form, size_t n, size_t fill)
{
    typedef std::basic_string<T> Str;
    g_family = Family<T>::name();
    g_form = STREAM_FORM[form];
    const Texts<T> tx = make_texts<T>(r, n);
    if (!ill_formed(tx.Y) || ill_formed(tx.X) || ill_formed(tx.Z)) { vrt::count("sequence.skipped"); return; }
    const S X8 = utf8_of(tx.X), Z8 = utf8_of(tx.Z);
    Storage<T> st(tx.X);
    g_ctx = sfmt("stream holding %zu bytes, text of %zu units (%zu UTF-8 bytes) at one address, ill-formed unit at %zu", fill, n, X8.size(), tx.damage);
    S model = gen::any_bytes(r, fill);
    std::optional<vrt::Box<ST::string_stream>> ss;
    ss.emplace();
    { va::LibScope ls; (*ss)->append(model.data(), model.size()); }
    auto good = [&](const char *step, const S &adds, const char *key) {
        set_op(step);
        vrt::cur_rewind();
        vrt::cur_printf("op=%s %s\n", g_op.c_str(), g_ctx.c_str());
        try { stream_insert<T>(**ss, form, st.ptr(), st.n(), st.stl); }
        catch (const ST::unicode_error &e) { fail("well-formed-text-rejected", e.what()); return; }
        model += adds;
        vrt::evals();
        const S now((*ss)->raw_buffer(), (*ss)->size());
        if (now != model) fail(key, sfmt("the stream holds %zu bytes, the model %zu; first difference at byte %zu (the text starts at %zu): got %s", now.size(), model.size(), scale::first_diff(now, model), model.size() - adds.size(),
                                         scale::brief(now, scale::first_diff(now, model)).c_str()));
        vrt::count("sequence.successful_calls");
    };
    good("first call", X8, "first-result-differs");
    const unsigned rounds = 1 + static_cast<unsigned>(r.below(3));
    for (unsigned round = 0; round < rounds; ++round) {
        // the failing call
        const unsigned where = static_cast<unsigned>(r.below(3));        // 0: in place, 1: a copy of it elsewhere, 2: other ill-formed text elsewhere
        set_op(where == 0 ? "failing call, argument written over X" : "failing call, argument elsewhere");
        {
            Watch w;
            w.stream("target-stream", &**ss);
            if (where == 0) {
                st.write(tx.Y);
                must_throw(UNICODE, w, [&] { stream_insert<T>(**ss, form, st.ptr(), st.n(), st.stl); });
                st.write(tx.X);
                vrt::count("sequence.failing_argument_at_the_same_address");
            } else {
                Str other = tx.Y;
                if (where == 2) {
                    const size_t alen = 1 + r.below(r.chance(1, 2) ? 20 : 400);
                    if constexpr (sizeof(T) == 2) { const std::u16string b = bad16(r, alen, static_cast<int>(r.below(3))); other.assign(b.begin(), b.end()); }
                    else { const std::u32string b = bad32(r, alen, static_cast<int>(r.below(3))); other.assign(b.begin(), b.end()); }
                }
                vrt::Exact<T> oarr(other.data(), other.size(), true);
                must_throw(UNICODE, w, [&] { stream_insert<T>(**ss, form, oarr.data(), other.size(), other); });
                vrt::count("sequence.failing_argument_at_another_address");
            }
        }
        // other well-formed text at X's address
        if (r.chance(1, 3)) {
            st.write(tx.Z);
            good("other text of the same size at the same address", Z8, "result-for-rewritten-storage-differs");
            st.write(tx.X);
            vrt::count("sequence.other_text_at_the_same_address");
        }
        // a fresh stream at the address of the old one (its first call is the one after the failure)
        if (r.chance(1, 5)) {
            vrt::placement_force_parks() = 4;
            ss.reset();
            ss.emplace();
            vrt::placement_force_parks() = 0;
            { va::LibScope ls; (*ss)->append(model.data(), model.size()); }
            vrt::count("sequence.target_rebuilt");
        }
        good("first call again after the failure", X8, "result-after-failed-call-differs");
        vrt::count("sequence.first_call_repeated_after_a_failure");
    }
    vrt::count("sequence.stream_sequences");
    vrt::count(sfmt("sequence.%s.%s", g_family.c_str(), g_form.c_str()));
}

// ---- ST::string targets
static const char *const STRING_FORM[] = {"string=pointer", "string.set(pointer)", "string.set(pointer,n)", "string+=pointer", "string=STL string", "string.set(STL string)", "string=STL view", "string.set(STL view)",
                                          "string+pointer", "pointer+string", "string=string(pointer,n)", "from_utf*(pointer,n)", "from_std_string(STL string)"};
enum { N_STRING_FORMS = 13 };
// returns true when the form yields a separate result (in `res`) and leaves the target alone
template <typename T>
static bool string_apply(ST::string &t, unsigned form, const T *ptr, size_t n, const std::basic_string<T> &stl, S &res)
{
    va::LibScope ls;
    switch (form) {
    case 0: t = ptr; return false;
    case 1: t.set(ptr); return false;
    case 2: t.set(ptr, n); return false;
    case 3: t += ptr; return false;
    case 4: t = stl; return false;
    case 5: t.set(stl); return false;
    case 6: t = std::basic_string_view<T>(ptr, n); return false;
    case 7: t.set(std::basic_string_view<T>(ptr, n)); return false;
    case 8: { ST::string x = t + ptr; va::HarnessScope hs; res = vrt::str_of(x); return true; }
    case 9: { ST::string x = ptr + t; va::HarnessScope hs; res = vrt::str_of(x); return true; }
    case 10: t = ST::string(ptr, n); return false;
    case 11: {
        ST::string x;
        if constexpr (std::is_same<T, char>::value) x = ST::string::from_utf8(ptr, n);
        else if constexpr (std::is_same<T, char16_t>::value) x = ST::string::from_utf16(ptr, n);
        else if constexpr (std::is_same<T, char32_t>::value) x = ST::string::from_utf32(ptr, n);
        else x = ST::string::from_wchar(ptr, n);
        va::HarnessScope hs;
        res = vrt::str_of(x);
        return true;
    }
    default: { ST::string x = ST::string::from_std_string(stl); va::HarnessScope hs; res = vrt::str_of(x); return true; }
    }
}

template <typename T>
static void string_sequence(Rng &r, unsigned form, size_t n, size_t tlen)
{
    typedef std::basic_string<T> Str;
    g_family = Family<T>::name();
    g_form = STRING_FORM[form];
    const Texts<T> tx = make_texts<T>(r, n);
    if (!ill_formed(tx.Y) || ill_formed(tx.X) || ill_formed(tx.Z)) { vrt::count("sequence.skipped"); return; }
    const S X8 = utf8_of(tx.X), Z8 = utf8_of(tx.Z);
    Storage<T> st(tx.X);
    const S tv = valid8(r, tlen);
    g_ctx = sfmt("string of %zu bytes, text of %zu units (%zu UTF-8 bytes) at one address, ill-formed unit at %zu", tlen, n, X8.size(), tx.damage);
    std::optional<vrt::Box<ST::string>> t;
    t.emplace(vrt::mk(tv));
    S model = tv;
    auto good = [&](const char *step, const S &a8, const char *key) {
        set_op(step);
        vrt::cur_rewind();
        vrt::cur_printf("op=%s %s\n", g_op.c_str(), g_ctx.c_str());
        S res;
        bool separate = false;
        try { separate = string_apply<T>(**t, form, st.ptr(), st.n(), st.stl, res); }
        catch (const ST::unicode_error &e) { fail("well-formed-text-rejected", e.what()); return; }
        vrt::evals();
        S want_res;
        switch (form) {
        case 3: model += a8; break;
        case 8: want_res = model + a8; break;
        case 9: want_res = a8 + model; break;
        case 11: case 12: want_res = a8; break;
        default: model = a8; break;
        }
        const S now = vrt::str_of(**t);
        if (now != model) fail(key, sfmt("the target holds %zu bytes %s, the model %zu bytes %s; first difference at byte %zu", now.size(), show(now).c_str(), model.size(), show(model).c_str(), scale::first_diff(now, model)));
        if ((**t).c_str()[now.size()] != 0) fail("target-no-terminator", step);
        if (separate && res != want_res) fail(key, sfmt("the result holds %zu bytes %s, the model %zu bytes %s; first difference at byte %zu", res.size(), show(res).c_str(), want_res.size(), show(want_res).c_str(), scale::first_diff(res, want_res)));
        vrt::count("sequence.successful_calls");
    };
    good("first call", X8, "first-result-differs");
    const unsigned rounds = 1 + static_cast<unsigned>(r.below(3));
    for (unsigned round = 0; round < rounds; ++round) {
        const unsigned where = static_cast<unsigned>(r.below(3));
        set_op(where == 0 ? "failing call, argument written over X" : "failing call, argument elsewhere");
        {
            Watch w;
            w.str("target", &**t);
            S res;
            if (where == 0) {
                st.write(tx.Y);
                must_throw(UNICODE, w, [&] { string_apply<T>(**t, form, st.ptr(), st.n(), st.stl, res); });
                st.write(tx.X);
                vrt::count("sequence.failing_argument_at_the_same_address");
            } else {
                Str other = tx.Y;
                if (where == 2) {
                    const size_t alen = 1 + r.below(r.chance(1, 2) ? 20 : 400);
                    const int wh = static_cast<int>(r.below(3));
                    if constexpr (sizeof(T) == 1) { S b = bad8(r, alen, wh); for (char &c : b) if (!c) c = 'n'; if (ref::utf8_ok(b)) b += "\xFF"; other = b; }
                    else if constexpr (sizeof(T) == 2) { const std::u16string b = bad16(r, alen, wh); other.assign(b.begin(), b.end()); }
                    else { const std::u32string b = bad32(r, alen, wh); other.assign(b.begin(), b.end()); }
                }
                vrt::Exact<T> oarr(other.data(), other.size(), true);
                w.stl("argument", &other);
                must_throw(UNICODE, w, [&] { string_apply<T>(**t, form, oarr.data(), other.size(), other, res); });
                vrt::count("sequence.failing_argument_at_another_address");
            }
        }
        if (r.chance(1, 3)) {
            st.write(tx.Z);
            good("other text of the same size at the same address", Z8, "result-for-rewritten-storage-differs");
            st.write(tx.X);
            vrt::count("sequence.other_text_at_the_same_address");
        }
        switch (r.below(5)) {
        case 0: {       // a fresh string at the address of the old one
            vrt::placement_force_parks() = 4;
            t.reset();
            t.emplace(vrt::mk(tv));
            vrt::placement_force_parks() = 0;
            model = tv;
            vrt::count("sequence.target_rebuilt");
            break;
        }
        case 1: { va::LibScope ls; **t = vrt::mk(tv); model = tv; break; }
        default: break;
        }
        good("first call again after the failure", X8, "result-after-failed-call-differs");
        vrt::count("sequence.first_call_repeated_after_a_failure");
    }
    vrt::count("sequence.string_sequences");
    vrt::count(sfmt("sequence.%s.%s", g_family.c_str(), g_form.c_str()));
}

// ---- the same pattern for the other throwing families: hex / base64 text in an ST::string that is destroyed and rebuilt at the same
// address (object and heap block) between the calls, a format string in caller-side storage rewritten in place
static S hex_of(const S &bytes, Rng &r)
{
    const char *d = r.chance(1, 2) ? "0123456789abcdef" : "0123456789ABCDEF";
    S o;
    for (unsigned char c : bytes) { o += d[c >> 4]; o += d[c & 15]; }
    return o;
}
static S b64_of(const S &bytes)
{
    static const char a[] = "ABCDEFGHIJKLMNOPQRSTUVWXYZabcdefghijklmnopqrstuvwxyz0123456789+/";
    S o;
    size_t i = 0;
    for (; i + 3 <= bytes.size(); i += 3) {
        const unsigned v = (static_cast<unsigned char>(bytes[i]) << 16) | (static_cast<unsigned char>(bytes[i + 1]) << 8) | static_cast<unsigned char>(bytes[i + 2]);
        o += a[v >> 18]; o += a[(v >> 12) & 63]; o += a[(v >> 6) & 63]; o += a[v & 63];
    }
    if (bytes.size() - i == 1) { const unsigned v = static_cast<unsigned char>(bytes[i]) << 16; o += a[v >> 18]; o += a[(v >> 12) & 63]; o += "=="; }
    else if (bytes.size() - i == 2) { const unsigned v = (static_cast<unsigned char>(bytes[i]) << 16) | (static_cast<unsigned char>(bytes[i + 1]) << 8); o += a[v >> 18]; o += a[(v >> 12) & 63]; o += a[(v >> 6) & 63]; o += '='; }
    return o;
}

static void codec_sequence(Rng &r, bool b64, size_t n)
{
    g_family = b64 ? "base64" : "hex";
    g_form = b64 ? "base64_decode(string)" : "hex_decode(string)";
    // X and Z: encodings of byte strings that share their first and last 16 bytes; Y: X with one character in the middle made invalid
    S bx = gen::any_bytes(r, n), bz = bx;
    if (n >= 40) for (size_t k = 16; k < n - 16; ++k) bz[k] = static_cast<char>(r.below(256));
    else bz = gen::any_bytes(r, n);
    const S X = b64 ? b64_of(bx) : hex_of(bx, r), Z = b64 ? b64_of(bz) : hex_of(bz, r);
    S Y = X;
    const size_t pad = b64 ? 4 : 0;
    const size_t at = Y.size() > pad ? (Y.size() - pad) / 2 : 0;
    Y[at] = b64 ? "*-_ \x80"[r.below(5)] : "gG xz:\x80"[r.below(7)];
    g_ctx = sfmt("text of %zu characters for %zu bytes, invalid character at %zu", X.size(), n, at);
    std::optional<vrt::Box<ST::string>> arg;
    const void *first_obj = nullptr, *first_data = nullptr;
    auto put = [&](const S &text) {       // the argument string is destroyed and its successor built at once: same size, so the same addresses when the blocks are parked
        vrt::placement_force_parks() = 4;
        arg.reset();
        arg.emplace(vrt::mk(text));
        vrt::placement_force_parks() = 0;
        if (!first_obj) { first_obj = arg->p; first_data = (**arg).c_str(); }
        else {
            vrt::count("sequence.codec_arguments_rebuilt");
            if (arg->p == first_obj && (text.size() < 16 || (**arg).c_str() == first_data)) vrt::count("sequence.codec_argument_at_the_address_of_its_predecessor");
        }
    };
    auto good = [&](const char *step, const S &want, const char *key) {
        set_op(step);
        vrt::cur_rewind();
        vrt::cur_printf("op=%s %s\n", g_op.c_str(), g_ctx.c_str());
        S got;
        try { va::LibScope ls; ST::char_buffer out = b64 ? ST::base64_decode(**arg) : ST::hex_decode(**arg); va::HarnessScope hs; got.assign(out.data(), out.size()); }
        catch (const ST::codec_error &e) { fail("valid-text-rejected", e.what()); return; }
        vrt::evals();
        if (got != want) fail(key, sfmt("decoded %zu bytes %s, the model %zu bytes %s; first difference at byte %zu", got.size(), show(got).c_str(), want.size(), show(want).c_str(), scale::first_diff(got, want)));
        vrt::count("sequence.successful_calls");
    };
    put(X);
    good("first call", bx, "first-result-differs");
    for (unsigned round = 1 + static_cast<unsigned>(r.below(2)); round-- > 0;) {
        const bool same = r.chance(2, 3);
        set_op(same ? "failing call, argument at the address of X" : "failing call, argument elsewhere");
        if (same) {
            put(Y);
            Watch w;
            w.str("argument", &**arg);
            must_throw(CODEC, w, [&] { auto x = b64 ? ST::base64_decode(**arg) : ST::hex_decode(**arg); (void)x; });
            if (r.chance(1, 2)) { put(Z); good("other text of the same size at the same address", bz, "result-for-rewritten-storage-differs"); vrt::count("sequence.other_text_at_the_same_address"); }
            put(X);
            vrt::count("sequence.failing_argument_at_the_same_address");
        } else {
            vrt::Box<ST::string> other(vrt::mk(r.chance(1, 2) ? Y : Y.substr(0, Y.size() - 1)));
            Watch w;
            w.str("argument", &*other);
            must_throw(CODEC, w, [&] { auto x = b64 ? ST::base64_decode(*other) : ST::hex_decode(*other); (void)x; });
            vrt::count("sequence.failing_argument_at_another_address");
        }
        good("first call again after the failure", bx, "result-after-failed-call-differs");
        vrt::count("sequence.first_call_repeated_after_a_failure");
    }
    vrt::count("sequence.codec_sequences");
}

static void format_sequence(Rng &r, size_t n)
{
    g_family = "format";
    g_form = "format(const char*, string, int)";
    // "<head 16><middle>{}<literal>{}" / the same with other literal text / the same ending in an unterminated field
    auto lit = [&](size_t k) { S o; while (k-- > 0) o += static_cast<char>("abcdefghijklmnopqrstuvwxyz0123456789 .,:;-_=+*"[r.below(46)]); return o; };
    const S head = lit(16), tail = lit(r.below(20));
    const S X = head + lit(n) + "{}" + tail + "{}", Z = head + lit(n) + "{}" + tail + "{}";
    S Y = X;
    Y[Y.size() - 1] = "_.&5"[r.below(4)];
    const S tv = valid8(r, r.chance(1, 2) ? r.below(20) : 40 + r.below(300));
    vrt::Exact<char> fmt(X.data(), X.size(), true);
    auto write = [&](const S &v) { memcpy(fmt.p, v.data(), v.size()); };
    g_ctx = sfmt("format string of %zu bytes at one address, argument string of %zu bytes", X.size(), tv.size());
    vrt::Box<ST::string> t(vrt::mk(tv));
    auto good = [&](const char *step, const S &f, const char *key) {
        set_op(step);
        vrt::cur_rewind();
        vrt::cur_printf("op=%s %s\n", g_op.c_str(), g_ctx.c_str());
        S got;
        try { va::LibScope ls; ST::string x = ST::format(fmt.data(), *t, 42); va::HarnessScope hs; got = vrt::str_of(x); }
        catch (const ST::bad_format &e) { fail("valid-format-rejected", e.what()); return; }
        vrt::evals();
        const size_t f1 = f.find("{}");
        const S want = f.substr(0, f1) + tv + f.substr(f1 + 2, f.size() - f1 - 4) + "42";
        if (got != want) fail(key, sfmt("formatted %zu bytes %s, the model %zu bytes %s; first difference at byte %zu", got.size(), show(got).c_str(), want.size(), show(want).c_str(), scale::first_diff(got, want)));
        if (vrt::str_of(*t) != tv) fail("argument-changed", step);
        vrt::count("sequence.successful_calls");
    };
    good("first call", X, "first-result-differs");
    for (unsigned round = 1 + static_cast<unsigned>(r.below(2)); round-- > 0;) {
        const bool same = r.chance(2, 3);
        set_op(same ? "failing call, argument written over X" : "failing call, argument elsewhere");
        Watch w;
        w.str("argument", &*t);
        if (same) {
            write(Y);
            must_throw(BADFMT, w, [&] { ST::string x = ST::format(fmt.data(), *t, 42); (void)x; });
            if (r.chance(1, 2)) { write(Z); good("other text of the same size at the same address", Z, "result-for-rewritten-storage-differs"); vrt::count("sequence.other_text_at_the_same_address"); }
            write(X);
            vrt::count("sequence.failing_argument_at_the_same_address");
        } else {
            const S bf = lit(r.below(30)) + r.pick(BADFMTS);
            vrt::Exact<char> other(bf.data(), bf.size(), true);
            must_throw(BADFMT, w, [&] { ST::string x = ST::format(other.data(), *t, 42); (void)x; });
            vrt::count("sequence.failing_argument_at_another_address");
        }
        good("first call again after the failure", X, "result-after-failed-call-differs");
        vrt::count("sequence.first_call_repeated_after_a_failure");
    }
    vrt::count("sequence.format_sequences");
}

static const size_t SEQ_LENS[] = {1, 3, 8, 15, 16, 17, 40, 64, 100, 255, 256, 257, 300, 1000, 5000};
static void sequence_case(uint64_t i, Rng &r)
{
    // grid: (family x form) x text length; 4 families of 13 string forms, 3 wide families of 3 stream forms, hex / base64 / format
    const unsigned NCOMBO = 4 * N_STRING_FORMS + 3 * 3 + 3;
    const unsigned combo = static_cast<unsigned>(i % NCOMBO);
    const size_t n = SEQ_LENS[(i / NCOMBO) % 15];
    static const size_t TLENS[] = {0, 5, 15, 16, 17, 40, 300};
    static const size_t FILLS[] = {0, 10, 200, 255, 256, 257, 600, 5000};
    if (combo < 4 * N_STRING_FORMS) {
        const unsigned form = combo % N_STRING_FORMS;
        const size_t tlen = r.pick(TLENS);
        switch (combo / N_STRING_FORMS) {
        case 0: string_sequence<char>(r, form, n, tlen); break;
        case 1: string_sequence<char16_t>(r, form, n, tlen); break;
        case 2: string_sequence<char32_t>(r, form, n, tlen); break;
        default: string_sequence<wchar_t>(r, form, n, tlen); break;
        }
    } else if (combo >= 4 * N_STRING_FORMS + 9) {
        switch (combo - 4 * N_STRING_FORMS - 9) {
        case 0: codec_sequence(r, false, n); break;
        case 1: codec_sequence(r, true, n); break;
        default: format_sequence(r, n); break;
        }
    } else {
        const unsigned c2 = combo - 4 * N_STRING_FORMS, form = c2 % 3;
        const size_t fill = r.pick(FILLS);
        switch (c2 / 3) {
        case 0: stream_sequence<char16_t>(r, form, n, fill); break;
        case 1: stream_sequence<char32_t>(r, form, n, fill); break;
        default: stream_sequence<wchar_t>(r, form, n, fill); break;
        }
    }
    vrt::count("sequence.cases");
    vrt::distinct(vrt::fnv_u64(i, vrt::fnv_str("sequences")));
    if (vrt::want_sample("sequences", 4)) vrt::sample("sequences", sfmt("%s %s: %s | X, [Y fails, (Z), X again] x 1..3", g_family.c_str(), g_form.c_str(), g_ctx.c_str()), 4);
}

// ---- sources that are sub-ranges of the target's own buffer and are ill-formed (they start or end inside a multi-byte character)
static const char *const OWN_FORM[] = {"string.set(ptr)", "string.set(ptr,n)", "string.set(ptr,n,check_validity)", "string=ptr", "string+=ptr", "string=char8_t ptr", "string.set(char8_t ptr,n)", "string=string_view",
                                       "string.set(string_view)", "string.set(u8string_view)", "string=from_utf8(ptr,n)", "string=string(ptr,n)", "string+ptr", "string+=char8_t ptr"};
enum { N_OWN_FORMS = 14 };
static bool own_form_sized(unsigned f) { return f == 1 || f == 2 || f == 6 || f == 7 || f == 8 || f == 9 || f == 10 || f == 11; }
static void own_apply(ST::string &t, unsigned form, size_t k, size_t n)
{
    const char *p = t.c_str() + k;
    const char8_t *p8 = reinterpret_cast<const char8_t *>(p);
    switch (form) {
    case 0: t.set(p); break;
    case 1: t.set(p, n); break;
    case 2: t.set(p, n, ST::check_validity); break;
    case 3: t = p; break;
    case 4: t += p; break;
    case 5: t = p8; break;
    case 6: t.set(p8, n); break;
    case 7: t = std::string_view(p, n); break;
    case 8: t.set(std::string_view(p, n)); break;
    case 9: t.set(std::u8string_view(p8, n)); break;
    case 10: t = ST::string::from_utf8(p, n); break;
    case 11: t = ST::string(p, n); break;
    case 12: { ST::string x = t + p; (void)x; break; }
    default: t += p8; break;
    }
}
// what a successful call of that form leaves in the target
static S own_model(const S &tv, unsigned form, size_t k, size_t n)
{
    const S piece = tv.substr(k, n);
    if (form == 4 || form == 13) return tv + piece;
    if (form == 12) return tv;
    return piece;
}

static void own_range_case(uint64_t i, Rng &r)
{
    static const size_t LENS[] = {5, 12, 15, 16, 17, 24, 40, 100, 300, 1000, 5000, 70000};
    const size_t tlen = LENS[i % 12];
    // text with multi-byte characters at the beginning, in the middle and at the end
    S tv;
    static const char32_t mb[] = {0xE9, 0x7FF, 0x20AC, 0xFFFD, 0x1F600, 0x10FFFF};
    const bool mb_first = r.chance(1, 2), mb_last = r.chance(2, 3);
    if (mb_first) ref::enc_utf8(tv, r.pick(mb));
    while (tv.size() + 4 < tlen) { if (r.chance(1, tlen > 1000 ? 12 : 3)) ref::enc_utf8(tv, r.pick(mb)); else tv += static_cast<char>('a' + r.below(26)); }
    if (mb_last || tv.find_first_of("\xC3\xDF\xE2\xEF\xF0\xF4") == S::npos) ref::enc_utf8(tv, r.pick(mb));
    while (tv.size() < tlen) tv += static_cast<char>('a' + r.below(26));
    std::vector<size_t> inside, bounds;      // offsets inside a character / at the start of one (not 0)
    for (size_t k = 1; k < tv.size(); ++k) ((static_cast<unsigned char>(tv[k]) & 0xC0) == 0x80 ? inside : bounds).push_back(k);
    if (inside.empty()) { vrt::count("own_range.skipped"); return; }
    const bool share = r.chance(1, 2);
    g_ctx = sfmt("target of %zu bytes%s", tv.size(), share ? " whose buffer is shared with a copy" : "");
    auto failing = [&](unsigned form, size_t k, size_t n, const char *kind) {
        g_op = sfmt("own-buffer:%s:%s", kind, OWN_FORM[form]);
        const std::string saved_ctx = g_ctx;
        g_ctx += sfmt(", source = bytes [%zu, %zu) of the target itself", k, k + n);
        vrt::Box<ST::string> t(vrt::mk(tv));
        std::optional<ST::string> copy;
        if (share) copy.emplace(*t);
        Watch w;
        w.str("target", &*t);
        if (copy) w.str("copy-sharing-the-buffer", &*copy);
        if (must_throw(UNICODE, w, [&] { own_apply(*t, form, k, n); })) {
            vrt::count("own_range.failing_calls");
            // used again: a well-formed range of its own buffer (same form), then from outside
            if (!bounds.empty()) {
                size_t kb = r.pick(bounds), nb = tv.size() - kb;
                if (own_form_sized(form) && r.chance(1, 2)) { const size_t e2 = r.pick(bounds); if (e2 > kb) nb = e2 - kb; }
                const S want = own_model(tv, form, kb, nb);
                try { va::LibScope ls; own_apply(*t, form, kb, nb); }
                catch (const ST::unicode_error &e) { fail("well-formed-own-range-rejected", e.what()); }
                vrt::evals();
                const S now = vrt::str_of(*t);
                if (now != want) fail("result-after-failed-call-differs", sfmt("after the failure the same call with bytes [%zu, %zu) of the target gave %zu bytes %s, the model %zu bytes %s", kb, kb + nb, now.size(), show(now).c_str(), want.size(), show(want).c_str()));
                vrt::count("own_range.successful_calls_after_the_failure");
                { va::LibScope ls; *t = vrt::mk(tv); }
            }
            reuse(t, tv);
        }
        g_ctx = saved_ctx;
    };
    for (unsigned form = 0; form < N_OWN_FORMS; ++form) {
        // tails that start inside a character: the first such offset, the last one (a tail of continuation bytes only), a random one
        const size_t ks[] = {inside.front(), inside.back(), r.pick(inside)};
        for (unsigned j = 0; j < 3; ++j) {
            if (j == 2 && tv.size() > 2000 && !r.chance(1, 4)) continue;
            if (j && ks[j] == ks[0]) continue;
            failing(form, ks[j], tv.size() - ks[j], "tail");
            vrt::count("own_range.tails_starting_inside_a_character");
        }
        if (own_form_sized(form)) {
            // ranges that do not reach the end: starting inside a character, or ending inside one
            const size_t k = r.pick(inside);
            if (k + 1 < tv.size()) { failing(form, k, 1 + r.below(tv.size() - k - 1), "inner range"); vrt::count("own_range.ranges_starting_inside_a_character"); }
            const size_t e = r.pick(inside);              // ends right before a continuation byte
            const size_t k0 = r.chance(1, 3) ? 0 : r.below(e);
            size_t kk = k0;
            while (kk > 0 && (static_cast<unsigned char>(tv[kk]) & 0xC0) == 0x80) --kk;
            if (e > kk) { failing(form, kk, e - kk, "range cut inside a character"); vrt::count("own_range.ranges_ending_inside_a_character"); }
        }
    }
    vrt::count("own_range.cases");
    if (tv.size() > 15) vrt::count("own_range.targets_on_the_heap");
    vrt::distinct(vrt::fnv1a(tv.data(), tv.size(), vrt::fnv_u64(i, 163)));
    if (vrt::want_sample("own_range")) vrt::sample("own_range", sfmt("%s: %u forms of set / = / += with tails and inner ranges of its own buffer that start or end inside a multi-byte character", g_ctx.c_str(), static_cast<unsigned>(N_OWN_FORMS)));
}

} // namespace seq

static void body()
{
    ambient::enable(3);
    vrt::box_shifts() = true;
    vrt::require("scenarios", 15000);
    vrt::require("threw.ST::unicode_error", 8000);
    vrt::require("threw.ST::codec_error", 500);
    vrt::require("threw.ST::bad_format", 200);
    vrt::require("threw.std::out_of_range", 200);
    vrt::require("format.rvalue_argument", 100);
    vrt::note("enumerated: every throwing entry point x target length {0,5,15,16,17,40} x argument length {3,20,60,70,135,300,1100} x damage position {start,middle,end}; random contents");
    const size_t reps = vrt::tier_count(120, 1200);
    // (the longer arguments put the damage behind 64, 128, 256 and 1024 units of valid text: block-wise conversions)
    static const size_t ALENS[] = {3, 20, 60, 70, 135, 300, 1100};
    vrt::phase("enumerated", reps * 6 * 7 * 3, [&](uint64_t i, Rng &r) {
        size_t tl = TARGET_LENS[i % 6], al = ALENS[(i / 6) % 7];
        int where = static_cast<int>((i / 42) % 3);
        string_target_scenarios(r, tl, al, where);
        static const size_t FILLS[] = {0, 10, 255, 256, 257, 600};
        stream_scenarios(r, FILLS[i % 6], al, where);
        vrt::distinct(vrt::fnv_u64(i, 141));
        if (vrt::want_sample("enumerated")) vrt::sample("enumerated", g_ctx + ": ~90 failing calls, each followed by value / leak / reuse checks");
    });
    // scale: the datum that makes the call fail sits behind q x B valid units (B = 16 .. 1 Mi, q = 1..8; measured from the end for one
    // case in five); string targets of up to 1 MiB; streams that have grown to 64 KiB .. 1 MiB before the failing insertion
    vrt::note("scale phase: every scenario of the table with the invalid datum (ill-formed UTF-8/16/32, code point above U+10FFFF, bad hex / base64 character or length, malformed format specifier, missing "
              "argument, non-UTF-8 format result, character outside Latin-1) behind q x B valid units (B from 16 to 1 Mi, q = 1..8), against string targets of 0 .. 1 MiB and string_stream targets holding 0 .. 1 MiB");
    vrt::require("scale.cases", 100);
    for (const char *gname : sc::GROUP_NAME) vrt::require(sfmt("scale.cases.%s", gname), 10);
    vrt::require("scale.datum_behind>=64Ki_valid_units", 30);
    vrt::require("scale.datum_behind>=1Mi_valid_units", 1);
    vrt::require("scale.string_target>=64KiB", 10);
    vrt::require("scale.stream_target>32KiB", 10);
    vrt::require("scale.stream_target>=1MiB", 1);
    vrt::require("scale.stream_argument>64Ki_units", 5);
    vrt::phase("scale", vrt::tier_count(2016, 40000), sc::failure_case);
    // sequences around a failure; sources inside the target's own buffer
    vrt::note("sequences phase: on one string_stream / ST::string a successful call with text X (const wchar_t* / char16_t* / char32_t* / char*, STL strings, views; =, set, +=, +, constructors, from_*), a failing "
              "call with ill-formed Y (written over X in place, or elsewhere), optionally a successful call with other text Z of the same size, first and last 16 units at X's address, then the first call again "
              "with the very same X: the target is unchanged by the failure and every successful result equals the model (the same for hex_decode / base64_decode with the argument string rebuilt at the same address "
              "and for ST::format with the format string rewritten in place); own_range phase: set / = / += whose source is a tail or inner range of the target's own buffer "
              "that starts or ends inside a multi-byte character: ST::unicode_error, target (and a copy sharing its buffer) unchanged, usable afterwards");
    vrt::require("sequence.cases", 1000);
    vrt::require("sequence.stream_sequences", 100);
    vrt::require("sequence.string_sequences", 500);
    vrt::require("sequence.first_call_repeated_after_a_failure", 1500);
    vrt::require("sequence.failing_argument_at_the_same_address", 400);
    vrt::require("sequence.failing_argument_at_another_address", 400);
    vrt::require("sequence.other_text_at_the_same_address", 200);
    vrt::require("sequence.target_rebuilt", 100);
    for (const char *fam : {"wchar_t", "char16_t", "char32_t"}) for (const char *form : seq::STREAM_FORM) vrt::require(sfmt("sequence.%s.%s", fam, form), 10);
    for (const char *fam : {"char", "wchar_t", "char16_t", "char32_t"}) for (const char *form : seq::STRING_FORM) vrt::require(sfmt("sequence.%s.%s", fam, form), 10);
    vrt::require("sequence.codec_sequences", 60);
    vrt::require("sequence.format_sequences", 30);
    vrt::require("sequence.codec_argument_at_the_address_of_its_predecessor", 50);
    vrt::phase("sequences", vrt::tier_count(64 * 15 * 3, 64 * 15 * 40), seq::sequence_case);
    vrt::require("own_range.cases", 200);
    vrt::require("own_range.failing_calls", 5000);
    vrt::require("own_range.tails_starting_inside_a_character", 3000);
    vrt::require("own_range.ranges_starting_inside_a_character", 1000);
    vrt::require("own_range.ranges_ending_inside_a_character", 1000);
    vrt::require("own_range.successful_calls_after_the_failure", 3000);
    vrt::require("own_range.targets_on_the_heap", 100);
    vrt::phase("own_range", vrt::tier_count(360, 7200), seq::own_range_case);
    va::check_pairing("failure");
}

VRT_MAIN(body)
