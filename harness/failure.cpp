// C18 - a failed operation leaves its target and its arguments unchanged.
// Every throwing entry point is driven with invalid data of every kind against
// targets and arguments of every size class; after catching the exception all
// watched objects are compared with the values captured before the call, the
// allocation registry is checked for leaks, and the objects are used again.
#include "vrt.h"
#include "vrt_alloc.h"
#include "vrt_st.h"
#include "ref_unicode.h"
#include "gen_text.h"
#include <sstream>

using vrt::Rng;
using vrt::sfmt;
namespace va = vrt::alloc;
typedef std::string S;

static std::string show(const S &s) { return vrt::hex(s.data(), s.size(), 1, 40); }

static std::string g_op;        // scenario name
static std::string g_ctx;

static void fail(const char *what, const std::string &detail)
{
    va::HarnessScope hs;
    vrt::violation(sfmt("C18:%s:%s", g_op.c_str(), what), sfmt("%s %s", g_ctx.c_str(), detail.c_str()));
}

// objects that must still hold their value after the failed call
struct Watch {
    std::vector<std::function<void(const char *)>> checks;
    void str(const char *role, const ST::string *p)
    {
        S v(p->c_str(), p->size());
        checks.push_back([=](const char *when) {
            S now(p->c_str(), p->size());
            if (now != v) fail(sfmt("%s-changed", role).c_str(), sfmt("(%s) was %s now %s", when, show(v).c_str(), show(now).c_str()));
            if (p->c_str()[p->size()] != 0) fail(sfmt("%s-no-terminator", role).c_str(), when);
        });
    }
    template <typename T> void buf(const char *role, const ST::buffer<T> *p)
    {
        std::basic_string<T> v(p->data(), p->size());
        checks.push_back([=](const char *when) {
            std::basic_string<T> now(p->data(), p->size());
            if (now != v) fail(sfmt("%s-changed", role).c_str(), sfmt("(%s) was %s now %s", when, vrt::hex(v.data(), v.size(), sizeof(T), 30).c_str(), vrt::hex(now.data(), now.size(), sizeof(T), 30).c_str()));
        });
    }
    template <typename T> void stl(const char *role, const std::basic_string<T> *p)
    {
        std::basic_string<T> v(*p);
        checks.push_back([=](const char *when) { if (*p != v) fail(sfmt("%s-changed", role).c_str(), when); });
    }
    void stream(const char *role, const ST::string_stream *p)
    {
        S v(p->raw_buffer(), p->size());
        checks.push_back([=](const char *when) {
            S now(p->raw_buffer(), p->size());
            if (now != v) fail(sfmt("%s-changed", role).c_str(), sfmt("(%s) size was %zu now %zu", when, v.size(), now.size()));
        });
    }
    void verify(const char *when) { va::HarnessScope hs; for (auto &c : checks) c(when); vrt::evals(); }
};

enum Exc { UNICODE, CODEC, BADFMT, RANGE };
static const char *ename(Exc e) { return e == UNICODE ? "ST::unicode_error" : e == CODEC ? "ST::codec_error" : e == BADFMT ? "ST::bad_format" : "std::out_of_range"; }

// run `f`, which must throw `want`; then verify the watched objects
template <typename F>
static bool must_throw(Exc want, Watch &w, F &&f)
{
    vrt::cur_rewind();
    vrt::cur_printf("op=%s %s\n", g_op.c_str(), g_ctx.c_str());
    vrt::evals();
    bool thrown = false;
    const size_t live_before = va::reg().live_lib;
    try {
        va::LibScope ls;
        f();
    } catch (const ST::unicode_error &) { thrown = want == UNICODE; if (!thrown) fail("wrong-exception", "unicode_error");
    } catch (const ST::codec_error &) { thrown = want == CODEC; if (!thrown) fail("wrong-exception", "codec_error");
    } catch (const ST::bad_format &) { thrown = want == BADFMT; if (!thrown) fail("wrong-exception", "bad_format");
    } catch (const std::out_of_range &) { thrown = want == RANGE; if (!thrown) fail("wrong-exception", "out_of_range"); }
    if (!thrown) { fail("did-not-throw", ename(want)); return false; }
    w.verify("after the exception");
    if (va::reg().live_lib != live_before)
        fail("leak", sfmt("%zu library allocations made by the failed call are still alive", va::reg().live_lib - live_before));
    vrt::count(std::string("threw.") + ename(want));
    vrt::count("scenarios");
    return true;
}

// ---------------------------------------------------------------- data
static const size_t TARGET_LENS[] = {0, 5, 15, 16, 17, 40};

static S valid8(Rng &r, size_t n)
{
    S t;
    while (t.size() < n) {
        if (n - t.size() >= 4 && r.chance(1, 4)) ref::enc_utf8(t, 0x1F600);
        else if (n - t.size() >= 2 && r.chance(1, 3)) ref::enc_utf8(t, 0xE9);
        else t += static_cast<char>('a' + r.below(26));
    }
    return t;
}
// malformed UTF-8 of total length about n with the damage at the start / middle / end
static S bad8(Rng &r, size_t n, int where)
{
    static const char *const pieces[] = {"\x80", "\xC3", "\xE2\x82", "\xF0\x9F\x98", "\xF8", "\xFF", "\xC3\x41", "\xBF\xBF", "\xE2\x41\x82"};
    S piece = r.pick(pieces);
    size_t rest = n > piece.size() ? n - piece.size() : 0;
    size_t a = where == 0 ? 0 : where == 1 ? rest / 2 : rest;
    S out = valid8(r, a) + piece + (where == 2 && (piece.back() & 0x80) ? S() : valid8(r, rest - a));
    if (!ref::has_bad(ref::decode_utf8(out))) out += "\xFF";
    return out;
}
static std::u16string bad16(Rng &r, size_t n, int where)
{
    std::u16string out;
    for (size_t k = 0; k < n; ++k) out += static_cast<char16_t>('a' + r.below(26));
    char16_t lone = r.chance(1, 2) ? 0xD800 + r.below(0x400) : 0xDC00 + r.below(0x400);
    size_t pos = where == 0 ? 0 : where == 1 ? n / 2 : n;
    out.insert(pos, 1, lone);
    return out;
}
static std::u32string bad32(Rng &r, size_t n, int where)
{
    std::u32string out;
    for (size_t k = 0; k < n; ++k) out += static_cast<char32_t>(r.chance(1, 4) ? 0x1F600 : 'a' + r.below(26));
    static const char32_t bads[] = {0x110000, 0x7FFFFFFF, 0xFFFFFFFFu, 0x200000};
    size_t pos = where == 0 ? 0 : where == 1 ? n / 2 : n;
    out.insert(pos, 1, r.pick(bads));
    return out;
}

// after a failure the same objects can be used normally
static void reuse(vrt::Box<ST::string> &t, const S &was)
{
    va::LibScope ls;
    *t += "+ok";
    S now((*t).c_str(), (*t).size());
    if (now != was + "+ok") fail("target-unusable-afterwards", sfmt("after += got %s", show(now).c_str()));
    *t = vrt::mk(was);
}

// ---------------------------------------------------------------- scenarios on an ST::string target
static void string_target_scenarios(Rng &r, size_t tlen, size_t alen, int where)
{
    const S tv = valid8(r, tlen);
    const S b8 = bad8(r, alen, where);
    const std::u16string b16 = bad16(r, alen, where);
    const std::u32string b32 = bad32(r, alen, where);
    const std::wstring bw(b32.begin(), b32.end());
    g_ctx = sfmt("target=%zu bytes, argument about %zu units, damage at %s", tlen, alen, where == 0 ? "start" : where == 1 ? "middle" : "end");
    const bool nonul = b8.find('\0') == S::npos;

#define SCEN(name, exc, watch_extra, call)                                  \
    do {                                                                    \
        g_op = name;                                                        \
        vrt::Box<ST::string> t(vrt::mk(tv));                                \
        Watch w;                                                            \
        w.str("target", &*t);                                               \
        watch_extra;                                                        \
        if (must_throw(exc, w, [&] { call; })) reuse(t, tv);                \
    } while (0)

    // --- UTF-8 arguments
    {
        vrt::Exact<char> z(b8.data(), b8.size(), true);
        ST::char_buffer cb(b8.data(), b8.size());
        S ss(b8);
        if (nonul) {
            SCEN("string=const char*", UNICODE, , *t = z.data());
            SCEN("string.set(const char*)", UNICODE, , t->set(z.data()));
            SCEN("string+=const char*", UNICODE, , *t += z.data());
            SCEN("string+=const char8_t*", UNICODE, , *t += reinterpret_cast<const char8_t *>(z.data()));
            SCEN("string+const char*", UNICODE, , ST::string x = *t + z.data(); (void)x);
            SCEN("const char*+string", UNICODE, , ST::string x = z.data() + *t; (void)x);
            SCEN("string.replace(const char*,..)", UNICODE, , ST::string x = t->replace(z.data(), "x"); (void)x);
            SCEN("string.replace(..,const char*)", UNICODE, , ST::string x = t->replace("a", z.data()); (void)x);
        }
        SCEN("string.set(ptr,n)", UNICODE, , t->set(z.data(), b8.size()));
        SCEN("string.set(ptr,n,check_validity)", UNICODE, , t->set(z.data(), b8.size(), ST::check_validity));
        SCEN("string=char_buffer", UNICODE, w.buf("argument", &cb), *t = cb);
        SCEN("string.set(char_buffer)", UNICODE, w.buf("argument", &cb), t->set(cb));
        SCEN("string=std::string", UNICODE, w.stl("argument", &ss), *t = ss);
        SCEN("string.set(std::string)", UNICODE, w.stl("argument", &ss), t->set(ss));
        SCEN("string=string_view", UNICODE, , *t = std::string_view(ss));
        SCEN("string=string(ctor throws)", UNICODE, , *t = ST::string(z.data(), b8.size()));
        SCEN("string=from_utf8(throws)", UNICODE, w.buf("argument", &cb), *t = ST::string::from_utf8(cb));
        // rvalue arguments keep their value when the call fails
        {
            ST::char_buffer rv(b8.data(), b8.size());
            SCEN("string=char_buffer&&", UNICODE, w.buf("rvalue-argument", &rv), *t = std::move(rv));
            SCEN("string.set(char_buffer&&)", UNICODE, w.buf("rvalue-argument", &rv), t->set(std::move(rv)));
            SCEN("string(char_buffer&&) ctor", UNICODE, w.buf("rvalue-argument", &rv), ST::string x(std::move(rv)); (void)x);
            SCEN("string(char_buffer&&,check_validity) ctor", UNICODE, w.buf("rvalue-argument", &rv), ST::string x(std::move(rv), ST::check_validity); (void)x);
            SCEN("string::from_utf8(const char_buffer&)", UNICODE, w.buf("argument", &rv), ST::string x = ST::string::from_utf8(rv); (void)x);
        }
        // stream extraction of a malformed token
        if (nonul && b8.find_first_of(" \t\n\v\f\r") == S::npos) {
            std::istringstream is(b8 + " next");
            SCEN("istream>>string", UNICODE, , is >> *t);
        }
        // free converters: arguments only
        SCEN("utf8_to_utf16(buffer)", UNICODE, w.buf("argument", &cb), auto x = ST::utf8_to_utf16(cb, ST::check_validity); (void)x);
        SCEN("utf8_to_utf32(buffer)", UNICODE, w.buf("argument", &cb), auto x = ST::utf8_to_utf32(cb, ST::check_validity); (void)x);
        SCEN("utf8_to_latin_1(buffer)", UNICODE, w.buf("argument", &cb), auto x = ST::utf8_to_latin_1(cb, ST::check_validity); (void)x);
    }
    // --- UTF-16 arguments
    {
        vrt::Exact<char16_t> z(b16.data(), b16.size(), true);
        ST::utf16_buffer ub(b16.data(), b16.size());
        std::u16string us(b16);
        SCEN("string=const char16_t*", UNICODE, , *t = z.data());
        SCEN("string.set(char16_t*,n)", UNICODE, , t->set(z.data(), b16.size()));
        SCEN("string+=const char16_t*", UNICODE, , *t += z.data());
        SCEN("string+const char16_t*", UNICODE, , ST::string x = *t + z.data(); (void)x);
        SCEN("string=utf16_buffer", UNICODE, w.buf("argument", &ub), *t = ub);
        SCEN("string.set(utf16_buffer)", UNICODE, w.buf("argument", &ub), t->set(ub));
        SCEN("string=u16string", UNICODE, w.stl("argument", &us), *t = us);
        SCEN("string=u16string_view", UNICODE, , *t = std::u16string_view(us));
        SCEN("string=from_utf16(throws)", UNICODE, w.buf("argument", &ub), *t = ST::string::from_utf16(ub));
        SCEN("utf16_to_utf8(buffer)", UNICODE, w.buf("argument", &ub), auto x = ST::utf16_to_utf8(ub, ST::check_validity); (void)x);
        SCEN("utf16_to_utf32(buffer)", UNICODE, w.buf("argument", &ub), auto x = ST::utf16_to_utf32(ub, ST::check_validity); (void)x);
    }
    // --- UTF-32 / wchar_t arguments
    {
        vrt::Exact<char32_t> z(b32.data(), b32.size(), true);
        vrt::Exact<wchar_t> zw(bw.data(), bw.size(), true);
        ST::utf32_buffer ub(b32.data(), b32.size());
        ST::wchar_buffer wb(bw.data(), bw.size());
        std::u32string us(b32);
        std::wstring ws(bw);
        SCEN("string=const char32_t*", UNICODE, , *t = z.data());
        SCEN("string=const wchar_t*", UNICODE, , *t = zw.data());
        SCEN("string.set(char32_t*,n)", UNICODE, , t->set(z.data(), b32.size()));
        SCEN("string.set(wchar_t*,n)", UNICODE, , t->set(zw.data(), bw.size()));
        SCEN("string+=const char32_t*", UNICODE, , *t += z.data());
        SCEN("string+=const wchar_t*", UNICODE, , *t += zw.data());
        SCEN("string+const char32_t*", UNICODE, , ST::string x = *t + z.data(); (void)x);
        SCEN("const wchar_t*+string", UNICODE, , ST::string x = zw.data() + *t; (void)x);
        SCEN("string=utf32_buffer", UNICODE, w.buf("argument", &ub), *t = ub);
        SCEN("string=wchar_buffer", UNICODE, w.buf("argument", &wb), *t = wb);
        SCEN("string.set(utf32_buffer)", UNICODE, w.buf("argument", &ub), t->set(ub));
        SCEN("string=u32string", UNICODE, w.stl("argument", &us), *t = us);
        SCEN("string=wstring", UNICODE, w.stl("argument", &ws), *t = ws);
        SCEN("string=u32string_view", UNICODE, , *t = std::u32string_view(us));
        SCEN("utf32_to_utf8(buffer)", UNICODE, w.buf("argument", &ub), auto x = ST::utf32_to_utf8(ub, ST::check_validity); (void)x);
        SCEN("utf32_to_utf16(buffer)", UNICODE, w.buf("argument", &ub), auto x = ST::utf32_to_utf16(ub, ST::check_validity); (void)x);
        SCEN("wchar_to_utf8(buffer)", UNICODE, w.buf("argument", &wb), auto x = ST::wchar_to_utf8(wb, ST::check_validity); (void)x);
    }
    // --- an invalid code point appended / concatenated
    {
        const char32_t badcp = b32[where == 0 ? 0 : where == 1 ? b32.size() / 2 : b32.size() - 1];
        if (badcp > 0x10FFFF) {
            SCEN("string+=char32_t", UNICODE, , *t += badcp);
            SCEN("string+=wchar_t", UNICODE, , *t += static_cast<wchar_t>(badcp));
            SCEN("string+char32_t", UNICODE, , ST::string x = *t + badcp; (void)x);
            SCEN("char32_t+string", UNICODE, , ST::string x = badcp + *t; (void)x);
            SCEN("wchar_t+string", UNICODE, , ST::string x = static_cast<wchar_t>(badcp) + *t; (void)x);
        }
    }
    // --- Latin-1 range, index range
    {
        g_op = "to_latin_1(false)";
        S txt = valid8(r, tlen / 2) + "\xC4\x80" + valid8(r, tlen / 2);
        vrt::Box<ST::string> t(vrt::mk(txt));
        Watch w;
        w.str("target", &*t);
        if (must_throw(UNICODE, w, [&] { auto x = t->to_latin_1(false); (void)x; })) reuse(t, txt);
        g_op = "to_std_string(latin1,false)";
        Watch w2;
        w2.str("target", &*t);
        if (must_throw(UNICODE, w2, [&] { auto x = t->to_std_string(false, false); (void)x; })) reuse(t, txt);
        g_op = "to_buffer(latin1,false)";
        ST::char_buffer dest("keep", 4);
        Watch w3;
        w3.str("target", &*t);
        w3.buf("destination", &dest);
        must_throw(UNICODE, w3, [&] { t->to_buffer(dest, false, false); });
        // the std::string output-parameter forms: the caller's string keeps its value (short and long previous values)
        for (const char *prev : {"keep", "a previous value that is long enough to live on the heap"}) {
            g_op = "to_std_string(std::string&,latin1,false)";
            std::string out(prev);
            Watch w4;
            w4.str("target", &*t);
            w4.stl("destination", &out);
            must_throw(UNICODE, w4, [&] { t->to_std_string(out, false, false); });
            g_op = "to_std_string(std::string&,latin1,check_validity) [deprecated]";
            Watch w5;
            w5.str("target", &*t);
            w5.stl("destination", &out);
            must_throw(UNICODE, w5, [&] { t->to_std_string(out, false, ST::check_validity); });
        }
    }
    // --- a failed floating-point rendering leaves the formatter object as it was
    {
        g_op = "float_formatter.format(unsupported specifier)";
        for (double prev : {1.5, 1e100, -1e300}) {
            ST::float_formatter<double> ff;
            ff.format(prev, 'f');
            const S before(ff.text(), ff.size());
            bool threw = false;
            try { va::LibScope ls; ff.format(2.0, r.chance(1, 2) ? 'q' : 'd'); } catch (const ST::bad_format &) { threw = true; vrt::count("threw.ST::bad_format"); }
            vrt::evals();
            if (!threw) fail("did-not-throw", "float_formatter::format with an unsupported specifier");
            else if (ff.size() != before.size() || S(ff.text(), ff.size()) != before) fail("target-changed", sfmt("float_formatter held %zu bytes, now reports %zu", before.size(), ff.size()));
            vrt::count("scenarios");
        }
    }
    SCEN("string.at(out of range)", RANGE, , char c = t->at(tv.size() + r.below(3)); (void)c);
    {
        g_op = "buffer.at(out of range)";
        ST::char_buffer b(tv.data(), tv.size());
        Watch w;
        w.buf("target", &b);
        must_throw(RANGE, w, [&] { char c = b.at(tv.size()); (void)c; });
    }
    // --- codecs
    {
        S hexbad = gen::bytes_over(r, alen & ~static_cast<size_t>(1), "0123456789abcdef");
        if (hexbad.empty()) hexbad = "zz"; else hexbad[where == 0 ? 0 : where == 1 ? hexbad.size() / 2 : hexbad.size() - 1] = 'g';
        S hexodd = gen::bytes_over(r, alen | 1, "0123456789ABCDEF");
        S b64bad = gen::bytes_over(r, (alen & ~static_cast<size_t>(3)) + 4, "ABCDEFabcdef0123+/");
        b64bad[where == 0 ? 0 : where == 1 ? b64bad.size() / 2 : b64bad.size() - 1] = where == 2 ? '*' : '=';
        S b64len = gen::bytes_over(r, (alen & ~static_cast<size_t>(3)) + 1 + r.below(3), "ABCDEFabcdef0123+/");
        for (const S *txt : {&hexbad, &hexodd}) {
            g_op = "hex_decode";
            vrt::Box<ST::string> a(vrt::mk(*txt));
            Watch w;
            w.str("argument", &*a);
            must_throw(CODEC, w, [&] { auto x = ST::hex_decode(*a); (void)x; });
        }
        for (const S *txt : {&b64bad, &b64len}) {
            g_op = "base64_decode";
            vrt::Box<ST::string> a(vrt::mk(*txt));
            Watch w;
            w.str("argument", &*a);
            must_throw(CODEC, w, [&] { auto x = ST::base64_decode(*a); (void)x; });
        }
    }
    // --- formatting: bad format string, missing argument, invalid result; arguments passed as lvalues
    {
        static const char *const badfmts[] = {"{", "x{", "{5", "{_", "{.", "{&", "{q}", "{} {", "{}{!}", "} {{ {"};
        static const char *const missing[] = {"{}{}{}", "{&4}", "{&0}", "{} {} {&9}"};
        const char *bf = r.pick(badfmts), *ms = r.pick(missing);
        SCEN("format(bad format, lvalue string)", BADFMT, , ST::string x = ST::format(bf, *t, 42); (void)x);
        SCEN("format(missing argument, lvalue string)", RANGE, , ST::string x = ST::format(ms, *t, 42); (void)x);
        SCEN("format(invalid UTF-8 result, lvalue string)", UNICODE, , ST::string x = ST::format("{}\xFF{_\x80" "6}", *t, 1); (void)x);
        // (the sink lives inside the call: what an incremental sink already received is its own)
        SCEN("writef(bad format, lvalue string)", BADFMT, , std::ostringstream os; ST::writef(os, bf, *t, 42));
        // an argument passed as an rvalue: known finding K1 (by-value capture before the format string is parsed)
        {
            g_op = "format(bad format, rvalue string)";
            vrt::Box<ST::string> a(vrt::mk(tv));
            bool thrown = false;
            try { ST::string x = ST::format(bf, std::move(*a)); (void)x; } catch (const ST::bad_format &) { thrown = true; }
            vrt::evals();
            if (!thrown) fail("did-not-throw", "bad_format");
            else if (vrt::str_of(*a) != tv && !tv.empty())
                vrt::violation("C18:format:rvalue-argument-moved-from-before-parse", sfmt("ST::format(\"%s\", std::move(s)) threw bad_format but s (%zu bytes) now holds %zu bytes", bf, tv.size(), (*a).size()));
            vrt::count("format.rvalue_argument");
        }
    }
#undef SCEN
}

// ---------------------------------------------------------------- scenarios on a string_stream target
static void stream_scenarios(Rng &r, size_t fill, size_t alen, int where)
{
    const std::u16string b16 = bad16(r, alen, where);
    const std::u32string b32 = bad32(r, alen, where);
    const std::wstring bw(b32.begin(), b32.end());
    g_ctx = sfmt("stream holding %zu bytes, argument about %zu units, damage at %s", fill, alen, where == 0 ? "start" : where == 1 ? "middle" : "end");
    const S content = gen::any_bytes(r, fill);
#define SSCEN(name, call)                                                   \
    do {                                                                    \
        g_op = name;                                                        \
        vrt::Box<ST::string_stream> ss;                                     \
        { va::LibScope ls; ss->append(content.data(), content.size()); }    \
        Watch w;                                                            \
        w.stream("target-stream", &*ss);                                    \
        if (must_throw(UNICODE, w, [&] { call; })) {                        \
            va::LibScope ls;                                                \
            *ss << "+ok";                                                   \
            if (S(ss->raw_buffer(), ss->size()) != content + "+ok") fail("stream-unusable-afterwards", ""); \
        }                                                                   \
    } while (0)
    vrt::Exact<char16_t> z16(b16.data(), b16.size(), true);
    vrt::Exact<char32_t> z32(b32.data(), b32.size(), true);
    vrt::Exact<wchar_t> zw(bw.data(), bw.size(), true);
    SSCEN("string_stream<<const char16_t*", *ss << z16.data());
    SSCEN("string_stream<<const char32_t*", *ss << z32.data());
    SSCEN("string_stream<<const wchar_t*", *ss << zw.data());
    SSCEN("string_stream<<u16string", *ss << b16);
    SSCEN("string_stream<<u32string", *ss << b32);
    SSCEN("string_stream<<wstring", *ss << bw);
    SSCEN("string_stream<<u16string_view", *ss << std::u16string_view(b16));
    SSCEN("string_stream<<u32string_view", *ss << std::u32string_view(b32));
    SSCEN("string_stream<<wstring_view", *ss << std::wstring_view(bw));
    if (!ref::utf8_ok(content)) {
        SSCEN("string_stream.to_string(check_validity)", ST::string x = ss->to_string(true, ST::check_validity); (void)x);
    }
#undef SSCEN
}

static void body()
{
    vrt::require("scenarios", 15000);
    vrt::require("threw.ST::unicode_error", 8000);
    vrt::require("threw.ST::codec_error", 500);
    vrt::require("threw.ST::bad_format", 200);
    vrt::require("threw.std::out_of_range", 200);
    vrt::require("format.rvalue_argument", 100);
    vrt::note("enumerated: every throwing entry point x target length {0,5,15,16,17,40} x argument length {3,20,60,70,135,300,1100} x damage position {start,middle,end}; random contents");
    const size_t reps = vrt::tier_count(120, 1200);
    // (the longer arguments put the damage behind 64, 128, 256 and 1024 units of valid text: block-wise conversions)
    static const size_t ALENS[] = {3, 20, 60, 70, 135, 300, 1100};
    vrt::phase("enumerated", reps * 6 * 7 * 3, [&](uint64_t i, Rng &r) {
        size_t tl = TARGET_LENS[i % 6], al = ALENS[(i / 6) % 7];
        int where = static_cast<int>((i / 42) % 3);
        string_target_scenarios(r, tl, al, where);
        static const size_t FILLS[] = {0, 10, 255, 256, 257, 600};
        stream_scenarios(r, FILLS[i % 6], al, where);
        vrt::distinct(vrt::fnv_u64(i, 141));
        if (vrt::want_sample("enumerated")) vrt::sample("enumerated", g_ctx + ": ~90 failing calls, each followed by value / leak / reuse checks");
    });
    va::check_pairing("failure");
}

VRT_MAIN(body)
