// C08 - substr / left / right / trim / before_* / after_* against the clamped
// byte-range reference, under ASan+UBSan, with the allocation registry
// watching the size of every allocation the call attempts.
#include "vrt.h"
#include "vrt_alloc.h"
#include "vrt_st.h"
#include "ref_text.h"
#include "gen_text.h"
#include "gen_scale.h"
#include "ambient.h"
#include <climits>

using vrt::Rng;
using vrt::sfmt;
typedef std::string S;

static const size_t SMAX = static_cast<size_t>(-1);
static const long LMAX = LONG_MAX, LMIN = LONG_MIN;

static std::string show(const S &s) { return vrt::hex(s.data(), s.size()); }

// Runs one library call that returns an ST::string; applies the call-level
// monitors (no allocation failure escapes, no oversized request, terminator).
template <typename F>
static bool call(const char *op, const S &subject, const std::string &args, F &&f, S &out)
{
    vrt::cur_rewind();
    vrt::cur_printf("op=%s subject=%s %s\n", op, show(subject).c_str(), args.c_str());
    vrt::evals();
    try {
        size_t maxreq;
        {
            vrt::alloc::LibScope ls;
            ST::string r = f();
            maxreq = vrt::alloc::reg().max_request;
            {
                vrt::alloc::HarnessScope hs;
                out.assign(r.c_str(), r.size());
                if (r.c_str()[r.size()] != 0)
                    vrt::violation(sfmt("C08:%s:no-terminator", op), sfmt("subject=%s %s", show(subject).c_str(), args.c_str()));
            }
        }
        if (maxreq > subject.size() + 1) {
            vrt::violation(sfmt("C08:%s:oversized-allocation", op),
                           sfmt("requested %zu bytes for a subject of %zu; subject=%s %s", maxreq, subject.size(),
                                show(subject).c_str(), args.c_str()));
        }
        return true;
    } catch (const std::bad_alloc &e) {
        vrt::violation(sfmt("C08:%s:bad_alloc-escaped", op),
                       sfmt("%s (max request %zu) subject=%s %s", e.what(), vrt::alloc::reg().max_request,
                            show(subject).c_str(), args.c_str()));
    } catch (const ST::unicode_error &) {
        // only reachable through a validating overload on non-UTF-8 subjects; none is used here
        vrt::violation(sfmt("C08:%s:unicode_error", op), sfmt("subject=%s %s", show(subject).c_str(), args.c_str()));
    }
    return false;
}

static void expect(const char *op, const S &subject, const std::string &args, const S &got, const S &want)
{
    if (got == want) return;
    if (subject.size() <= 96) {
        vrt::violation(sfmt("C08:%s:wrong-result", op),
                       sfmt("subject=%s %s got=%s want=%s", show(subject).c_str(), args.c_str(), show(got).c_str(), show(want).c_str()));
    } else {
        // big values: lengths, hashes and the bytes around the first difference instead of megabytes of hex
        const size_t fd = scale::first_diff(got, want);
        vrt::violation(sfmt("C08:%s:wrong-result", op),
                       sfmt("subject: %s; %s; got: %s; want: %s; first difference at result offset %zu", scale::brief(subject).c_str(), args.c_str(),
                            scale::brief(got, fd).c_str(), scale::brief(want, fd).c_str(), fd));
    }
}

// ---- per-input monitors shared by the directed, random and scale phases ------------------------------------------
static void substr_check(const vrt::Box<ST::string> &st, const S &s, long start, size_t count)
{
    S got, args = sfmt("start=%ld count=%zu", start, count);
    if (call("substr", s, args, [&] { return st->substr(start, count); }, got))
        expect("substr", s, args, got, ref::substr(s, start, count));
    vrt::count("substr.calls");
}
static void substr_check_default_count(const vrt::Box<ST::string> &st, const S &s, long start)
{
    S got, args = sfmt("start=%ld count=default", start);
    if (call("substr", s, args, [&] { return st->substr(start); }, got))
        expect("substr", s, args, got, ref::substr(s, start, SMAX));
    vrt::count("substr.calls");
}
static void left_right_check(const vrt::Box<ST::string> &st, const S &s, size_t k)
{
    S got, args = sfmt("n=%zu", k);
    if (call("left", s, args, [&] { return st->left(k); }, got)) expect("left", s, args, got, ref::left(s, k));
    if (call("right", s, args, [&] { return st->right(k); }, got)) expect("right", s, args, got, ref::right(s, k));
    vrt::count("left_right.calls", 2);
    if (k > s.size() && k < 2 * s.size()) vrt::count("right.n_between_size_and_2size");
}
// trim_left / trim_right / trim of s with the character set cs (nullptr: the default argument, i.e. white space)
static void trim_check(const S &s, const char *cs, S *trimmed = nullptr)
{
    const S set = cs ? S(cs) : S(" \t\r\n");
    vrt::Box<ST::string> st(vrt::mk(s));
    vrt::Exact<char> cset(set.data(), set.size(), true);
    S got, args = sfmt("charset=%s%s", show(set).c_str(), cs ? "" : "(default)");
    if (call("trim_left", s, args, [&] { return cs ? st->trim_left(cset.data()) : st->trim_left(); }, got))
        expect("trim_left", s, args, got, ref::trim_left(s, set));
    if (call("trim_right", s, args, [&] { return cs ? st->trim_right(cset.data()) : st->trim_right(); }, got))
        expect("trim_right", s, args, got, ref::trim_right(s, set));
    if (call("trim", s, args, [&] { return cs ? st->trim(cset.data()) : st->trim(); }, got)) {
        expect("trim", s, args, got, ref::trim(s, set));
        if (got.size() == s.size()) vrt::count("trim.nothing_to_trim");
        if (got.empty() && !s.empty()) vrt::count("trim.everything_trimmed");
    }
    if (vrt::str_of(*st) != s) vrt::violation("C08:trim:subject-changed", s.size() <= 96 ? show(s) : scale::brief(s));
    vrt::count("trim.calls", 3);
    vrt::distinct(vrt::fnv1a(set.data(), set.size(), vrt::fnv1a(s.data(), s.size(), 13)));
    if (trimmed) *trimmed = got;
}

static std::vector<S> subjects()
{
    std::vector<S> v;
    static const size_t lens[] = {0, 1, 2, 5, 14, 15, 16, 17, 18, 31, 32, 33, 40, 300};
    Rng r(12345);
    for (size_t n : lens) {
        S a(n, 'x');
        for (size_t i = 0; i < n; ++i) a[i] = static_cast<char>('a' + i % 26);
        v.push_back(a);
        if (n) {
            v.push_back(gen::any_bytes(r, n));                       // arbitrary bytes incl. NUL and >= 0x80
            S z(a); z[n / 2] = '\0'; z[n - 1] = '\xe9'; v.push_back(z);
        }
    }
    return v;
}

static std::vector<long> starts_for(size_t n)
{
    long sn = static_cast<long>(n);
    std::vector<long> v = {0, 1, -1, 2, -2, sn - 1, -(sn - 1), sn, -sn, sn + 1, -(sn + 1), sn + 2, -(sn + 2),
                           sn / 2, -(sn / 2), LMIN, LMIN + 1, LMAX, LMAX - 1, LMAX - sn, LMIN + sn, 1000, -1000};
    return v;
}
static std::vector<size_t> counts_for(size_t n, long start)
{
    size_t us = static_cast<size_t>(start);
    std::vector<size_t> v = {0, 1, 2, n / 2, n - 1, n, n + 1, n + 2, 2 * n, SMAX, SMAX - 1, SMAX - 2,
                             SMAX - us, SMAX - us + 1, SMAX - us - 1, SMAX - n, SMAX / 2, SMAX / 2 + 1,
                             static_cast<size_t>(LMAX), static_cast<size_t>(LMAX) + 1};
    if (start >= 0 && us <= n) {
        v.push_back(n - us);
        v.push_back(n - us + 1);
        if (n - us) v.push_back(n - us - 1);
    }
    return v;
}


// ---------------------------------------------------------------- generators of the scale phase
// len bytes drawn from `alphabet` (empty: all 256 byte values)
static S fill_random(Rng &r, size_t len, const S &alphabet)
{
    S s(len, '\0');
    for (size_t i = 0; i < len;) {
        uint64_t v = r.next();
        for (int k = 0; k < 8 && i < len; ++k, v >>= 8)
            s[i++] = alphabet.empty() ? static_cast<char>(v & 0xFF) : alphabet[(v & 0xFF) % alphabet.size()];
    }
    return s;
}
static S fill_background(Rng &r, size_t len, const S &alphabet)
{
    if (r.chance(1, 3)) return S(len, alphabet[r.below(alphabet.size())]);
    return fill_random(r, len, alphabet);
}
// character sets for trim at scale: the default, short ASCII ones, ones with bytes >= 0x80, long ones (tens to hundreds of members)
static const std::vector<S> &scale_charsets()
{
    static const std::vector<S> v = [] {
        std::vector<S> o = {" \t", "x", "\"'", "_-.,;:", " \t\r\n\v\f", "\xe9\x80", " \xa0", "\xc2\xa0 \t", "\xff", "\x7f\x01"};
        S a, b, c, d;
        for (int ch = 1; ch < 0x80; ++ch) if (ch != 'Q' && ch != 'q' && ch != '.') a += static_cast<char>(ch);     // 124 ASCII bytes
        for (int ch = 0x20; ch < 0x40; ++ch) b += static_cast<char>(ch);                                          // 32: space, punctuation, digits
        for (int ch = 0x20; ch < 0x30; ++ch) c += static_cast<char>(ch);
        for (int ch = 0xA0; ch < 0xE0; ++ch) c += static_cast<char>(ch);                                          // 80 bytes, most of them >= 0x80
        for (int ch = 1; ch < 256; ++ch) if (ch != 'Q' && ch != 'q' && ch != 0xD1 && ch != 0x91) d += static_cast<char>(ch);   // nearly every byte value
        o.push_back(a); o.push_back(b); o.push_back(c); o.push_back(d);
        return o;
    }();
    return v;
}
// a byte that is NOT in `set` but looks like the member m to code that drops or ignores high bits (m modulo 128, modulo 64), or that
// sits right next to it; returns false when every candidate is a member itself
static bool alias_of_member(Rng &r, const S &set, bool high_only, char &out)
{
    if (set.empty()) return false;
    for (int tries = 0; tries < 16; ++tries) {
        const unsigned m = static_cast<unsigned char>(set[r.below(set.size())]);
        unsigned cand[8] = {m ^ 0x80u, (m & 0x3Fu) | 0x80u, (m & 0x3Fu) | 0xC0u, (m & 0x7Fu) | 0x80u, m ^ 0x40u, m ^ 0x20u, (m + 1) & 0xFFu, (m - 1) & 0xFFu};
        const unsigned c = cand[r.below(high_only ? 4 : 8)];
        if (high_only && c < 0x80) continue;
        if (!ref::in_set(set, static_cast<char>(c))) { out = static_cast<char>(c); return true; }
    }
    return false;
}

static void body()
{
    ambient::enable(3);
    vrt::require("substr.calls", 1000);
    vrt::require("left_right.calls", 500);
    vrt::require("trim.calls", 500);
    vrt::require("sep.calls", 1000);
    vrt::require("sep.found", 100);
    vrt::require("sep.absent", 100);
    vrt::require("reassembly.checked", 100);
    vrt::require("substr.count_near_SIZE_MAX", 100);
    vrt::require("right.n_between_size_and_2size", 20);

    const std::vector<S> subj = subjects();

    // ---- 1. substr: directed grid over every size class
    vrt::phase("substr_grid", subj.size(), [&](uint64_t i, Rng &) {
        const S &s = subj[i];
        vrt::Box<ST::string> st(vrt::mk(s));
        for (long start : starts_for(s.size())) {
            for (size_t count : counts_for(s.size(), start)) {
                S got, args = sfmt("start=%ld count=%zu", start, count);
                if (call("substr", s, args, [&] { return st->substr(start, count); }, got)) {
                    expect("substr", s, args, got, ref::substr(s, start, count));
                    vrt::count("substr.calls");
                    if (count >= SMAX - 1000 - static_cast<size_t>(start > 0 ? start : 0)) vrt::count("substr.count_near_SIZE_MAX");
                    if (start < 0) vrt::count("substr.negative_start");
                    if (start > static_cast<long>(s.size())) vrt::count("substr.start_beyond_end");
                    vrt::distinct(vrt::fnv_u64(count, vrt::fnv_u64(static_cast<uint64_t>(start), vrt::fnv1a(s.data(), s.size(), 11))));
                    if (vrt::want_sample("substr")) vrt::sample("substr", sfmt("substr subject=%s %s -> %s", show(s).c_str(), args.c_str(), show(got).c_str()));
                }
            }
            // default count
            S got, args = sfmt("start=%ld count=default", start);
            if (call("substr", s, args, [&] { return st->substr(start); }, got)) {
                expect("substr", s, args, got, ref::substr(s, start, SMAX));
                vrt::count("substr.calls");
            }
        }
        if (vrt::str_of(*st) != s)
            vrt::violation("C08:substr:subject-changed", sfmt("subject=%s", show(s).c_str()));
    });

    // ---- 2. left / right for every n
    vrt::phase("left_right", subj.size(), [&](uint64_t i, Rng &) {
        const S &s = subj[i];
        vrt::Box<ST::string> st(vrt::mk(s));
        std::vector<size_t> ns;
        for (size_t n = 0; n <= 2 * s.size() + 2 && n < 700; ++n) ns.push_back(n);
        for (size_t n : {SMAX, SMAX - 1, SMAX - s.size(), SMAX - s.size() + 1, SMAX / 2, static_cast<size_t>(LMAX), static_cast<size_t>(LMAX) + 1, static_cast<size_t>(LMAX) + s.size()})
            ns.push_back(n);
        for (size_t n : ns) {
            S got, args = sfmt("n=%zu", n);
            if (call("left", s, args, [&] { return st->left(n); }, got))
                expect("left", s, args, got, ref::left(s, n));
            if (call("right", s, args, [&] { return st->right(n); }, got))
                expect("right", s, args, got, ref::right(s, n));
            vrt::count("left_right.calls", 2);
            if (n > s.size() && n < 2 * s.size()) vrt::count("right.n_between_size_and_2size");
            vrt::distinct(vrt::fnv_u64(n, vrt::fnv1a(s.data(), s.size(), 12)));
        }
        if (vrt::want_sample("left_right") && s.size() > 2)
            vrt::sample("left_right", sfmt("left/right subject=%s for n in 0..%zu and near SIZE_MAX", show(s).c_str(), 2 * s.size() + 2));
    });

    // ---- 3. trim family
    static const char *const charsets[] = {nullptr /* default */, "", "x", "ab", " \t", "\xe9\x80", "xyz\x01"};
    vrt::phase("trim", vrt::tier_count(60000, 600000), [&](uint64_t, Rng &r) {
        const char *cs = r.pick(charsets);
        S set = cs ? S(cs) : S(" \t\r\n");
        S other = "Qq.\xc3\xa9";
        other.push_back('\0');
        size_t lead = r.chance(1, 3) ? 0 : r.below(20), trail = r.chance(1, 3) ? 0 : r.below(20);
        size_t mid = r.chance(1, 5) ? 0 : gen::pick_len(r) % 40;
        S s;
        if (!set.empty()) s += gen::bytes_over(r, lead, set);
        S core = gen::bytes_over(r, mid, other + set);
        s += core;
        if (!set.empty()) s += gen::bytes_over(r, trail, set);
        S got;
        trim_check(s, cs, &got);
        if (vrt::want_sample("trim") && lead && trail) vrt::sample("trim", sfmt("trim subject=%s charset=%s%s -> %s", show(s).c_str(), show(set).c_str(), cs ? "" : "(default)", show(got).c_str()));
    });

    // ---- 4. before/after first/last: exhaustive small sweep + random
    auto sep_case = [&](const S &s, const S &sep, bool ci) {
        vrt::Box<ST::string> st(vrt::mk(s));
        vrt::Box<ST::string> ssep(vrt::mk(sep));
        ST::case_sensitivity_t cs = ci ? ST::case_insensitive : ST::case_sensitive;
        bool cstr_ok = sep.find('\0') == S::npos;
        bool char_ok = sep.size() == 1;
        vrt::Exact<char> csep(sep.data(), sep.size(), true);
        struct Op {
            const char *name;
            S (*reff)(const S &, const S &, bool);
            int which;
        };
        static const Op ops[] = {{"before_first", ref::before_first, 0}, {"after_first", ref::after_first, 1},
                                 {"before_last", ref::before_last, 2}, {"after_last", ref::after_last, 3}};
        S res[4];
        for (const Op &op : ops) {
            S want = op.reff(s, sep, ci);
            S got, args = sfmt("sep=%s ci=%d form=ST::string", show(sep).c_str(), ci);
            bool ok = call(op.name, s, args, [&]() -> ST::string {
                switch (op.which) {
                case 0: return st->before_first(*ssep, cs);
                case 1: return st->after_first(*ssep, cs);
                case 2: return st->before_last(*ssep, cs);
                default: return st->after_last(*ssep, cs);
                }
            }, got);
            if (ok) expect(op.name, s, args, got, want);
            res[op.which] = got;
            vrt::count("sep.calls");
            if (cstr_ok) {
                args = sfmt("sep=%s ci=%d form=const char*", show(sep).c_str(), ci);
                ok = call(op.name, s, args, [&]() -> ST::string {
                    switch (op.which) {
                    case 0: return st->before_first(csep.data(), cs);
                    case 1: return st->after_first(csep.data(), cs);
                    case 2: return st->before_last(csep.data(), cs);
                    default: return st->after_last(csep.data(), cs);
                    }
                }, got);
                if (ok) expect(op.name, s, args, got, want);
                vrt::count("sep.calls");
                vrt::count("sep.form.cstr");
                args = sfmt("sep=%s ci=%d form=const char8_t*", show(sep).c_str(), ci);
                const char8_t *c8 = reinterpret_cast<const char8_t *>(csep.data());
                ok = call(op.name, s, args, [&]() -> ST::string {
                    switch (op.which) {
                    case 0: return st->before_first(c8, cs);
                    case 1: return st->after_first(c8, cs);
                    case 2: return st->before_last(c8, cs);
                    default: return st->after_last(c8, cs);
                    }
                }, got);
                if (ok) expect(op.name, s, args, got, want);
                vrt::count("sep.calls");
            }
            if (char_ok) {
                char ch = sep[0];
                args = sfmt("sep=%s ci=%d form=char", show(sep).c_str(), ci);
                ok = call(op.name, s, args, [&]() -> ST::string {
                    switch (op.which) {
                    case 0: return st->before_first(ch, cs);
                    case 1: return st->after_first(ch, cs);
                    case 2: return st->before_last(ch, cs);
                    default: return st->after_last(ch, cs);
                    }
                }, got);
                if (ok) expect(op.name, s, args, got, want);
                vrt::count("sep.calls");
                vrt::count("sep.form.char");
            }
        }
        long f = ref::find(s, sep, 0, ci);
        if (f >= 0) {
            vrt::count("sep.found");
            // before + matched text + after reassembles the original
            S matched_first = s.substr(res[0].size(), sep.size());
            if (res[0] + matched_first + res[1] != s || !ref::eq_at(s, res[0].size(), sep, ci))
                vrt::violation("C08:before_after_first:reassembly", sfmt("subject=%s sep=%s ci=%d before=%s after=%s", show(s).c_str(), show(sep).c_str(), ci, show(res[0]).c_str(), show(res[1]).c_str()));
            S matched_last = s.substr(res[2].size(), sep.size());
            if (res[2] + matched_last + res[3] != s || !ref::eq_at(s, res[2].size(), sep, ci))
                vrt::violation("C08:before_after_last:reassembly", sfmt("subject=%s sep=%s ci=%d before=%s after=%s", show(s).c_str(), show(sep).c_str(), ci, show(res[2]).c_str(), show(res[3]).c_str()));
            vrt::count("reassembly.checked");
        } else {
            vrt::count("sep.absent");
        }
        if (sep.size() >= 2) vrt::count("sep.len2plus");
        if (sep.empty()) vrt::count("sep.empty");
        vrt::distinct(vrt::fnv_u64(ci, vrt::fnv1a(sep.data(), sep.size(), vrt::fnv1a(s.data(), s.size(), 14))));
        if (vrt::want_sample("before_after") && f > 0 && sep.size() >= 2)
            vrt::sample("before_after", sfmt("subject=%s sep=%s ci=%d -> before_first=%s after_first=%s before_last=%s after_last=%s",
                                             show(s).c_str(), show(sep).c_str(), ci, show(res[0]).c_str(), show(res[1]).c_str(), show(res[2]).c_str(), show(res[3]).c_str()));
    };

    {
        S alpha = "abA";
        alpha.push_back('\0');
        alpha.push_back('\x80');
        const size_t hmax = vrt::thorough() ? 6 : 4, nmax = 3;
        uint64_t nh = gen::count_strings(alpha.size(), hmax), nn = gen::count_strings(alpha.size(), nmax);
        vrt::note(sfmt("before/after exhaustive sweep: all subjects of length <= %zu x separators of length <= %zu over {a,b,A,NUL,0x80} x both case modes", hmax, nmax));
        vrt::phase("sep_exhaustive", nh, [&](uint64_t i, Rng &) {
            S s, sep;
            gen::nth_string(i, alpha, hmax, s);
            for (uint64_t j = 0; j < nn; ++j) {
                gen::nth_string(j, alpha, nmax, sep);
                sep_case(s, sep, false);
                sep_case(s, sep, true);
            }
        });
    }
    vrt::phase("sep_random", vrt::tier_count(80000, 800000), [&](uint64_t, Rng &r) {
        S alpha = r.chance(1, 3) ? S("ab:") : r.chance(1, 2) ? S("aAbB:.\xc3\xa9") : S("@`[{^~_\x7f,\x0c; \t)kK");   // last: non-letters next to their bit-5 twins
        if (r.chance(1, 5)) alpha = r.chance(1, 2) ? S("iI:") : S("iI\xc9\xe9:");     // letters / bytes that locale-dependent case mapping treats differently
        if (r.chance(1, 4)) alpha.push_back('\0');
        S s = gen::bytes_over(r, gen::pick_len(r) % 60, alpha);
        S sep;
        unsigned how = static_cast<unsigned>(r.below(10));
        if (how == 0) sep = "";
        else if (how < 4 && !s.empty()) {           // a slice of the subject: guaranteed to occur
            size_t b = r.below(s.size()), l = 1 + r.below(std::min<size_t>(4, s.size() - b));
            sep = s.substr(b, l);
            if (r.chance(1, 2)) for (auto &c : sep) c = (c >= 'a' && c <= 'z') ? c - 32 : c;
        } else sep = gen::bytes_over(r, 1 + r.below(3), alpha);
        if (r.chance(1, 12)) sep = s;              // separator equal to the whole subject
        if (r.chance(1, 12)) sep = s + "a";        // longer than the subject
        sep_case(s, sep, r.chance(1, 2));
    });

    // ---- 5. random substr/left/right
    vrt::phase("slice_random", vrt::tier_count(300000, 4000000), [&](uint64_t, Rng &r) {
        S s = gen::any_bytes(r, gen::pick_len(r));
        vrt::Box<ST::string> st(vrt::mk(s));
        long n = static_cast<long>(s.size());
        long start;
        switch (r.below(5)) {
        case 0: start = r.range(-n - 3, n + 3); break;
        case 1: start = r.range(0, n); break;
        case 2: start = static_cast<long>(r.next()); break;
        case 3: start = LMIN + static_cast<long>(r.below(40)); break;
        default: start = LMAX - static_cast<long>(r.below(40)); break;
        }
        size_t count;
        switch (r.below(5)) {
        case 0: count = r.below(s.size() + 4); break;
        case 1: count = SMAX - r.below(2 * s.size() + 40); break;
        case 2: count = r.next(); break;
        case 3: count = SMAX - static_cast<size_t>(start) + r.below(5) - 2; break;
        default: count = (start >= 0 && start <= n) ? static_cast<size_t>(n - start) + r.below(3) - 1 : 1; break;
        }
        substr_check(st, s, start, count);
        if (count > SMAX - 100000) vrt::count("substr.count_near_SIZE_MAX");
        size_t k = r.chance(1, 2) ? r.below(2 * s.size() + 3) : (r.chance(1, 2) ? SMAX - r.below(50) : r.next());
        left_right_check(st, s, k);
        vrt::distinct(vrt::fnv_u64(k, vrt::fnv_u64(count, vrt::fnv_u64(static_cast<uint64_t>(start), vrt::fnv1a(s.data(), s.size(), 15)))));
    });
    // ---- 6. scale: subjects of 4 KiB .. 1 MiB.  The case index walks a grid block size B x multiple q x operation family; what is put
    // on / next to the multiple q*B is, per family: the subject's length, the start / count / n of a slice (measured from the
    // beginning and from the end), the length of the subject or of the run to be trimmed, the place where a separator occurrence
    // straddles or touches the multiple (measured from the beginning: first occurrence; from the end: last occurrence).
    {
        vrt::require("scale.cases", 200);
        vrt::require("scale.slice.cases", 40);
        vrt::require("scale.trim.cases", 40);
        vrt::require("scale.trim.first_kept_byte_aliases_member", 40);
        vrt::require("scale.trim.long_charset", 5);
        vrt::require("scale.trim.run_on_grid", 10);
        vrt::require("scale.sep.cases", 100);
        vrt::require("scale.sep.occurrence_straddles_block_boundary", 50);
        vrt::require("scale.sep.measured_from.beginning", 40);
        vrt::require("scale.sep.measured_from.end", 40);
        vrt::require("scale.sep.match_free_stretch>=64KiB", 20);
        vrt::require("scale.subject>=64KiB", 40);
        vrt::require("scale.subject>128KiB", 40);
        const std::vector<size_t> &BL = scale::blocks();
        const uint64_t G = BL.size() * 8;
        enum { SLICE, TRIM, SEP_BEGIN, SEP_END, SEP_BEGIN_BIG, SEP_END_BIG, NKINDS };
        vrt::phase("scale", vrt::tier_count(2 * NKINDS * G, 40 * NKINDS * G), [&](uint64_t i, Rng &r) {
            size_t B = BL[i % BL.size()], q = 1 + (i / BL.size()) % 8;
            const unsigned kind = static_cast<unsigned>((i / G) % NKINDS);
            const size_t cap = kind == TRIM ? 300u << 10 : 1u << 20;
            while (B > cap) B /= 4;
            while (q > 1 && q * B > cap) q = (q + 1) / 2;
            const size_t dist = q * B;
            size_t subject_len = 0;
            if (kind == SLICE) {
                // (a) the subject's own length on / next to the multiple, offsets from other grid points; (b) a longer subject and
                // offsets at the multiple, counted from the beginning and from the end
                size_t len;
                if (dist >= 4096 && r.chance(1, 2)) len = static_cast<size_t>(static_cast<long>(dist) + scale::nudge(r));
                else len = std::min<size_t>(cap + 70000, dist + (r.chance(1, 2) ? 4096 + r.below(70000) : scale::length(r, cap, 4096)));
                const S s = fill_random(r, len, r.chance(1, 4) ? S("ab") : S());
                vrt::Box<ST::string> st(vrt::mk(s));
                std::vector<size_t> off = {std::min(dist, len), static_cast<size_t>(std::max<long>(0, static_cast<long>(dist) + scale::nudge(r))),
                                           len - std::min(dist, len), static_cast<size_t>(std::max<long>(0, static_cast<long>(len - std::min(dist, len)) + scale::nudge(r))),
                                           scale::offset_any(r, len), scale::offset_any(r, len)};
                for (size_t k = 0; k < off.size(); ++k) {
                    const size_t o = off[k], o2 = off[(k + 1 + r.below(off.size() - 1)) % off.size()];
                    const long pstart = static_cast<long>(o), nstart = -static_cast<long>(o);
                    const size_t avail = o <= len ? len - o : 0;
                    const size_t counts[] = {o2, avail, avail + 1, avail ? avail - 1 : 0, SMAX, SMAX - o, dist, dist + 1, dist - 1};
                    substr_check(st, s, pstart, counts[r.below(9)]);
                    substr_check(st, s, pstart, counts[r.below(9)]);
                    substr_check(st, s, nstart, counts[r.below(9)]);
                    if (k % 2) substr_check_default_count(st, s, r.chance(1, 2) ? pstart : nstart);
                    left_right_check(st, s, o);
                    if (k < 2) left_right_check(st, s, len + o);
                }
                left_right_check(st, s, static_cast<size_t>(static_cast<long>(len) + (r.chance(1, 2) ? 1 : -1)));
                if (vrt::str_of(*st) != s) vrt::violation("C08:substr:subject-changed", scale::brief(s));
                vrt::count("scale.slice.cases");
                subject_len = len;
                if (vrt::want_sample("scale.slice"))
                    vrt::sample("scale.slice", sfmt("subject %s block=%zu x %zu: substr / left / right at offsets %zu, %zu, %zu, %zu, %zu, %zu from the beginning and from the end",
                                                    scale::brief(s).c_str(), B, q, off[0], off[1], off[2], off[3], off[4], off[5]));
            } else if (kind == TRIM) {
                const std::vector<S> &sets = scale_charsets();
                const bool dflt = r.chance(1, 4);
                const S &chosen = sets[r.below(sets.size())];
                const S set = dflt ? S(" \t\r\n") : chosen;
                const char *cs = dflt ? nullptr : chosen.c_str();
                S non;                                       // bytes outside the set (NUL included: it is never a member)
                for (int ch = 0; ch < 256; ++ch) if (!ref::in_set(set, static_cast<char>(ch))) non += static_cast<char>(ch);
                // big multiples: the subject's length sits on the grid; small ones: the length of the run to be trimmed does
                size_t len, lead, trail;
                const bool run_on_grid = dist < 4096 || r.chance(1, 4);
                if (run_on_grid) {
                    len = scale::length(r, cap, 4096 + 2 * dist + 2);
                    const size_t run = static_cast<size_t>(std::max<long>(0, static_cast<long>(std::min(dist, (len - 2) / 2)) + scale::nudge(r)));
                    lead = r.chance(2, 3) ? run : r.below(20);
                    trail = (lead != run || r.chance(1, 2)) ? run : r.below(20);
                } else {
                    len = static_cast<size_t>(static_cast<long>(dist) + scale::nudge(r));
                    lead = r.chance(1, 3) ? 0 : r.below(20);
                    trail = r.chance(1, 3) ? 0 : r.below(20);
                }
                if (lead + trail + 2 > len) len = lead + trail + 2;
                S s;
                bool alias_l = false, alias_r = false;
                if (r.chance(1, 12)) {
                    s = fill_background(r, len, set);           // nothing but members: everything goes
                } else {
                    char kf, kl;
                    alias_l = r.chance(5, 6) && alias_of_member(r, set, r.chance(5, 6), kf);
                    if (!alias_l) kf = non[r.below(non.size())];
                    alias_r = r.chance(5, 6) && alias_of_member(r, set, r.chance(5, 6), kl);
                    if (!alias_r) kl = non[r.below(non.size())];
                    S mid_alpha = set;
                    for (int k = 0; k < 4; ++k) mid_alpha += non[r.below(non.size())];
                    s = fill_random(r, lead, set);
                    s += kf;
                    s += fill_background(r, len - lead - trail - 2, mid_alpha);
                    s += kl;
                    s += fill_random(r, trail, set);
                }
                S got;
                trim_check(s, cs, &got);
                vrt::count("scale.trim.cases");
                if (alias_l) vrt::count("scale.trim.first_kept_byte_aliases_member");
                if (alias_r) vrt::count("scale.trim.last_kept_byte_aliases_member");
                if (set.size() >= 32) vrt::count("scale.trim.long_charset");
                if (run_on_grid) vrt::count("scale.trim.run_on_grid");
                for (unsigned char ch : set) if (ch >= 0x80) { vrt::count("scale.trim.charset_with_high_bytes"); break; }
                subject_len = s.size();
                if (vrt::want_sample("scale.trim") && alias_l && alias_r)
                    vrt::sample("scale.trim", sfmt("subject %s charset=%s%s block=%zu x %zu: %zu members, then %02x ... %02x, then %zu members -> %s", scale::brief(s).c_str(),
                                                   show(set).c_str(), cs ? "" : "(default)", B, q, lead, static_cast<unsigned char>(s[lead]),
                                                   static_cast<unsigned char>(s[s.size() - trail - 1]), trail, scale::brief(got).c_str()));
            } else {
                const bool from_end = kind == SEP_END || kind == SEP_END_BIG, big = kind == SEP_BEGIN_BIG || kind == SEP_END_BIG;
                static const char *const nalpha[] = {"ab", "aAbB", "iI", "ab\x80", "Kk\xcb\xeb", "Ii\xc9", "a`{", ":", "zZ9"};
                static const char *const bgs[] = {"x", "xy", "xyz.", "x\xc3\xa9", "\xff", "\xe9\xeb", "@[", "X", "\xe9"};
                S al = nalpha[r.below(sizeof(nalpha) / sizeof(nalpha[0]))], bg;
                for (;;) {          // a background that cannot match (modulo ASCII case)
                    bg = bgs[r.below(sizeof(bgs) / sizeof(bgs[0]))];
                    bool clash = false;
                    for (unsigned char x : bg) for (unsigned char y : al) if (ref::fold(x) == ref::fold(y)) clash = true;
                    if (!clash) break;
                }
                if (r.chance(1, 4)) al.push_back('\0');
                const size_t nlen = r.chance(1, 8) ? 1 : r.chance(1, 4) ? 9 + r.below(300) : 2 + r.below(7);
                const S n = gen::bytes_over(r, nlen, al);
                const size_t margin = big ? 131072 + r.below(70000) : r.chance(1, 2) ? r.below(40) : 1000 + r.below(70000);
                const size_t len = dist + nlen + margin;
                S h = fill_background(r, len, bg);
                const size_t point = from_end ? len - dist : dist;
                const size_t back = (nlen >= 2 && r.chance(3, 4)) ? 1 + r.below(nlen - 1) : r.chance(1, 2) ? 0 : nlen;
                size_t at = point + static_cast<size_t>(r.chance(1, 5) ? scale::nudge(r) + 9 : 9) - 9;
                at = at >= back ? at - back : 0;
                S occ = n;
                if (r.chance(1, 2)) occ = r.chance(1, 2) ? ref::uppered(n) : ref::folded(n);
                at = scale::plant(h, at, occ);
                // further occurrences only where they cannot mask the primary one: behind it when it has to be the first, in front when the last
                const unsigned extra = static_cast<unsigned>(r.below(3));
                for (unsigned k = 0; k < extra; ++k) {
                    size_t lo, hi;
                    if (!from_end) { lo = at + nlen; hi = len; } else { lo = 0; hi = at; }
                    if (hi < lo + nlen) continue;
                    const size_t where = r.chance(1, 2) ? lo + r.below(hi - lo - nlen + 1) : std::min(hi - nlen, std::max(lo, scale::offset_any(r, len)));
                    scale::plant(h, where, r.chance(1, 2) ? ref::uppered(n) : n);
                }
                vrt::cur_printf("scale: subject %s sep=%s planted at %zu\n", scale::brief(h, at).c_str(), show(n).c_str(), at);
                vrt::cur_mark_here();
                sep_case(h, n, false);
                sep_case(h, n, true);
                vrt::count("scale.sep.cases");
                vrt::count(from_end ? "scale.sep.measured_from.end" : "scale.sep.measured_from.beginning");
                if (back > 0 && back < nlen) vrt::count("scale.sep.occurrence_straddles_block_boundary");
                if ((from_end ? len - at - nlen : at) >= 65536) vrt::count("scale.sep.match_free_stretch>=64KiB");
                if (nlen >= 9) vrt::count("scale.sep.long_separator");
                subject_len = len;
                if (vrt::want_sample("scale"))
                    vrt::sample("scale", sfmt("subject %s sep=%s block=%zu x %zu measured from the %s, occurrence at %zu (%zu of its bytes before the multiple), %u more occurrence(s) %s it",
                                              scale::brief(h, at).c_str(), show(n).c_str(), B, q, from_end ? "end" : "beginning", at, back, extra, from_end ? "in front of" : "behind"));
            }
            vrt::count("scale.cases");
            if (subject_len >= 65536) vrt::count("scale.subject>=64KiB");
            if (subject_len > 131072) vrt::count("scale.subject>128KiB");
            if (subject_len >= 1u << 20) vrt::count("scale.subject>=1MiB");
        });
    }
    // slices of 256 MiB and more out of a string longer than that (such strings come from the library's own non-validating
    // producers): about 3 s and 0.8 GB, one case
    if (vrt::opt().scale >= 1.0) {
        vrt::require("huge.slices", 6);
        vrt::phase("huge_slices", 1, [&](uint64_t, Rng &) {
            vrt::case_cpu_budget() = 900;
            const size_t half = (size_t(1) << 27) + 24, total = 2 * half + 2;
            vrt::cur_printf("slices of a %zu-byte string\n", total);
            ST::char_buffer b;
            b.allocate(total, 'x');
            b[0] = ' '; b[total - 1] = ' '; b[half] = ';';
            const ST::string L = ST::string::from_validated(std::move(b));
            auto chk = [&](const char *op, const ST::string &r, size_t from, size_t n) {
                vrt::evals();
                vrt::count("huge.slices");
                if (r.size() != n || memcmp(r.c_str(), L.c_str() + from, n) != 0 || r.c_str()[n] != 0)
                    vrt::violation(sfmt("C08:%s:wrong-result", op), sfmt("huge subject (%zu bytes): result of %zu bytes, expected %zu bytes from offset %zu", total, r.size(), n, from));
            };
            try {
                chk("substr", L.substr(1, total - 2), 1, total - 2);
                chk("substr", L.substr(-static_cast<ST_ssize_t>(total - 3)), 3, total - 3);
                chk("left", L.left(total - 1), 0, total - 1);
                chk("right", L.right(total - 5), 5, total - 5);
                chk("trim", L.trim(), 1, total - 2);
                chk("after_first", L.after_first(' '), 1, total - 1);
                chk("before_last", L.before_last(" "), 0, total - 1);
                chk("after_first", L.after_first(';'), half + 1, total - half - 1);
            } catch (const std::exception &e) {
                vrt::violation(sfmt("C08:huge-slice:%s", vrt::demangle(typeid(e).name()).c_str()), e.what());
            }
            vrt::case_cpu_budget() = 30;
        });
    }
    vrt::alloc::check_pairing("slice");
}

VRT_MAIN(body)
