// C08 - substr / left / right / trim / before_* / after_* against the clamped
// byte-range reference, under ASan+UBSan, with the allocation registry
// watching the size of every allocation the call attempts.
#include "vrt.h"
#include "vrt_alloc.h"
#include "vrt_st.h"
#include "ref_text.h"
#include "gen_text.h"
#include "gen_scale.h"
#include "ambient.h"
#include <climits>
#include <cstdlib>
#include <optional>

using vrt::Rng;
using vrt::sfmt;
typedef std::string S;

static const size_t SMAX = static_cast<size_t>(-1);
static const long LMAX = LONG_MAX, LMIN = LONG_MIN;

static std::string show(const S &s) { return vrt::hex(s.data(), s.size()); }

// Runs one library call that returns an ST::string; applies the call-level
// monitors (no allocation failure escapes, no oversized request, terminator).
template <typename F>
static bool call(const char *op, const S &subject, const std::string &args, F &&f, S &out)
{
    vrt::cur_rewind();
    vrt::cur_printf("op=%s subject=%s %s\n", op, show(subject).c_str(), args.c_str());
    vrt::evals();
    try {
        size_t maxreq;
        {
            vrt::alloc::LibScope ls;
            ST::string r = f();
            maxreq = vrt::alloc::reg().max_request;
            {
                vrt::alloc::HarnessScope hs;
                out.assign(r.c_str(), r.size());
                if (r.c_str()[r.size()] != 0)
                    vrt::violation(sfmt("C08:%s:no-terminator", op), sfmt("subject=%s %s", show(subject).c_str(), args.c_str()));
            }
        }
        if (maxreq > subject.size() + 1) {
            vrt::violation(sfmt("C08:%s:oversized-allocation", op),
                           sfmt("requested %zu bytes for a subject of %zu; subject=%s %s", maxreq, subject.size(),
                                show(subject).c_str(), args.c_str()));
        }
        return true;
    } catch (const std::bad_alloc &e) {
        vrt::violation(sfmt("C08:%s:bad_alloc-escaped", op),
                       sfmt("%s (max request %zu) subject=%s %s", e.what(), vrt::alloc::reg().max_request,
                            show(subject).c_str(), args.c_str()));
    } catch (const ST::unicode_error &) {
        // only reachable through a validating overload on non-UTF-8 subjects; none is used here
        vrt::violation(sfmt("C08:%s:unicode_error", op), sfmt("subject=%s %s", show(subject).c_str(), args.c_str()));
    }
    return false;
}

static void expect(const char *op, const S &subject, const std::string &args, const S &got, const S &want)
{
    if (got == want) return;
    if (subject.size() <= 96) {
        vrt::violation(sfmt("C08:%s:wrong-result", op),
                       sfmt("subject=%s %s got=%s want=%s", show(subject).c_str(), args.c_str(), show(got).c_str(), show(want).c_str()));
    } else {
        // big values: lengths, hashes and the bytes around the first difference instead of megabytes of hex
        const size_t fd = scale::first_diff(got, want);
        vrt::violation(sfmt("C08:%s:wrong-result", op),
                       sfmt("subject: %s; %s; got: %s; want: %s; first difference at result offset %zu", scale::brief(subject).c_str(), args.c_str(),
                            scale::brief(got, fd).c_str(), scale::brief(want, fd).c_str(), fd));
    }
}

// ---- per-input monitors shared by the directed, random and scale phases ------------------------------------------
static void substr_check(const vrt::Box<ST::string> &st, const S &s, long start, size_t count)
{
    S got, args = sfmt("start=%ld count=%zu", start, count);
    if (call("substr", s, args, [&] { return st->substr(start, count); }, got))
        expect("substr", s, args, got, ref::substr(s, start, count));
    vrt::count("substr.calls");
}
static void substr_check_default_count(const vrt::Box<ST::string> &st, const S &s, long start)
{
    S got, args = sfmt("start=%ld count=default", start);
    if (call("substr", s, args, [&] { return st->substr(start); }, got))
        expect("substr", s, args, got, ref::substr(s, start, SMAX));
    vrt::count("substr.calls");
}
static void left_right_check(const vrt::Box<ST::string> &st, const S &s, size_t k)
{
    S got, args = sfmt("n=%zu", k);
    if (call("left", s, args, [&] { return st->left(k); }, got)) expect("left", s, args, got, ref::left(s, k));
    if (call("right", s, args, [&] { return st->right(k); }, got)) expect("right", s, args, got, ref::right(s, k));
    vrt::count("left_right.calls", 2);
    if (k > s.size() && k < 2 * s.size()) vrt::count("right.n_between_size_and_2size");
}
// trim_left / trim_right / trim of the object st (which holds s) with the character set cs (nullptr: the default argument, i.e. white
// space).  `held`: the character set as the caller holds it (NUL-terminated, same bytes as cs) when the caller manages that storage
// itself, otherwise an exact-size copy is made here.  `order` (0..5) permutes the three calls; 0 is left, right, both.
static void trim_ops(const vrt::Box<ST::string> &st, const S &s, const char *cs, const char *held = nullptr, unsigned order = 0, S *trimmed = nullptr)
{
    const S set = cs ? S(cs) : S(" \t\r\n");
    std::optional<vrt::Exact<char>> cset;
    if (!held) { cset.emplace(set.data(), set.size(), true); held = cset->data(); }
    S got, got_trim, args = sfmt("charset=%s%s", show(set).c_str(), cs ? "" : "(default)");
    static const unsigned char perms[6][3] = {{0, 1, 2}, {2, 1, 0}, {1, 2, 0}, {2, 0, 1}, {1, 0, 2}, {0, 2, 1}};
    for (unsigned char op : perms[order % 6]) {
        if (op == 0) {
            if (call("trim_left", s, args, [&] { return cs ? st->trim_left(held) : st->trim_left(); }, got))
                expect("trim_left", s, args, got, ref::trim_left(s, set));
        } else if (op == 1) {
            if (call("trim_right", s, args, [&] { return cs ? st->trim_right(held) : st->trim_right(); }, got))
                expect("trim_right", s, args, got, ref::trim_right(s, set));
        } else if (call("trim", s, args, [&] { return cs ? st->trim(held) : st->trim(); }, got)) {
            expect("trim", s, args, got, ref::trim(s, set));
            if (got.size() == s.size()) vrt::count("trim.nothing_to_trim");
            if (got.empty() && !s.empty()) vrt::count("trim.everything_trimmed");
            got_trim = got;
        }
    }
    if (vrt::str_of(*st) != s) vrt::violation("C08:trim:subject-changed", s.size() <= 96 ? show(s) : scale::brief(s));
    vrt::count("trim.calls", 3);
    vrt::distinct(vrt::fnv1a(set.data(), set.size(), vrt::fnv1a(s.data(), s.size(), 13)));
    if (trimmed) *trimmed = got_trim;
}
static void trim_check(const S &s, const char *cs, S *trimmed = nullptr)
{
    vrt::Box<ST::string> st(vrt::mk(s));
    trim_ops(st, s, cs, nullptr, 0, trimmed);
}

// ---- before_first / after_first / before_last / after_last -------------------------------------------------------
enum { F_STR, F_CSTR, F_CHAR8, F_CHAR, N_FORMS };
static const char *const FORM_NAMES[N_FORMS] = {"ST::string", "const char*", "const char8_t*", "char"};
struct SepOp {
    const char *name;
    S (*reff)(const S &, const S &, bool);
};
static const SepOp SEP_OPS[4] = {{"before_first", ref::before_first}, {"after_first", ref::after_first},
                                 {"before_last", ref::before_last}, {"after_last", ref::after_last}};

// one call: operation `which` of the object st (holding s) with the separator sep given in the form `form` (ssep: as an ST::string,
// held: the same bytes NUL-terminated as the caller holds them), compared with `want`
static bool sep_one(const vrt::Box<ST::string> &st, const S &s, const S &sep, const ST::string &ssep, const char *held, bool ci, int which, int form,
                    const S &want, S &got)
{
    const ST::case_sensitivity_t cs = ci ? ST::case_insensitive : ST::case_sensitive;
    const char *name = SEP_OPS[which].name;
    const S args = sfmt("sep=%s ci=%d form=%s", show(sep).c_str(), ci, FORM_NAMES[form]);
    const char8_t *c8 = reinterpret_cast<const char8_t *>(held);
    const char ch = sep.empty() ? '\0' : sep[0];
    const bool ok = call(name, s, args, [&]() -> ST::string {
        switch (form) {
        case F_STR:
            switch (which) {
            case 0: return st->before_first(ssep, cs);
            case 1: return st->after_first(ssep, cs);
            case 2: return st->before_last(ssep, cs);
            default: return st->after_last(ssep, cs);
            }
        case F_CSTR:
            switch (which) {
            case 0: return st->before_first(held, cs);
            case 1: return st->after_first(held, cs);
            case 2: return st->before_last(held, cs);
            default: return st->after_last(held, cs);
            }
        case F_CHAR8:
            switch (which) {
            case 0: return st->before_first(c8, cs);
            case 1: return st->after_first(c8, cs);
            case 2: return st->before_last(c8, cs);
            default: return st->after_last(c8, cs);
            }
        default:
            switch (which) {
            case 0: return st->before_first(ch, cs);
            case 1: return st->after_first(ch, cs);
            case 2: return st->before_last(ch, cs);
            default: return st->after_last(ch, cs);
            }
        }
    }, got);
    if (ok) expect(name, s, args, got, want);
    vrt::count("sep.calls");
    if (form == F_CSTR) vrt::count("sep.form.cstr");
    if (form == F_CHAR) vrt::count("sep.form.char");
    return ok;
}

// the order in which sep_ops makes its calls: the historic one (operation by operation, each through every form), or shuffled, with
// one (operation, form) pair forced to the front / to the back
struct SepOrder {
    uint64_t shuffle = 0;
    int first_op = -1, first_form = -1, last_op = -1, last_form = -1;
};
// every operation x every form that can carry the separator, on the object st (holding s); `held`: the separator as the caller holds
// it (same bytes as sep, NUL-terminated) when the caller manages that storage itself
static void sep_ops(const vrt::Box<ST::string> &st, const S &s, const S &sep, bool ci, const char *held = nullptr, const SepOrder *ord = nullptr)
{
    vrt::Box<ST::string> ssep(vrt::mk(sep));
    const bool cstr_ok = sep.find('\0') == S::npos;
    const bool char_ok = sep.size() == 1;
    std::optional<vrt::Exact<char>> csep;
    if (!held) { csep.emplace(sep.data(), sep.size(), true); held = csep->data(); }
    std::vector<std::pair<int, int>> plan;
    for (int which = 0; which < 4; ++which) {
        plan.emplace_back(which, F_STR);
        if (cstr_ok) { plan.emplace_back(which, F_CSTR); plan.emplace_back(which, F_CHAR8); }
        if (char_ok) plan.emplace_back(which, F_CHAR);
    }
    if (ord) {
        Rng sr(ord->shuffle);
        for (size_t k = plan.size(); k > 1; --k) std::swap(plan[k - 1], plan[sr.below(k)]);
        for (size_t k = 0; k < plan.size(); ++k)
            if (plan[k].first == ord->first_op && plan[k].second == ord->first_form) { std::rotate(plan.begin(), plan.begin() + k, plan.begin() + k + 1); break; }
        for (size_t k = 0; k < plan.size(); ++k)
            if (plan[k].first == ord->last_op && plan[k].second == ord->last_form) { std::rotate(plan.begin() + k, plan.begin() + k + 1, plan.end()); break; }
    }
    S want[4], res[4], got;
    for (int which = 0; which < 4; ++which) want[which] = SEP_OPS[which].reff(s, sep, ci);
    for (const auto &pf : plan) {
        sep_one(st, s, sep, *ssep, held, ci, pf.first, pf.second, want[pf.first], got);
        if (pf.second == F_STR) res[pf.first] = got;
    }
    long f = ref::find(s, sep, 0, ci);
    if (f >= 0) {
        vrt::count("sep.found");
        // before + matched text + after reassembles the original
        S matched_first = s.substr(res[0].size(), sep.size());
        if (res[0] + matched_first + res[1] != s || !ref::eq_at(s, res[0].size(), sep, ci))
            vrt::violation("C08:before_after_first:reassembly", s.size() <= 96
                ? sfmt("subject=%s sep=%s ci=%d before=%s after=%s", show(s).c_str(), show(sep).c_str(), ci, show(res[0]).c_str(), show(res[1]).c_str())
                : sfmt("subject: %s sep=%s ci=%d before: %s after: %s", scale::brief(s).c_str(), show(sep).c_str(), ci, scale::brief(res[0]).c_str(), scale::brief(res[1]).c_str()));
        S matched_last = s.substr(std::min(res[2].size(), s.size()), sep.size());
        if (res[2] + matched_last + res[3] != s || !ref::eq_at(s, res[2].size(), sep, ci))
            vrt::violation("C08:before_after_last:reassembly", s.size() <= 96
                ? sfmt("subject=%s sep=%s ci=%d before=%s after=%s", show(s).c_str(), show(sep).c_str(), ci, show(res[2]).c_str(), show(res[3]).c_str())
                : sfmt("subject: %s sep=%s ci=%d before: %s after: %s", scale::brief(s).c_str(), show(sep).c_str(), ci, scale::brief(res[2]).c_str(), scale::brief(res[3]).c_str()));
        vrt::count("reassembly.checked");
    } else {
        vrt::count("sep.absent");
    }
    if (sep.size() >= 2) vrt::count("sep.len2plus");
    if (sep.empty()) vrt::count("sep.empty");
    vrt::distinct(vrt::fnv_u64(ci, vrt::fnv1a(sep.data(), sep.size(), vrt::fnv1a(s.data(), s.size(), 14))));
    if (vrt::want_sample("before_after") && f > 0 && sep.size() >= 2)
        vrt::sample("before_after", sfmt("subject=%s sep=%s ci=%d -> before_first=%s after_first=%s before_last=%s after_last=%s",
                                         show(s).c_str(), show(sep).c_str(), ci, show(res[0]).c_str(), show(res[1]).c_str(), show(res[2]).c_str(), show(res[3]).c_str()));
}

static std::vector<S> subjects()
{
    std::vector<S> v;
    static const size_t lens[] = {0, 1, 2, 5, 14, 15, 16, 17, 18, 31, 32, 33, 40, 300};
    Rng r(12345);
    for (size_t n : lens) {
        S a(n, 'x');
        for (size_t i = 0; i < n; ++i) a[i] = static_cast<char>('a' + i % 26);
        v.push_back(a);
        if (n) {
            v.push_back(gen::any_bytes(r, n));                       // arbitrary bytes incl. NUL and >= 0x80
            S z(a); z[n / 2] = '\0'; z[n - 1] = '\xe9'; v.push_back(z);
        }
    }
    return v;
}

static std::vector<long> starts_for(size_t n)
{
    long sn = static_cast<long>(n);
    std::vector<long> v = {0, 1, -1, 2, -2, sn - 1, -(sn - 1), sn, -sn, sn + 1, -(sn + 1), sn + 2, -(sn + 2),
                           sn / 2, -(sn / 2), LMIN, LMIN + 1, LMAX, LMAX - 1, LMAX - sn, LMIN + sn, 1000, -1000};
    return v;
}
static std::vector<size_t> counts_for(size_t n, long start)
{
    size_t us = static_cast<size_t>(start);
    std::vector<size_t> v = {0, 1, 2, n / 2, n - 1, n, n + 1, n + 2, 2 * n, SMAX, SMAX - 1, SMAX - 2,
                             SMAX - us, SMAX - us + 1, SMAX - us - 1, SMAX - n, SMAX / 2, SMAX / 2 + 1,
                             static_cast<size_t>(LMAX), static_cast<size_t>(LMAX) + 1};
    if (start >= 0 && us <= n) {
        v.push_back(n - us);
        v.push_back(n - us + 1);
        if (n - us) v.push_back(n - us - 1);
    }
    return v;
}


// ---------------------------------------------------------------- generators of the scale phase
// len bytes drawn from `alphabet` (empty: all 256 byte values)
static S fill_random(Rng &r, size_t len, const S &alphabet)
{
    S s(len, '\0');
    for (size_t i = 0; i < len;) {
        uint64_t v = r.next();
        for (int k = 0; k < 8 && i < len; ++k, v >>= 8)
            s[i++] = alphabet.empty() ? static_cast<char>(v & 0xFF) : alphabet[(v & 0xFF) % alphabet.size()];
    }
    return s;
}
static S fill_background(Rng &r, size_t len, const S &alphabet)
{
    if (r.chance(1, 3)) return S(len, alphabet[r.below(alphabet.size())]);
    return fill_random(r, len, alphabet);
}
// character sets for trim at scale: the default, short ASCII ones, ones with bytes >= 0x80, long ones (tens to hundreds of members)
static const std::vector<S> &scale_charsets()
{
    static const std::vector<S> v = [] {
        std::vector<S> o = {" \t", "x", "\"'", "_-.,;:", " \t\r\n\v\f", "\xe9\x80", " \xa0", "\xc2\xa0 \t", "\xff", "\x7f\x01"};
        S a, b, c, d;
        for (int ch = 1; ch < 0x80; ++ch) if (ch != 'Q' && ch != 'q' && ch != '.') a += static_cast<char>(ch);     // 124 ASCII bytes
        for (int ch = 0x20; ch < 0x40; ++ch) b += static_cast<char>(ch);                                          // 32: space, punctuation, digits
        for (int ch = 0x20; ch < 0x30; ++ch) c += static_cast<char>(ch);
        for (int ch = 0xA0; ch < 0xE0; ++ch) c += static_cast<char>(ch);                                          // 80 bytes, most of them >= 0x80
        for (int ch = 1; ch < 256; ++ch) if (ch != 'Q' && ch != 'q' && ch != 0xD1 && ch != 0x91) d += static_cast<char>(ch);   // nearly every byte value
        o.push_back(a); o.push_back(b); o.push_back(c); o.push_back(d);
        return o;
    }();
    return v;
}
// a byte that is NOT in `set` but looks like the member m to code that drops or ignores high bits (m modulo 128, modulo 64), or that
// sits right next to it; returns false when every candidate is a member itself
static bool alias_of_member(Rng &r, const S &set, bool high_only, char &out)
{
    if (set.empty()) return false;
    for (int tries = 0; tries < 16; ++tries) {
        const unsigned m = static_cast<unsigned char>(set[r.below(set.size())]);
        unsigned cand[8] = {m ^ 0x80u, (m & 0x3Fu) | 0x80u, (m & 0x3Fu) | 0xC0u, (m & 0x7Fu) | 0x80u, m ^ 0x40u, m ^ 0x20u, (m + 1) & 0xFFu, (m - 1) & 0xFFu};
        const unsigned c = cand[r.below(high_only ? 4 : 8)];
        if (high_only && c < 0x80) continue;
        if (!ref::in_set(set, static_cast<char>(c))) { out = static_cast<char>(c); return true; }
    }
    return false;
}

// ---------------------------------------------------------------- helpers of the same_storage / soak / alignment phases
// Caller-side storage: n bytes and a NUL in a heap block that ends right behind the NUL and whose data starts at an address congruent
// to `align` modulo 16 (the bytes in front of it, if any, belong to the block and repeat the data, so an under-read changes a
// result).  The content is rewritten in place: same address, same length, other bytes.
struct Placed {
    char *base, *p;
    size_t n, lead;
    Placed(size_t len, unsigned align) : n(len), lead(align % 16)
    {
        void *m = nullptr;
        if (posix_memalign(&m, 16, lead + len + 1) != 0 || !m) { fprintf(stderr, "vrt: out of memory\n"); _exit(98); }
        base = static_cast<char *>(m);
        p = base + lead;
        memset(base, 0x80, lead);
        p[len] = '\0';
    }
    Placed(const Placed &) = delete;
    Placed &operator=(const Placed &) = delete;
    ~Placed() { free(base); }
    const char *write(const S &s)
    {
        memcpy(p, s.data(), n);
        for (size_t i = 0; i < lead && n; ++i) base[lead - 1 - i] = s[n - 1 - i % n];
        return p;
    }
};
static bool is_letter(char c) { return (c >= 'a' && c <= 'z') || (c >= 'A' && c <= 'Z'); }
static char other_case(char c) { return is_letter(c) ? static_cast<char>(c ^ 0x20) : c; }
// a byte of the same kind (letter / other) as c that differs from it by more than letter case
static char different_byte(Rng &r, char c)
{
    if (is_letter(c)) return static_cast<char>(((c & 0x20) ? 'a' : 'A') + (ref::fold(static_cast<unsigned char>(c)) - 'a' + 1 + r.below(25)) % 26);
    static const char other[] = "-_#+";
    for (;;) { const char d = other[r.below(4)]; if (d != c) return d; }
}
enum { NM_HARD, NM_CASE, NM_CASE_THEN_HARD, NM_KINDS };
// a copy of sep that differs from it at index j: by more than letter case (NM_HARD), by letter case only (NM_CASE), or by letter case at
// j and by more than case at a later index (NM_CASE_THEN_HARD); `mixed`: other letters change case as well.  false: not possible at j.
static bool near_miss(Rng &r, const S &sep, size_t j, unsigned kind, bool mixed, S &out)
{
    out = sep;
    size_t j2 = sep.size();
    if (kind == NM_HARD) out[j] = different_byte(r, sep[j]);
    else {
        if (!is_letter(sep[j])) return false;
        out[j] = other_case(sep[j]);
        if (kind == NM_CASE_THEN_HARD) {
            if (j + 1 >= sep.size()) return false;
            j2 = r.chance(1, 3) ? sep.size() - 1 : j + 1 + r.below(sep.size() - j - 1);
            out[j2] = different_byte(r, sep[j2]);
        }
    }
    if (mixed)
        for (size_t k = 0; k < sep.size(); ++k)
            if (k != j && k != j2 && r.chance(1, 4)) out[k] = other_case(out[k]);
    return true;
}
// the letters of n in random case
static S random_case(Rng &r, const S &n)
{
    S o(n);
    for (auto &c : o) if (r.chance(1, 2)) c = other_case(c);
    return o;
}

static void body()
{
    ambient::enable(3);
    vrt::require("substr.calls", 1000);
    vrt::require("left_right.calls", 500);
    vrt::require("trim.calls", 500);
    vrt::require("sep.calls", 1000);
    vrt::require("sep.found", 100);
    vrt::require("sep.absent", 100);
    vrt::require("reassembly.checked", 100);
    vrt::require("substr.count_near_SIZE_MAX", 100);
    vrt::require("right.n_between_size_and_2size", 20);

    const std::vector<S> subj = subjects();

    // ---- 1. substr: directed grid over every size class
    vrt::phase("substr_grid", subj.size(), [&](uint64_t i, Rng &) {
        const S &s = subj[i];
        vrt::Box<ST::string> st(vrt::mk(s));
        for (long start : starts_for(s.size())) {
            for (size_t count : counts_for(s.size(), start)) {
                S got, args = sfmt("start=%ld count=%zu", start, count);
                if (call("substr", s, args, [&] { return st->substr(start, count); }, got)) {
                    expect("substr", s, args, got, ref::substr(s, start, count));
                    vrt::count("substr.calls");
                    if (count >= SMAX - 1000 - static_cast<size_t>(start > 0 ? start : 0)) vrt::count("substr.count_near_SIZE_MAX");
                    if (start < 0) vrt::count("substr.negative_start");
                    if (start > static_cast<long>(s.size())) vrt::count("substr.start_beyond_end");
                    vrt::distinct(vrt::fnv_u64(count, vrt::fnv_u64(static_cast<uint64_t>(start), vrt::fnv1a(s.data(), s.size(), 11))));
                    if (vrt::want_sample("substr")) vrt::sample("substr", sfmt("substr subject=%s %s -> %s", show(s).c_str(), args.c_str(), show(got).c_str()));
                }
            }
            // default count
            S got, args = sfmt("start=%ld count=default", start);
            if (call("substr", s, args, [&] { return st->substr(start); }, got)) {
                expect("substr", s, args, got, ref::substr(s, start, SMAX));
                vrt::count("substr.calls");
            }
        }
        if (vrt::str_of(*st) != s)
            vrt::violation("C08:substr:subject-changed", sfmt("subject=%s", show(s).c_str()));
    });

    // ---- 2. left / right for every n
    vrt::phase("left_right", subj.size(), [&](uint64_t i, Rng &) {
        const S &s = subj[i];
        vrt::Box<ST::string> st(vrt::mk(s));
        std::vector<size_t> ns;
        for (size_t n = 0; n <= 2 * s.size() + 2 && n < 700; ++n) ns.push_back(n);
        for (size_t n : {SMAX, SMAX - 1, SMAX - s.size(), SMAX - s.size() + 1, SMAX / 2, static_cast<size_t>(LMAX), static_cast<size_t>(LMAX) + 1, static_cast<size_t>(LMAX) + s.size()})
            ns.push_back(n);
        for (size_t n : ns) {
            S got, args = sfmt("n=%zu", n);
            if (call("left", s, args, [&] { return st->left(n); }, got))
                expect("left", s, args, got, ref::left(s, n));
            if (call("right", s, args, [&] { return st->right(n); }, got))
                expect("right", s, args, got, ref::right(s, n));
            vrt::count("left_right.calls", 2);
            if (n > s.size() && n < 2 * s.size()) vrt::count("right.n_between_size_and_2size");
            vrt::distinct(vrt::fnv_u64(n, vrt::fnv1a(s.data(), s.size(), 12)));
        }
        if (vrt::want_sample("left_right") && s.size() > 2)
            vrt::sample("left_right", sfmt("left/right subject=%s for n in 0..%zu and near SIZE_MAX", show(s).c_str(), 2 * s.size() + 2));
    });

    // ---- 3. trim family
    static const char *const charsets[] = {nullptr /* default */, "", "x", "ab", " \t", "\xe9\x80", "xyz\x01"};
    vrt::phase("trim", vrt::tier_count(60000, 600000), [&](uint64_t, Rng &r) {
        const char *cs = r.pick(charsets);
        S set = cs ? S(cs) : S(" \t\r\n");
        S other = "Qq.\xc3\xa9";
        other.push_back('\0');
        size_t lead = r.chance(1, 3) ? 0 : r.below(20), trail = r.chance(1, 3) ? 0 : r.below(20);
        size_t mid = r.chance(1, 5) ? 0 : gen::pick_len(r) % 40;
        S s;
        if (!set.empty()) s += gen::bytes_over(r, lead, set);
        S core = gen::bytes_over(r, mid, other + set);
        s += core;
        if (!set.empty()) s += gen::bytes_over(r, trail, set);
        S got;
        trim_check(s, cs, &got);
        if (vrt::want_sample("trim") && lead && trail) vrt::sample("trim", sfmt("trim subject=%s charset=%s%s -> %s", show(s).c_str(), show(set).c_str(), cs ? "" : "(default)", show(got).c_str()));
    });

    // ---- 4. before/after first/last: exhaustive small sweep + random
    auto sep_case = [&](const S &s, const S &sep, bool ci) {
        vrt::Box<ST::string> st(vrt::mk(s));
        sep_ops(st, s, sep, ci);
    };

    {
        S alpha = "abA";
        alpha.push_back('\0');
        alpha.push_back('\x80');
        const size_t hmax = vrt::thorough() ? 6 : 4, nmax = 3;
        uint64_t nh = gen::count_strings(alpha.size(), hmax), nn = gen::count_strings(alpha.size(), nmax);
        vrt::note(sfmt("before/after exhaustive sweep: all subjects of length <= %zu x separators of length <= %zu over {a,b,A,NUL,0x80} x both case modes", hmax, nmax));
        vrt::phase("sep_exhaustive", nh, [&](uint64_t i, Rng &) {
            S s, sep;
            gen::nth_string(i, alpha, hmax, s);
            for (uint64_t j = 0; j < nn; ++j) {
                gen::nth_string(j, alpha, nmax, sep);
                sep_case(s, sep, false);
                sep_case(s, sep, true);
            }
        });
    }
    vrt::phase("sep_random", vrt::tier_count(80000, 800000), [&](uint64_t, Rng &r) {
        S alpha = r.chance(1, 3) ? S("ab:") : r.chance(1, 2) ? S("aAbB:.\xc3\xa9") : S("@`[{^~_\x7f,\x0c; \t)kK");   // last: non-letters next to their bit-5 twins
        if (r.chance(1, 5)) alpha = r.chance(1, 2) ? S("iI:") : S("iI\xc9\xe9:");     // letters / bytes that locale-dependent case mapping treats differently
        if (r.chance(1, 4)) alpha.push_back('\0');
        S s = gen::bytes_over(r, gen::pick_len(r) % 60, alpha);
        S sep;
        unsigned how = static_cast<unsigned>(r.below(10));
        if (how == 0) sep = "";
        else if (how < 4 && !s.empty()) {           // a slice of the subject: guaranteed to occur
            size_t b = r.below(s.size()), l = 1 + r.below(std::min<size_t>(4, s.size() - b));
            sep = s.substr(b, l);
            if (r.chance(1, 2)) for (auto &c : sep) c = (c >= 'a' && c <= 'z') ? c - 32 : c;
        } else sep = gen::bytes_over(r, 1 + r.below(3), alpha);
        if (r.chance(1, 12)) sep = s;              // separator equal to the whole subject
        if (r.chance(1, 12)) sep = s + "a";        // longer than the subject
        sep_case(s, sep, r.chance(1, 2));
    });

    // ---- 5. random substr/left/right
    vrt::phase("slice_random", vrt::tier_count(300000, 4000000), [&](uint64_t, Rng &r) {
        S s = gen::any_bytes(r, gen::pick_len(r));
        vrt::Box<ST::string> st(vrt::mk(s));
        long n = static_cast<long>(s.size());
        long start;
        switch (r.below(5)) {
        case 0: start = r.range(-n - 3, n + 3); break;
        case 1: start = r.range(0, n); break;
        case 2: start = static_cast<long>(r.next()); break;
        case 3: start = LMIN + static_cast<long>(r.below(40)); break;
        default: start = LMAX - static_cast<long>(r.below(40)); break;
        }
        size_t count;
        switch (r.below(5)) {
        case 0: count = r.below(s.size() + 4); break;
        case 1: count = SMAX - r.below(2 * s.size() + 40); break;
        case 2: count = r.next(); break;
        case 3: count = SMAX - static_cast<size_t>(start) + r.below(5) - 2; break;
        default: count = (start >= 0 && start <= n) ? static_cast<size_t>(n - start) + r.below(3) - 1 : 1; break;
        }
        substr_check(st, s, start, count);
        if (count > SMAX - 100000) vrt::count("substr.count_near_SIZE_MAX");
        size_t k = r.chance(1, 2) ? r.below(2 * s.size() + 3) : (r.chance(1, 2) ? SMAX - r.below(50) : r.next());
        left_right_check(st, s, k);
        vrt::distinct(vrt::fnv_u64(k, vrt::fnv_u64(count, vrt::fnv_u64(static_cast<uint64_t>(start), vrt::fnv1a(s.data(), s.size(), 15)))));
    });
    // ---- 6. scale: subjects of 4 KiB .. 1 MiB.  The case index walks a grid block size B x multiple q x operation family; what is put
    // on / next to the multiple q*B is, per family: the subject's length, the start / count / n of a slice (measured from the
    // beginning and from the end), the length of the subject or of the run to be trimmed, the place where a separator occurrence
    // straddles or touches the multiple (measured from the beginning: first occurrence; from the end: last occurrence).
    {
        vrt::require("scale.cases", 200);
        vrt::require("scale.slice.cases", 40);
        vrt::require("scale.trim.cases", 40);
        vrt::require("scale.trim.first_kept_byte_aliases_member", 40);
        vrt::require("scale.trim.long_charset", 5);
        vrt::require("scale.trim.run_on_grid", 10);
        vrt::require("scale.sep.cases", 100);
        vrt::require("scale.sep.occurrence_straddles_block_boundary", 50);
        vrt::require("scale.sep.measured_from.beginning", 40);
        vrt::require("scale.sep.measured_from.end", 40);
        vrt::require("scale.sep.match_free_stretch>=64KiB", 20);
        vrt::require("scale.subject>=64KiB", 40);
        vrt::require("scale.subject>128KiB", 40);
        const std::vector<size_t> &BL = scale::blocks();
        const uint64_t G = BL.size() * 8;
        enum { SLICE, TRIM, SEP_BEGIN, SEP_END, SEP_BEGIN_BIG, SEP_END_BIG, NKINDS };
        vrt::phase("scale", vrt::tier_count(2 * NKINDS * G, 40 * NKINDS * G), [&](uint64_t i, Rng &r) {
            size_t B = BL[i % BL.size()], q = 1 + (i / BL.size()) % 8;
            const unsigned kind = static_cast<unsigned>((i / G) % NKINDS);
            const size_t cap = kind == TRIM ? 300u << 10 : 1u << 20;
            while (B > cap) B /= 4;
            while (q > 1 && q * B > cap) q = (q + 1) / 2;
            const size_t dist = q * B;
            size_t subject_len = 0;
            if (kind == SLICE) {
                // (a) the subject's own length on / next to the multiple, offsets from other grid points; (b) a longer subject and
                // offsets at the multiple, counted from the beginning and from the end
                size_t len;
                if (dist >= 4096 && r.chance(1, 2)) len = static_cast<size_t>(static_cast<long>(dist) + scale::nudge(r));
                else len = std::min<size_t>(cap + 70000, dist + (r.chance(1, 2) ? 4096 + r.below(70000) : scale::length(r, cap, 4096)));
                const S s = fill_random(r, len, r.chance(1, 4) ? S("ab") : S());
                vrt::Box<ST::string> st(vrt::mk(s));
                std::vector<size_t> off = {std::min(dist, len), static_cast<size_t>(std::max<long>(0, static_cast<long>(dist) + scale::nudge(r))),
                                           len - std::min(dist, len), static_cast<size_t>(std::max<long>(0, static_cast<long>(len - std::min(dist, len)) + scale::nudge(r))),
                                           scale::offset_any(r, len), scale::offset_any(r, len)};
                for (size_t k = 0; k < off.size(); ++k) {
                    const size_t o = off[k], o2 = off[(k + 1 + r.below(off.size() - 1)) % off.size()];
                    const long pstart = static_cast<long>(o), nstart = -static_cast<long>(o);
                    const size_t avail = o <= len ? len - o : 0;
                    const size_t counts[] = {o2, avail, avail + 1, avail ? avail - 1 : 0, SMAX, SMAX - o, dist, dist + 1, dist - 1};
                    substr_check(st, s, pstart, counts[r.below(9)]);
                    substr_check(st, s, pstart, counts[r.below(9)]);
                    substr_check(st, s, nstart, counts[r.below(9)]);
                    if (k % 2) substr_check_default_count(st, s, r.chance(1, 2) ? pstart : nstart);
                    left_right_check(st, s, o);
                    if (k < 2) left_right_check(st, s, len + o);
                }
                left_right_check(st, s, static_cast<size_t>(static_cast<long>(len) + (r.chance(1, 2) ? 1 : -1)));
                if (vrt::str_of(*st) != s) vrt::violation("C08:substr:subject-changed", scale::brief(s));
                vrt::count("scale.slice.cases");
                subject_len = len;
                if (vrt::want_sample("scale.slice"))
                    vrt::sample("scale.slice", sfmt("subject %s block=%zu x %zu: substr / left / right at offsets %zu, %zu, %zu, %zu, %zu, %zu from the beginning and from the end",
                                                    scale::brief(s).c_str(), B, q, off[0], off[1], off[2], off[3], off[4], off[5]));
            } else if (kind == TRIM) {
                const std::vector<S> &sets = scale_charsets();
                const bool dflt = r.chance(1, 4);
                const S &chosen = sets[r.below(sets.size())];
                const S set = dflt ? S(" \t\r\n") : chosen;
                const char *cs = dflt ? nullptr : chosen.c_str();
                S non;                                       // bytes outside the set (NUL included: it is never a member)
                for (int ch = 0; ch < 256; ++ch) if (!ref::in_set(set, static_cast<char>(ch))) non += static_cast<char>(ch);
                // big multiples: the subject's length sits on the grid; small ones: the length of the run to be trimmed does
                size_t len, lead, trail;
                const bool run_on_grid = dist < 4096 || r.chance(1, 4);
                if (run_on_grid) {
                    len = scale::length(r, cap, 4096 + 2 * dist + 2);
                    const size_t run = static_cast<size_t>(std::max<long>(0, static_cast<long>(std::min(dist, (len - 2) / 2)) + scale::nudge(r)));
                    lead = r.chance(2, 3) ? run : r.below(20);
                    trail = (lead != run || r.chance(1, 2)) ? run : r.below(20);
                } else {
                    len = static_cast<size_t>(static_cast<long>(dist) + scale::nudge(r));
                    lead = r.chance(1, 3) ? 0 : r.below(20);
                    trail = r.chance(1, 3) ? 0 : r.below(20);
                }
                if (lead + trail + 2 > len) len = lead + trail + 2;
                S s;
                bool alias_l = false, alias_r = false;
                if (r.chance(1, 12)) {
                    s = fill_background(r, len, set);           // nothing but members: everything goes
                } else {
                    char kf, kl;
                    alias_l = r.chance(5, 6) && alias_of_member(r, set, r.chance(5, 6), kf);
                    if (!alias_l) kf = non[r.below(non.size())];
                    alias_r = r.chance(5, 6) && alias_of_member(r, set, r.chance(5, 6), kl);
                    if (!alias_r) kl = non[r.below(non.size())];
                    S mid_alpha = set;
                    for (int k = 0; k < 4; ++k) mid_alpha += non[r.below(non.size())];
                    s = fill_random(r, lead, set);
                    s += kf;
                    s += fill_background(r, len - lead - trail - 2, mid_alpha);
                    s += kl;
                    s += fill_random(r, trail, set);
                }
                S got;
                trim_check(s, cs, &got);
                vrt::count("scale.trim.cases");
                if (alias_l) vrt::count("scale.trim.first_kept_byte_aliases_member");
                if (alias_r) vrt::count("scale.trim.last_kept_byte_aliases_member");
                if (set.size() >= 32) vrt::count("scale.trim.long_charset");
                if (run_on_grid) vrt::count("scale.trim.run_on_grid");
                for (unsigned char ch : set) if (ch >= 0x80) { vrt::count("scale.trim.charset_with_high_bytes"); break; }
                subject_len = s.size();
                if (vrt::want_sample("scale.trim") && alias_l && alias_r)
                    vrt::sample("scale.trim", sfmt("subject %s charset=%s%s block=%zu x %zu: %zu members, then %02x ... %02x, then %zu members -> %s", scale::brief(s).c_str(),
                                                   show(set).c_str(), cs ? "" : "(default)", B, q, lead, static_cast<unsigned char>(s[lead]),
                                                   static_cast<unsigned char>(s[s.size() - trail - 1]), trail, scale::brief(got).c_str()));
            } else {
                const bool from_end = kind == SEP_END || kind == SEP_END_BIG, big = kind == SEP_BEGIN_BIG || kind == SEP_END_BIG;
                static const char *const nalpha[] = {"ab", "aAbB", "iI", "ab\x80", "Kk\xcb\xeb", "Ii\xc9", "a`{", ":", "zZ9"};
                static const char *const bgs[] = {"x", "xy", "xyz.", "x\xc3\xa9", "\xff", "\xe9\xeb", "@[", "X", "\xe9"};
                S al = nalpha[r.below(sizeof(nalpha) / sizeof(nalpha[0]))], bg;
                for (;;) {          // a background that cannot match (modulo ASCII case)
                    bg = bgs[r.below(sizeof(bgs) / sizeof(bgs[0]))];
                    bool clash = false;
                    for (unsigned char x : bg) for (unsigned char y : al) if (ref::fold(x) == ref::fold(y)) clash = true;
                    if (!clash) break;
                }
                if (r.chance(1, 4)) al.push_back('\0');
                const size_t nlen = r.chance(1, 8) ? 1 : r.chance(1, 4) ? 9 + r.below(300) : 2 + r.below(7);
                const S n = gen::bytes_over(r, nlen, al);
                const size_t margin = big ? 131072 + r.below(70000) : r.chance(1, 2) ? r.below(40) : 1000 + r.below(70000);
                const size_t len = dist + nlen + margin;
                S h = fill_background(r, len, bg);
                const size_t point = from_end ? len - dist : dist;
                const size_t back = (nlen >= 2 && r.chance(3, 4)) ? 1 + r.below(nlen - 1) : r.chance(1, 2) ? 0 : nlen;
                size_t at = point + static_cast<size_t>(r.chance(1, 5) ? scale::nudge(r) + 9 : 9) - 9;
                at = at >= back ? at - back : 0;
                S occ = n;
                if (r.chance(1, 2)) occ = r.chance(1, 2) ? ref::uppered(n) : ref::folded(n);
                at = scale::plant(h, at, occ);
                // further occurrences only where they cannot mask the primary one: behind it when it has to be the first, in front when the last
                const unsigned extra = static_cast<unsigned>(r.below(3));
                for (unsigned k = 0; k < extra; ++k) {
                    size_t lo, hi;
                    if (!from_end) { lo = at + nlen; hi = len; } else { lo = 0; hi = at; }
                    if (hi < lo + nlen) continue;
                    const size_t where = r.chance(1, 2) ? lo + r.below(hi - lo - nlen + 1) : std::min(hi - nlen, std::max(lo, scale::offset_any(r, len)));
                    scale::plant(h, where, r.chance(1, 2) ? ref::uppered(n) : n);
                }
                vrt::cur_printf("scale: subject %s sep=%s planted at %zu\n", scale::brief(h, at).c_str(), show(n).c_str(), at);
                vrt::cur_mark_here();
                sep_case(h, n, false);
                sep_case(h, n, true);
                vrt::count("scale.sep.cases");
                vrt::count(from_end ? "scale.sep.measured_from.end" : "scale.sep.measured_from.beginning");
                if (back > 0 && back < nlen) vrt::count("scale.sep.occurrence_straddles_block_boundary");
                if ((from_end ? len - at - nlen : at) >= 65536) vrt::count("scale.sep.match_free_stretch>=64KiB");
                if (nlen >= 9) vrt::count("scale.sep.long_separator");
                subject_len = len;
                if (vrt::want_sample("scale"))
                    vrt::sample("scale", sfmt("subject %s sep=%s block=%zu x %zu measured from the %s, occurrence at %zu (%zu of its bytes before the multiple), %u more occurrence(s) %s it",
                                              scale::brief(h, at).c_str(), show(n).c_str(), B, q, from_end ? "end" : "beginning", at, back, extra, from_end ? "in front of" : "behind"));
            }
            vrt::count("scale.cases");
            if (subject_len >= 65536) vrt::count("scale.subject>=64KiB");
            if (subject_len > 131072) vrt::count("scale.subject>128KiB");
            if (subject_len >= 1u << 20) vrt::count("scale.subject>=1MiB");
        });
    }
    // ---- 7. same_storage: 3..6 contents of IDENTICAL size, one after the other in the same storage.  The object holding the subject
    // is destroyed and its successor built right away (forced re-issue of the object block and of the heap block, see rt/vrt_st.h), the
    // separator / character set sits in one caller-side block that is rewritten in place.  The contents share their first and last 16
    // bytes and differ in between in ways that change the answers: the first occurrence moves to an EARLIER place while the old one
    // stays where it was, the last one to a later place, occurrences go away, the runs to be trimmed get longer or shorter.  The calls
    // go through the monitors of the other phases, in an order that changes from content to content; the last call on one content and
    // the first call on its successor are a chosen pair of different operations through the same form (before_first(char) on the old
    // one, after_first(char) on the new one ...).
    {
        const double sc = std::min(1.0, vrt::opt().scale);
        vrt::require("same_storage.cases", static_cast<uint64_t>(300 * sc));
        vrt::require("same_storage.successors", static_cast<uint64_t>(1000 * sc));
        vrt::require("same_storage.object_at_the_same_address", static_cast<uint64_t>(600 * sc));
        vrt::require("same_storage.heap_block_at_the_same_address", static_cast<uint64_t>(500 * sc));
        vrt::require("same_storage.sep.first_occurrence_now_earlier_old_one_still_there", static_cast<uint64_t>(100 * sc));
        vrt::require("same_storage.sep.last_occurrence_now_later_old_one_still_there", static_cast<uint64_t>(100 * sc));
        vrt::require("same_storage.sep.first_call_on_successor_pairs_with_last_call_on_predecessor", static_cast<uint64_t>(500 * sc));
        vrt::require("same_storage.sep.char_form_pair_on_subject>=256", static_cast<uint64_t>(40 * sc));
        vrt::require("same_storage.caller_block_rewritten_in_place", static_cast<uint64_t>(1000 * sc));
        vrt::require("same_storage.trim.chained", static_cast<uint64_t>(200 * sc));
        static const size_t sizes[] = {6, 15, 20, 40, 64, 100, 256, 300, 1024, 1500, 4096, 5000, 16384, 70000};
        const size_t NS = sizeof(sizes) / sizeof(sizes[0]);
        enum { SS_SEP, SS_TRIM, SS_SEP_AGAIN, SS_SLICE, SS_KINDS };
        vrt::phase("same_storage", vrt::tier_count(NS * SS_KINDS * 24, NS * SS_KINDS * 600), [&](uint64_t i, Rng &r) {
            const size_t N = sizes[i % NS];
            const unsigned kind = static_cast<unsigned>((i / NS) % SS_KINDS);
            const size_t shared = std::min<size_t>(16, N / 4), W = N - 2 * shared;       // W: the middle, where the contents differ
            const size_t ncontents = 3 + r.below(4);
            const size_t mark0 = vrt::cur_mark();
            std::optional<vrt::Box<ST::string>> st;
            // destroy the current object and build the one holding `content` in its place
            auto rebuild = [&](const S &content) {
                uintptr_t prev_obj = 0, prev_data = 0;
                if (st) {
                    prev_obj = reinterpret_cast<uintptr_t>(st->p);
                    prev_data = reinterpret_cast<uintptr_t>((*st)->c_str());
                    vrt::placement_force_parks() = 4;
                    st.reset();
                }
                st.emplace(vrt::mk(content));
                vrt::placement_force_parks() = 0;
                if (prev_obj) {
                    vrt::count("same_storage.successors");
                    if (reinterpret_cast<uintptr_t>(st->p) == prev_obj) vrt::count("same_storage.object_at_the_same_address");
                    if (N >= 16 && reinterpret_cast<uintptr_t>((*st)->c_str()) == prev_data) vrt::count("same_storage.heap_block_at_the_same_address");
                }
            };
            if (kind == SS_SEP || kind == SS_SEP_AGAIN) {
                static const char *const alphas[] = {"ab", "aAbB", ":=", "iIjJ", ",;", "Kk-"};
                static const char *const bgs[] = {"x", "xy", "xyz.", "\xe9\xeb", "@[", "x\xc3\xa9"};
                const S al = r.pick(alphas), bg = r.pick(bgs);
                size_t L = r.chance(1, 2) ? 1 : r.chance(2, 3) ? 2 + r.below(6) : 8 + r.below(33);
                L = std::min(L, std::max<size_t>(1, W / 6));
                const S sep = gen::bytes_over(r, L, al);
                // a second separator of the same length for the same caller block: same first and last byte when long enough
                S sep2;
                for (int tries = 0;; ++tries) {
                    sep2 = sep;
                    if (L >= 3 && tries < 50) { for (size_t k = 1; k + 1 < L; ++k) sep2[k] = al[r.below(al.size())]; }
                    else sep2 = gen::bytes_over(r, L, al);
                    if (ref::folded(sep2) != ref::folded(sep)) break;
                    if (tries > 200) { sep2 = S(L, '|'); break; }
                }
                // places where an occurrence can go (at least one background byte between two of them)
                const size_t M = (W - L) / (L + 1) + 1, nslots = std::min<size_t>(6, M);
                std::vector<size_t> slot;
                while (slot.size() < nslots) {
                    const size_t v = r.below(M);
                    if (std::find(slot.begin(), slot.end(), v) == slot.end()) slot.push_back(v);
                }
                std::sort(slot.begin(), slot.end());
                for (size_t &v : slot) v = shared + v * (L + 1);
                // which places hold the separator, content by content
                enum { ADD_EARLIER, ADD_LATER, DROP_FIRST, DROP_LAST, CLEAR_ALL, RANDOM_SET, NONE };
                typedef std::vector<unsigned char> Occ;
                auto first_of = [](const Occ &o) { for (size_t k = 0; k < o.size(); ++k) if (o[k]) return static_cast<long>(k); return -1L; };
                auto last_of = [](const Occ &o) { for (size_t k = o.size(); k-- > 0;) if (o[k]) return static_cast<long>(k); return -1L; };
                std::vector<Occ> occs(ncontents, Occ(nslots, 0));
                std::vector<unsigned> trans(ncontents + 1, NONE);
                occs[0][nslots / 2] = 1;
                const bool earlier_first = r.chance(1, 2);
                for (size_t c = 1; c < ncontents; ++c) {
                    unsigned T = c == 1 ? (earlier_first ? ADD_EARLIER : ADD_LATER) : c == 2 ? (earlier_first ? ADD_LATER : ADD_EARLIER) : static_cast<unsigned>(r.below(6));
                    Occ o;
                    for (int tries = 0; tries < 20; ++tries) {
                        o = occs[c - 1];
                        const long f = first_of(o), l = last_of(o);
                        switch (T) {
                        case ADD_EARLIER: if (f > 0) o[r.below(static_cast<uint64_t>(f))] = 1; break;
                        case ADD_LATER: if (l >= 0 && static_cast<size_t>(l) + 1 < nslots) o[static_cast<size_t>(l) + 1 + r.below(nslots - static_cast<size_t>(l) - 1)] = 1; break;
                        case DROP_FIRST: if (f >= 0 && f != l) o[static_cast<size_t>(f)] = 0; break;
                        case DROP_LAST: if (l >= 0 && f != l) o[static_cast<size_t>(l)] = 0; break;
                        case CLEAR_ALL: std::fill(o.begin(), o.end(), 0); break;
                        default: for (auto &x : o) x = r.chance(1, 2) ? 1 : 0; break;
                        }
                        if (o != occs[c - 1]) break;
                        T = RANDOM_SET;
                    }
                    occs[c] = o;
                    trans[c] = T;
                }
                const bool exact = r.chance(2, 3);
                const S base = gen::bytes_over(r, N, bg);
                vrt::Box<ST::string> ssep(vrt::mk(sep));
                Placed held(L, static_cast<unsigned>(r.below(16)));
                int next_op = -1, next_form = -1;
                bool next_ci = false;
                S got;
                for (size_t c = 0; c < ncontents; ++c) {
                    S s = base;
                    if (c > 0 && r.chance(1, 2)) for (size_t k = shared; k < N - shared; ++k) s[k] = bg[r.below(bg.size())];
                    Occ o = occs[c];
                    if (r.chance(1, 2)) {           // the other separator somewhere as well
                        const size_t k = r.below(nslots);
                        if (!o[k]) o[k] = 2;
                    }
                    for (size_t k = 0; k < nslots; ++k) {
                        if (!o[k]) continue;
                        const S &piece = o[k] == 1 ? sep : sep2;
                        s.replace(slot[k], L, exact ? piece : random_case(r, piece));
                    }
                    rebuild(s);
                    vrt::cur_mark() = mark0;
                    vrt::cur_rewind();
                    vrt::cur_printf("same_storage: content %zu of %zu, subject %s sep=%s\n", c, ncontents, scale::brief(s).c_str(), show(sep).c_str());
                    vrt::cur_mark_here();
                    if (trans[c] == ADD_EARLIER) vrt::count("same_storage.sep.first_occurrence_now_earlier_old_one_still_there");
                    if (trans[c] == ADD_LATER) vrt::count("same_storage.sep.last_occurrence_now_later_old_one_still_there");
                    // the first call on the successor: the partner of the last call on its predecessor
                    if (next_op >= 0) {
                        sep_one(*st, s, sep, *ssep, held.write(sep), next_ci, next_op, next_form, SEP_OPS[next_op].reff(s, sep, next_ci), got);
                        vrt::count("same_storage.sep.first_call_on_successor_pairs_with_last_call_on_predecessor");
                        if (next_form == F_CHAR && N >= 256) vrt::count("same_storage.sep.char_form_pair_on_subject>=256");
                    }
                    SepOrder ord;
                    const unsigned seq = static_cast<unsigned>(r.below(4));          // sep, sep2 | sep2, sep | sep | sep2, sep, sep2
                    for (unsigned v = 0; v < 3; ++v) {
                        const bool second = seq == 0 ? v == 1 : seq == 1 ? v == 0 : seq == 2 ? false : v != 1;
                        if ((seq == 0 || seq == 1) && v == 2) break;
                        if (seq == 2 && v > 0) break;
                        ord.shuffle = r.next() | 1;
                        sep_ops(*st, s, second ? sep2 : sep, r.chance(1, 3), held.write(second ? sep2 : sep), &ord);
                        vrt::count("same_storage.caller_block_rewritten_in_place");
                    }
                    // the last call on this content: an operation whose partner goes first on the successor
                    if (c + 1 < ncontents) {
                        const unsigned T = trans[c + 1];
                        int X, Y;
                        if (r.chance(1, 4) || T == CLEAR_ALL || T == RANDOM_SET) { X = static_cast<int>(r.below(4)); Y = (X + 1 + static_cast<int>(r.below(3))) % 4; }
                        else { const int fam = (T == ADD_EARLIER || T == DROP_FIRST) ? 0 : 2; X = fam + static_cast<int>(r.below(2)); Y = fam + 1 - (X - fam); }
                        const int F = (L == 1 && r.chance(1, 2)) ? F_CHAR : static_cast<int>(r.below(3));
                        const bool ci = r.chance(1, 4);
                        sep_one(*st, s, sep, *ssep, held.write(sep), ci, X, F, SEP_OPS[X].reff(s, sep, ci), got);
                        next_op = Y; next_form = F; next_ci = ci;
                    }
                    if (vrt::str_of(**st) != s) vrt::violation("C08:before_after:subject-changed", scale::brief(s));
                }
                vrt::count("same_storage.sep.cases");
                if (vrt::want_sample("same_storage.sep") && N >= 256)
                    vrt::sample("same_storage.sep", sfmt("%zu contents of %zu bytes one after the other in the same storage (same first and last %zu bytes), separators %s / %s of %zu bytes in one caller block rewritten in place, occurrences at some of the offsets %zu..%zu",
                                                         ncontents, N, shared, show(sep).c_str(), show(sep2).c_str(), L, slot.front(), slot.back()));
            } else if (kind == SS_TRIM) {
                static const char *const setpairs[][2] = {{" ", "x"}, {" \t", "xy"}, {"_-", ".,"}, {"\xe9\x80", " \t"}, {" \t\r\n", "abcd"},
                                                          {"0123456789abcdef", "ghijklmnopqrstuv"}, {" \t\r\n", "\xa0\x85\x0b\x0c"}};
                const size_t pi = r.below(sizeof(setpairs) / sizeof(setpairs[0]));
                const S A = setpairs[pi][0], B = setpairs[pi][1], C = A.substr(0, A.size() / 2) + B.substr(A.size() / 2);
                S non;
                for (int ch = 0; ch < 256; ++ch) if (!ref::in_set(A, static_cast<char>(ch)) && !ref::in_set(B, static_cast<char>(ch))) non += static_cast<char>(ch);
                S core_alpha = A + B;
                for (int k = 0; k < 4; ++k) core_alpha += non[r.below(non.size())];
                const S head = gen::bytes_over(r, shared, A), tail = gen::bytes_over(r, shared, A);
                Placed held(A.size(), static_cast<unsigned>(r.below(16)));
                const size_t budget = std::min<size_t>(W / 3, 300);
                for (size_t c = 0; c < ncontents; ++c) {
                    // head | a1 x A | b1 x B | a2 x A | core (first and last byte outside both sets) | a3 x A | b2 x B | a4 x A | tail
                    S s = head;
                    if (r.chance(1, 10)) s += gen::bytes_over(r, W, r.chance(1, 2) ? A : A + B);       // nothing but members
                    else {
                        size_t run[6], left = budget;
                        for (int k = 0; k < 3; ++k) { run[k] = r.below(left + 1); left -= run[k]; }
                        left = budget;
                        for (int k = 3; k < 6; ++k) { run[k] = r.below(left + 1); left -= run[k]; }
                        const size_t lead = run[0] + run[1] + run[2], trail = run[3] + run[4] + run[5];
                        s += gen::bytes_over(r, run[0], A) + gen::bytes_over(r, run[1], B) + gen::bytes_over(r, run[2], A);
                        S core = gen::bytes_over(r, W - lead - trail, core_alpha);
                        core[0] = non[r.below(non.size())];
                        core[core.size() - 1] = non[r.below(non.size())];
                        s += core;
                        s += gen::bytes_over(r, run[3], A) + gen::bytes_over(r, run[4], B) + gen::bytes_over(r, run[5], A);
                    }
                    s += tail;
                    rebuild(s);
                    vrt::cur_mark() = mark0;
                    vrt::cur_rewind();
                    vrt::cur_printf("same_storage: content %zu of %zu, subject %s\n", c, ncontents, scale::brief(s).c_str());
                    vrt::cur_mark_here();
                    const S *sets[3] = {&A, &B, &C};
                    for (size_t k = 3; k > 1; --k) std::swap(sets[k - 1], sets[r.below(k)]);
                    S g1, g2;
                    for (int k = 0; k < 3; ++k) {
                        trim_ops(*st, s, sets[k]->c_str(), held.write(*sets[k]), static_cast<unsigned>(r.below(6)), k == 0 ? &g1 : nullptr);
                        vrt::count("same_storage.caller_block_rewritten_in_place");
                        if (k == 1 && r.chance(1, 3)) trim_ops(*st, s, nullptr, nullptr, static_cast<unsigned>(r.below(6)));
                    }
                    // trim after trim with another character set
                    trim_check(g1, sets[1]->c_str(), &g2);
                    trim_check(g2, sets[r.below(3)]->c_str());
                    vrt::count("same_storage.trim.chained");
                }
                vrt::count("same_storage.trim.cases");
            } else {
                const S al = r.chance(1, 3) ? S("ab") : S();
                S base(N, '\0');
                for (auto &ch : base) ch = al.empty() ? static_cast<char>(r.below(256)) : al[r.below(al.size())];
                const long n = static_cast<long>(N), sh = static_cast<long>(shared);
                std::vector<std::pair<long, size_t>> sc;
                for (int k = 0; k < 8; ++k) {
                    const long starts[] = {0, 1, sh, n / 2, n - sh, n - 1, n, n + 1, -1, -sh, -n / 2, -n, static_cast<long>(r.range(-n - 2, n + 2))};
                    const long start = r.pick(starts);
                    const size_t counts[] = {0, 1, shared, N / 2, N, SMAX, SMAX - static_cast<size_t>(start), static_cast<size_t>(r.below(N + 2))};
                    sc.emplace_back(start, r.pick(counts));
                }
                std::vector<size_t> ks;
                for (int k = 0; k < 5; ++k) {
                    const size_t cand[] = {0, 1, shared, N / 2, N - shared, N - 1, N, N + 1, 2 * N, SMAX, static_cast<size_t>(r.below(N + 3))};
                    ks.push_back(r.pick(cand));
                }
                for (size_t c = 0; c < ncontents; ++c) {
                    S s = base;
                    for (size_t k = shared; k < N - shared; ++k) s[k] = al.empty() ? static_cast<char>(r.below(256)) : al[r.below(al.size())];
                    rebuild(s);
                    std::vector<size_t> order(sc.size() + ks.size());
                    for (size_t k = 0; k < order.size(); ++k) order[k] = k;
                    for (size_t k = order.size(); k > 1; --k) std::swap(order[k - 1], order[r.below(k)]);
                    for (size_t k : order) {
                        if (k < sc.size()) substr_check(*st, s, sc[k].first, sc[k].second);
                        else left_right_check(*st, s, ks[k - sc.size()]);
                    }
                    if (vrt::str_of(**st) != s) vrt::violation("C08:substr:subject-changed", scale::brief(s));
                }
                vrt::count("same_storage.slice.cases");
            }
            st.reset();
            vrt::count("same_storage.cases");
            if (N >= 256) vrt::count("same_storage.subject>=256");
        });
    }

    // ---- 8. soak: tens of thousands of consecutive calls of every family inside ONE case (one process, one thread) on subjects above the
    // usual thresholds (64..300 bytes, separators up to 30 bytes), so that state kept between calls - a memo of the last subject, a
    // call counter that enables a fast path, a table with a generation number - goes through its whole cycle.  Every call is compared
    // with the reference as everywhere else.  Now and then a run of 64..300 "boring" calls (the same pure-ASCII object, the same
    // arguments, no occurrence, nothing to trim) is followed directly by a same-sized successor at the same address in which the
    // occurrence / the byte to trim / the non-ASCII bytes sit in the last few bytes.
    {
        const double sc = std::min(1.0, vrt::opt().scale);
        // a thorough run has more of these cases, not longer ones (a case stays a few seconds of CPU)
        const uint64_t soak_cases = vrt::thorough() ? 128 : 16;
        const size_t soak_iters = static_cast<size_t>(vrt::tier_count(72000, 100000));
        vrt::require("soak.sep.calls", soak_cases * soak_iters * 2 * 9 / 10);
        vrt::require("soak.trim.calls", soak_cases * soak_iters * 3 * 9 / 10);
        vrt::require("soak.slice.calls", soak_cases * soak_iters * 3 * 9 / 10);
        vrt::require("soak.boring_runs", soak_cases * soak_iters / 3000);
        vrt::require("soak.separators_with_a_rare_byte", soak_cases * soak_iters / 3000);
        vrt::phase("soak", soak_cases, [&](uint64_t, Rng &r) {
            const size_t iters = soak_iters;
            static const char core[] = "abcdefgh";
            static const char *const sets[] = {nullptr, " \t", "x", "_-", "\xa0\xe9", " \t\r\n\v\f"};
            struct Args {
                S sep;
                int w1, w2, form;
                bool ci;
                const char *cs;
                unsigned torder;
                long start;
                size_t count, k;
            } a;
            std::optional<vrt::Box<ST::string>> st;
            S s, got;
            uint64_t n_sep = 0, n_trim = 0, n_slice = 0;
            size_t boring_left = 0;
            auto run_ops = [&]() {
                const bool need_str = a.form == F_STR;
                vrt::Box<ST::string> ssep(vrt::mk(need_str ? a.sep : S()));
                vrt::Exact<char> held(a.sep.data(), a.sep.size(), true);
                sep_one(*st, s, a.sep, *ssep, held.data(), a.ci, a.w1, a.form, SEP_OPS[a.w1].reff(s, a.sep, a.ci), got);
                sep_one(*st, s, a.sep, *ssep, held.data(), a.ci, a.w2, a.form, SEP_OPS[a.w2].reff(s, a.sep, a.ci), got);
                trim_ops(*st, s, a.cs, nullptr, a.torder);
                substr_check(*st, s, a.start, a.count);
                left_right_check(*st, s, a.k);
                n_sep += 2; n_trim += 3; n_slice += 3;
            };
            for (size_t it = 0; it < iters; ++it) {
                if (boring_left > 0) {
                    if (--boring_left > 0) { run_ops(); continue; }
                    // the call right after the run: same size, same address, same arguments - and something in the last few bytes
                    const size_t n = s.size(), L = a.sep.size();
                    const unsigned what = static_cast<unsigned>(1 + r.below(15));
                    if (what & 1) s.replace(n - L - r.below(7), L, a.sep);
                    if (what & 2) { const size_t t = 1 + r.below(7); for (size_t k = n - t; k < n; ++k) s[k] = static_cast<char>(0xC3 + r.below(4)); }
                    if (what & 4) { const S set = a.cs ? S(a.cs) : S(" \t\r\n"); s[n - 1] = set[r.below(set.size())]; if (r.chance(1, 2)) s[0] = set[r.below(set.size())]; }
                    if (what & 8) s.replace(r.below(3), L, a.sep);
                    vrt::placement_force_parks() = 4;
                    st.reset();
                    st.emplace(vrt::mk(s));
                    vrt::placement_force_parks() = 0;
                    run_ops();
                    vrt::count("soak.boring_runs");
                    continue;
                }
                const bool boring = r.chance(1, 400);
                const bool rare = !boring && r.chance(1, 500);
                const size_t L = rare ? 12 + r.below(19) : r.chance(1, 3) ? 1 : 2 + r.below(10);
                a.sep.clear();
                for (size_t k = 0; k < L; ++k) a.sep += core[r.below(8)];
                if (rare) { a.sep[r.below(L)] = static_cast<char>(0xA0 + r.below(80)); vrt::count("soak.separators_with_a_rare_byte"); }
                a.ci = r.chance(1, 5);
                a.w1 = static_cast<int>(r.below(4));
                a.w2 = (a.w1 + 1 + static_cast<int>(r.below(3))) % 4;
                a.form = static_cast<int>(it % 4);
                if (a.form == F_CHAR && L != 1) a.form = F_CSTR;
                a.cs = sets[r.below(sizeof(sets) / sizeof(sets[0]))];
                a.torder = static_cast<unsigned>(r.below(6));
                const size_t hlen = (r.chance(1, 8) ? 16 : 64) + L + r.below(237);
                s.clear();
                if (boring) {
                    for (size_t k = 0; k < hlen; ++k) s += "mnopqrst"[r.below(8)];
                    boring_left = 64 + r.below(237);
                } else {
                    const S set = a.cs ? S(a.cs) : S(" \t\r\n");
                    const size_t lead = r.chance(1, 2) ? r.below(12) : 0, trail = r.chance(1, 2) ? r.below(12) : 0;
                    for (size_t k = 0; k < hlen; ++k) {
                        if (k < lead || k >= hlen - trail) s += set[r.below(set.size())];
                        else s += r.chance(1, 4) ? static_cast<char>(0xA0 + r.below(80)) : core[r.below(8)];
                    }
                    const unsigned shape = static_cast<unsigned>(r.below(8));
                    const size_t at = r.below(hlen - L + 1);
                    if (shape != 0) s.replace(at, L, a.ci && r.chance(1, 2) ? ref::uppered(a.sep) : a.sep);
                    if (shape == 1) s[at + r.below(L)] = '#';                                         // near-miss only
                    if (shape == 2 && at > L + 2) s.replace(r.below(at - L), L, a.sep);              // an earlier occurrence as well
                    if (shape == 3 && at + 2 * L + 2 < hlen) s.replace(at + L + r.below(hlen - at - 2 * L), L, a.sep);   // a later one as well
                }
                a.start = static_cast<long>(r.range(-static_cast<long>(hlen) - 2, static_cast<long>(hlen) + 2));
                a.count = r.chance(1, 4) ? SMAX : r.below(hlen + 3);
                a.k = r.below(hlen + 3);
                st.reset();
                st.emplace(vrt::mk(s));
                run_ops();
            }
            st.reset();
            vrt::count("soak.sep.calls", n_sep);
            vrt::count("soak.trim.calls", n_trim);
            vrt::count("soak.slice.calls", n_slice);
            vrt::distinct(vrt::fnv_u64(r.next(), 98));
            if (vrt::want_sample("soak"))
                vrt::sample("soak", sfmt("%zu consecutive subjects in one process, each through 2 before_/after_ calls, trim_left / trim_right / trim, substr, left, right; last: subject %s sep=%s",
                                         iters, scale::brief(s).c_str(), show(a.sep).c_str()));
        });
    }

    // ---- 9. align: separators of 8..250 bytes handed over as const char* / const char8_t* at every start address modulo 16, in both case
    // modes, on subjects holding NEAR-MISSES: copies of the separator that differ from it at exactly one index j (every j in turn) by
    // more than letter case, by letter case only, or by letter case at j and by more than case further on - one in front of the real
    // occurrence (if any) and one behind it, each at an address congruent or not congruent to the separator's address modulo 8.
    // The same separator bytes also serve as a trim character set at that address.
    {
        const double sc = std::min(1.0, vrt::opt().scale);
        vrt::require("align.subjects", static_cast<uint64_t>(12000 * sc));
        vrt::require("align.near_miss_congruent_mod_8", static_cast<uint64_t>(5000 * sc));
        vrt::require("align.near_miss_not_congruent_mod_8", static_cast<uint64_t>(5000 * sc));
        vrt::require("align.separator_not_8_byte_aligned", static_cast<uint64_t>(8000 * sc));
        vrt::require("align.difference_by_case_in_first_8_minus_addr_mod_8_bytes", static_cast<uint64_t>(600 * sc));
        vrt::require("align.difference_in_the_7_bytes_before_last_multiple_of_8", static_cast<uint64_t>(600 * sc));
        static const size_t lens[] = {8, 9, 12, 15, 16, 17, 20, 23, 24, 25, 31, 32, 33, 36, 39, 40, 41, 47, 48, 49, 56, 63, 64, 65, 100, 128, 131, 250};
        const size_t NL = sizeof(lens) / sizeof(lens[0]);
        vrt::phase("align", vrt::tier_count(16 * NL, 16 * NL * 20), [&](uint64_t i, Rng &r) {
            const uint64_t g = (i * 7919) % (16 * NL);          // walks the whole grid alignment x length, in an order that a short run samples evenly
            const unsigned al = static_cast<unsigned>(g % 16);
            const size_t n = lens[g / 16];
            static const char letters[] = "abcdefghijklmnopqrstuvwxyzABCDEFGHIJKLMNOPQRSTUVWXYZ";
            S sep(n, '\0');
            for (auto &ch : sep) ch = r.chance(1, 8) ? "-_#+"[r.below(4)] : letters[r.below(52)];
            static const char *const bgs[] = {"0123456789", " .,;", "\xe9\xeb", "@[`{", "0"};
            const S bg = r.pick(bgs);
            Placed held(n, al);
            held.write(sep);
            const uintptr_t sa = reinterpret_cast<uintptr_t>(held.p);
            // the index that differs: every one for separators up to 64 bytes; for longer ones the first and the last 17, those around
            // the last multiple of 8 and a dozen others
            std::vector<size_t> js;
            for (size_t j = 0; j < n; ++j)
                if (n <= 64 || j < 17 || j + 17 >= n || j + 9 >= 8 * (n / 8)) js.push_back(j);
            for (int k = 0; n > 64 && k < 12; ++k) js.push_back(17 + r.below(n - 34));
            for (size_t j : js) {
                for (unsigned kind = 0; kind < NM_KINDS; ++kind) {
                    S m1, m2;
                    const bool mixed = r.chance(1, 2);
                    if (!near_miss(r, sep, j, kind, mixed, m1) || !near_miss(r, sep, j, kind, mixed, m2)) { vrt::count("align.index_cannot_differ_that_way"); continue; }
                    const unsigned w1 = (al + (r.chance(1, 2) ? 0 : 1 + r.below(7))) % 8, w2 = (al + (r.chance(1, 2) ? 0 : 1 + r.below(7))) % 8;
                    const size_t o1 = 8 * r.below(3) + w1;
                    S h = gen::bytes_over(r, o1, bg);
                    h += m1;
                    h += gen::bytes_over(r, r.below(12), bg);
                    const unsigned occ = static_cast<unsigned>(r.below(3));          // no real occurrence / exact / in another case
                    if (occ) h += occ == 1 ? sep : random_case(r, sep);
                    h += gen::bytes_over(r, r.below(12), bg);
                    while (h.size() % 8 != w2) h += bg[r.below(bg.size())];
                    const size_t o2 = h.size();
                    h += m2;
                    h += gen::bytes_over(r, r.below(10), bg);
                    vrt::Box<ST::string> st(vrt::mk(h));
                    const uintptr_t hb = reinterpret_cast<uintptr_t>(st->c_str());
                    vrt::count((hb + o1 - sa) % 8 == 0 ? "align.near_miss_congruent_mod_8" : "align.near_miss_not_congruent_mod_8");
                    vrt::count((hb + o2 - sa) % 8 == 0 ? "align.near_miss_congruent_mod_8" : "align.near_miss_not_congruent_mod_8");
                    sep_ops(st, h, sep, false, held.p);
                    sep_ops(st, h, sep, true, held.p);
                    vrt::count("align.subjects");
                    if (sa % 8) vrt::count("align.separator_not_8_byte_aligned");
                    if (kind != NM_HARD && sa % 8 && j < 8 - sa % 8) vrt::count("align.difference_by_case_in_first_8_minus_addr_mod_8_bytes");
                    if (kind == NM_HARD && j < 8 * (n / 8) && j + 7 >= 8 * (n / 8)) vrt::count("align.difference_in_the_7_bytes_before_last_multiple_of_8");
                    if (vrt::want_sample("align") && kind == NM_CASE_THEN_HARD && j == 2 && al % 8)
                        vrt::sample("align", sfmt("subject=%s sep=%s at an address = %u mod 16: near-misses at offsets %zu and %zu differ from it at index %zu (%s)",
                                                  show(h).c_str(), show(sep).c_str(), al, o1, o2, j, "letter case there, another byte further on"));
                }
            }
            // the same bytes as a character set for trim at that address: runs of members, then a byte that is no member but the other
            // case of one / a neighbour of one
            for (int rep = 0; rep < 8; ++rep) {
                auto outsider = [&]() {
                    for (int tries = 0; tries < 32; ++tries) {
                        const char m = sep[r.below(n)], c = r.chance(1, 2) ? other_case(m) : different_byte(r, m);
                        if (!ref::in_set(sep, c)) return c;
                    }
                    return '0';
                };
                S s = gen::bytes_over(r, r.below(40), sep);
                s += outsider();
                s += gen::bytes_over(r, r.below(20), sep + bg);
                s += outsider();
                s += gen::bytes_over(r, r.below(40), sep);
                vrt::Box<ST::string> st(vrt::mk(s));
                trim_ops(st, s, sep.c_str(), held.p, static_cast<unsigned>(r.below(6)));
                vrt::count("align.trim_subjects");
            }
            vrt::count("align.cases");
        });
    }

    // slices of 256 MiB and more out of a string longer than that (such strings come from the library's own non-validating
    // producers): about 3 s and 0.8 GB, one case
    if (vrt::opt().scale >= 1.0) {
        vrt::require("huge.slices", 6);
        vrt::phase("huge_slices", 1, [&](uint64_t, Rng &) {
            vrt::case_cpu_budget() = 900;
            const size_t half = (size_t(1) << 27) + 24, total = 2 * half + 2;
            vrt::cur_printf("slices of a %zu-byte string\n", total);
            ST::char_buffer b;
            b.allocate(total, 'x');
            b[0] = ' '; b[total - 1] = ' '; b[half] = ';';
            const ST::string L = ST::string::from_validated(std::move(b));
            auto chk = [&](const char *op, const ST::string &r, size_t from, size_t n) {
                vrt::evals();
                vrt::count("huge.slices");
                if (r.size() != n || memcmp(r.c_str(), L.c_str() + from, n) != 0 || r.c_str()[n] != 0)
                    vrt::violation(sfmt("C08:%s:wrong-result", op), sfmt("huge subject (%zu bytes): result of %zu bytes, expected %zu bytes from offset %zu", total, r.size(), n, from));
            };
            try {
                chk("substr", L.substr(1, total - 2), 1, total - 2);
                chk("substr", L.substr(-static_cast<ST_ssize_t>(total - 3)), 3, total - 3);
                chk("left", L.left(total - 1), 0, total - 1);
                chk("right", L.right(total - 5), 5, total - 5);
                chk("trim", L.trim(), 1, total - 2);
                chk("after_first", L.after_first(' '), 1, total - 1);
                chk("before_last", L.before_last(" "), 0, total - 1);
                chk("after_first", L.after_first(';'), half + 1, total - half - 1);
            } catch (const std::exception &e) {
                vrt::violation(sfmt("C08:huge-slice:%s", vrt::demangle(typeid(e).name()).c_str()), e.what());
            }
            vrt::case_cpu_budget() = 30;
        });
    }
    vrt::alloc::check_pairing("slice");
}

VRT_MAIN(body)
