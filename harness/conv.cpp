// C01 / C02 / C03 - every conversion route against the reference decoders and
// encoders of rt/ref_unicode.h, under ASan+UBSan, with inputs in exact-size
// heap blocks (no terminator unless the API demands one).
//
//  --prop C01: well-formed text (all scalars in 13 neighbour contexts, Latin-1)
//  --prop C02: malformed text, three validation modes, configured default mode
//  --prop C03: arbitrary garbage / truncations / empty / null / long inputs
#include "vrt.h"
#include "vrt_alloc.h"
#include "vrt_st.h"
#include "ref_unicode.h"
#include "gen_text.h"
#include "gen_scale.h"
#include "ambient.h"
#include <optional>
#include <map>
#include <unordered_map>
#include <memory>

using vrt::Rng;
using vrt::sfmt;
typedef std::string S;
typedef std::u16string S16;
typedef std::u32string S32;
typedef std::wstring SW;

static_assert(sizeof(wchar_t) == 4, "this harness is written for 4-byte wchar_t (see DESIGN section 7)");

static const ST::utf_validation_t MODES[3] = {ST::assume_valid, ST::substitute_invalid, ST::check_validity};
static const char *PROP = "C01";
#ifdef VRT_EXPECT_DEFAULT
static const ST::utf_validation_t EXPECT_DEFAULT = MODES[VRT_EXPECT_DEFAULT];
static const bool HAVE_EXPECT_DEFAULT = true;
#else
static const ST::utf_validation_t EXPECT_DEFAULT = ST::check_validity;
static const bool HAVE_EXPECT_DEFAULT = false;
#endif

template <typename T> static std::string showu(const std::basic_string<T> &s) { return vrt::hex(s.data(), s.size(), sizeof(T), 48); }
static SW to_w(const S32 &s) { return SW(s.begin(), s.end()); }

struct Input {
    int enc;          // 8, 16, 32 (32 also drives the wchar_t routes), 1 = Latin-1
    S u8;
    S16 u16;
    S32 u32;
    std::string describe() const
    {
        switch (enc) {
        case 8: return "utf8:" + showu(u8);
        case 16: return "utf16:" + showu(u16);
        case 32: return "utf32:" + showu(u32);
        default: return "latin1:" + showu(u8);
        }
    }
};

static const char LONG_OLD[] = "an old value that is long enough to live on the heap";
static const Input *g_in = nullptr;
static std::string g_in_text;     // g_in->describe(), made once per input (every route writes it to the current-case recorder)
static void set_input(const Input &in) { g_in = &in; g_in_text = in.describe(); }
static const char *g_route = "";
static const char *g_mode = "";
static std::string g_note;        // how a big input was built (scale phases); empty elsewhere

static void fail(const char *kind, const std::string &detail)
{
    vrt::violation(sfmt("%s:%s:%s", PROP, g_route, kind), sfmt("input=%s%s mode=%s %s", g_in->describe().c_str(), g_note.c_str(), g_mode, detail.c_str()));
}

// ---- route selection (scale phases only).  The route tables below are about 140 routes per input x 3 modes; on inputs of
// 64 Ki .. 1 Mi units the whole table costs seconds.  While `g_sel.on`, every `stride`-th route call of the table (counted
// in table order, starting at `offset`) is executed and the others are left to other inputs: the offset rotates with the
// case index and the stride is 1 (whole table) on the smaller and on some of the big inputs.  Every route met on an input of
// 4 Ki units or more gets a counter `scale.route[name|mode]` with a requirement of one execution, so a run in which some
// route never saw a big input is inconclusive.  Outside the scale phases every route is always executed.
typedef std::vector<std::pair<std::string, std::string>> RouteKeys;      // (route name, mode name); an empty mode name stands for every mode
// a list of routes to execute (same_storage / soak phases), with the number of executions per entry.  Route names are string
// literals, so which entries a name matches is remembered per literal address (filled on first sight by comparing the text).
struct Selection {
    RouteKeys keys;                       // at most 32
    std::vector<uint64_t> hits;
    std::unordered_map<const char *, uint32_t> by_literal;
    void set(const RouteKeys &k) { keys = k; if (keys.size() > 32) keys.resize(32); hits.assign(keys.size(), 0); by_literal.clear(); }
    bool match(const char *name, const char *mode)
    {
        auto it = by_literal.find(name);
        if (it == by_literal.end()) {
            uint32_t mask = 0;
            for (size_t k = 0; k < keys.size(); ++k) if (keys[k].first == name) mask |= 1u << k;
            it = by_literal.emplace(name, mask).first;
        }
        bool run = false;
        for (uint32_t mask = it->second, k = 0; mask; mask >>= 1, ++k)
            if ((mask & 1) && (keys[k].second.empty() || keys[k].second == mode)) { ++hits[k]; run = true; }
        return run;
    }
};
struct RouteSel {
    bool on = false, big = false;
    unsigned stride = 1, offset = 0, ordinal = 0;
    // same_storage / soak phases: `record` collects every route the monitor meets (executed or not), in table order; while
    // `only` is set, exactly the routes listed there are executed
    RouteKeys *record = nullptr;
    Selection *only = nullptr;
};
static RouteSel g_sel;
static bool route_selected(const char *name, const char *mode)
{
    if (!g_sel.on) return true;
    if (g_sel.record) g_sel.record->emplace_back(name, mode);
    if (g_sel.only) return g_sel.only->match(name, mode);
    const unsigned ord = g_sel.ordinal++;
    const bool run = g_sel.stride <= 1 || ord % g_sel.stride == g_sel.offset % g_sel.stride;
    if (g_sel.big) {
        const std::string key = sfmt("scale.route[%s|%s]", name, mode);
        vrt::require(key, 1);
        if (run) vrt::count(key);
    }
    static uint64_t &ran = vrt::counter("scale.route_calls.executed"), &left = vrt::counter("scale.route_calls.left_to_other_inputs");
    ++(run ? ran : left);
    return run;
}
// the blocks of a monitor that call the library outside the route tables (re-validation of repaired output): always run,
// except while a phase executes a chosen list of routes - then they are part of the table like any route
static bool extra_selected(const char *name, const char *mode)
{
    if (!g_sel.on || (!g_sel.only && !g_sel.record)) return true;
    return route_selected(name, mode);
}

// got / want of a failed comparison: whole values when short, otherwise the sizes and a window around the first difference
template <typename T> static std::string diffu(const std::basic_string<T> &got, const std::basic_string<T> &want)
{
    if (got.size() <= 48 && want.size() <= 48) return sfmt("got=%s want=%s", showu(got).c_str(), showu(want).c_str());
    const size_t n = std::min(got.size(), want.size());
    size_t k = 0;
    while (k < n && got[k] == want[k]) ++k;
    const size_t lo = k > 8 ? k - 8 : 0;
    return sfmt("got.size=%zu want.size=%zu first difference at unit %zu: got[%zu..]=%s want[%zu..]=%s", got.size(), want.size(), k,
                lo, vrt::hex(got.data() + lo, std::min<size_t>(24, got.size() - lo), sizeof(T)).c_str(),
                lo, vrt::hex(want.data() + lo, std::min<size_t>(24, want.size() - lo), sizeof(T)).c_str());
}

// result adapters -> std::basic_string, with the size/terminator monitor
template <typename T> static std::basic_string<T> units(const ST::buffer<T> &b)
{
    if (b.data()[b.size()] != T()) fail("no-terminator", sfmt("size=%zu", b.size()));
    return std::basic_string<T>(b.data(), b.size());
}
static S units(const ST::string &s)
{
    if (s.c_str()[s.size()] != 0) fail("no-terminator", sfmt("size=%zu", s.size()));
    return S(s.c_str(), s.size());
}
template <typename T> static std::basic_string<T> units(const std::basic_string<T> &s) { return s; }
static S units(const std::u8string &s) { return S(reinterpret_cast<const char *>(s.data()), s.size()); }

// where the heap block (if any) of a result lives: same_storage phases count how often a result got the block of a dead one
static const void *block_of(const ST::string &s) { return s.c_str(); }
template <typename T> static const void *block_of(const ST::buffer<T> &b) { return b.data(); }
template <typename T> static const void *block_of(const std::basic_string<T> &s) { return s.data(); }
static bool g_track_results = false;
static void track_result(const void *block, size_t units, size_t unit_size)
{
    static const void *last_block = nullptr;
    static size_t last_bytes = 0;
    if (units < 24) return;                       // short values live inside the object
    const size_t bytes = units * unit_size;
    static uint64_t &seen = vrt::counter("same_storage.results_on_the_heap"), &same = vrt::counter("same_storage.results_in_the_heap_block_of_the_previous_result_of_that_size");
    ++seen;
    if (block == last_block && bytes == last_bytes) ++same;
    last_block = block;
    last_bytes = bytes;
}

// run one route: expect either `want` or ST::unicode_error
template <typename T, typename F>
static void route(const char *name, const char *mode, bool want_ok, const std::basic_string<T> &want, F &&f)
{
    if (!route_selected(name, mode)) return;
    g_route = name;
    g_mode = mode;
    vrt::evals();
    vrt::cur_rewind();
    vrt::cur_printf("route=%s mode=%s input=%s%s\n", name, mode, g_in_text.c_str(), g_note.c_str());
    try {
        const auto res = f();
        std::basic_string<T> got = units(res);
        if (g_track_results) track_result(block_of(res), got.size(), sizeof(T));
        if (!want_ok) fail("accepted-invalid", "got=" + showu(got));
        else if (got != want) fail(got.size() != want.size() ? "wrong-size" : "wrong-units", diffu(got, want));
    } catch (const ST::unicode_error &e) {
        if (want_ok) fail("unexpected-unicode_error", e.what());
    }
}

// ---------------------------------------------------------------- where the monitors keep their source data
// Normally every input gets fresh storage: a vrt::Exact block per pointer+size source, new source buffer objects, a new
// ST::string for the member conversions.  The same_storage / soak / alignment phases pin storage instead: while a pin for
// the unit type is set and the input has exactly the pinned number of units, the monitors write the input over its
// predecessor in the caller-side block the phase owns (so the library is handed the SAME pointer and length with
// different content), and with `objects` set they destroy the source buffer object / the source ST::string of the previous
// input and build the new one right away, with the releases parked (rt/vrt_st.h, rt/vrt_alloc.h) so that the object and
// its heap block come back at the same addresses.
template <typename T> struct Pin {
    size_t n = 0;
    T *raw = nullptr, *rawz = nullptr;      // n units ending at the end of a malloc'ed block / n units and a terminator
    bool objects = false;
    std::optional<vrt::Box<ST::buffer<T>>> buf;
    void clear() { n = 0; raw = rawz = nullptr; objects = false; buf.reset(); }
};
template <typename T> static Pin<T> &pin() { static Pin<T> p; return p; }
static std::optional<vrt::Box<ST::string>> g_pin_str;

// park the next `n` releases (unless the phase parks everything anyway)
struct ForceParks {
    int saved, want;
    explicit ForceParks(int n) : saved(vrt::placement_force_parks()), want(n) { if (saved < want) vrt::placement_force_parks() = want; }
    ~ForceParks() { if (saved < want) vrt::placement_force_parks() = saved; }
};

template <typename T> struct Source {
    std::optional<vrt::Exact<T>> fresh;
    const T *p;
    explicit Source(const std::basic_string<T> &s, bool nul = false)
    {
        Pin<T> &pn = pin<T>();
        T *dst = nul ? pn.rawz : pn.raw;
        if (dst && pn.n == s.size()) {
            memcpy(dst, s.data(), s.size() * sizeof(T));
            if (nul) dst[s.size()] = T();
            p = dst;
            static uint64_t &c = vrt::counter("same_storage.sources_written_over_their_predecessor");
            ++c;
        } else {
            fresh.emplace(s.data(), s.size(), nul);
            p = fresh->data();
        }
    }
    const T *data() const { return p; }
};

template <typename T> struct BufSource {
    std::optional<ST::buffer<T>> fresh;
    ST::buffer<T> *b;
    explicit BufSource(const std::basic_string<T> &s)
    {
        Pin<T> &pn = pin<T>();
        if (pn.objects && pn.n == s.size()) {
            const void *old_obj = pn.buf ? static_cast<const void *>(pn.buf->p) : nullptr;
            const void *old_data = pn.buf ? static_cast<const void *>((*pn.buf)->data()) : nullptr;
            const bool same_size = pn.buf && (*pn.buf)->size() == s.size();
            { ForceParks fp(2); pn.buf.reset(); }
            pn.buf.emplace(s.data(), s.size());
            b = pn.buf->p;
            if (same_size) {
                vrt::count("same_storage.source_buffers_rebuilt");
                if (pn.buf->p == old_obj) vrt::count("same_storage.source_buffer_object_at_the_address_of_its_predecessor");
                if ((*pn.buf)->data() == old_data) vrt::count("same_storage.source_buffer_block_at_the_address_of_its_predecessor");
            }
        } else {
            fresh.emplace(s.data(), s.size());
            b = &*fresh;
        }
    }
    ST::buffer<T> &get() { return *b; }
};

// the ST::string whose member conversions string_outputs() runs
struct StrSource {
    std::optional<vrt::Box<ST::string>> fresh;
    vrt::Box<ST::string> *b;
    StrSource(const char *p, size_t n)
    {
        Pin<char> &pn = pin<char>();
        if (pn.objects && pn.n == n) {
            const void *old_obj = g_pin_str ? static_cast<const void *>(g_pin_str->p) : nullptr;
            const void *old_data = g_pin_str ? static_cast<const void *>((*g_pin_str)->c_str()) : nullptr;
            const bool same_size = g_pin_str && (*g_pin_str)->size() == n;
            { ForceParks fp(2); g_pin_str.reset(); }
            g_pin_str.emplace(ST::string::from_validated(p, n));
            b = &*g_pin_str;
            if (same_size) {
                vrt::count("same_storage.source_strings_rebuilt");
                if (g_pin_str->p == old_obj) vrt::count("same_storage.source_string_object_at_the_address_of_its_predecessor");
                if ((*g_pin_str)->c_str() == old_data) vrt::count("same_storage.source_string_block_at_the_address_of_its_predecessor");
            }
        } else {
            fresh.emplace(ST::string::from_validated(p, n));
            b = &*fresh;
        }
    }
    vrt::Box<ST::string> &get() { return *b; }
};

struct Expect {
    bool ok8, ok16, ok32, okL, okLs;
    S e8, eL, eLs;
    S16 e16;
    S32 e32;
};
static Expect expect(const ref::Decoded &d, bool strict)
{
    Expect e;
    e.ok8 = ref::to_utf8(d, strict, e.e8);
    e.ok16 = ref::to_utf16(d, strict, e.e16);
    e.ok32 = ref::to_utf32(d, strict, e.e32);
    e.okL = ref::to_latin1(d, strict, true, e.eL);
    e.okLs = ref::to_latin1(d, strict, false, e.eLs);
    return e;
}
// expect() under both settings, computed once per input: check_validity gives another outcome than the lenient modes only
// when some unit is BAD or some value lies above U+10FFFF (see ref::to_*), so the second evaluation is skipped otherwise
struct Expects {
    Expect lenient, strict;
    bool two = false;
    explicit Expects(const ref::Decoded &d) : lenient(expect(d, false))
    {
        for (long v : d) if (v == ref::BAD || v > 0x10FFFF) { two = true; break; }
        if (two) strict = expect(d, true);
    }
    const Expect &operator()(bool want_strict) const { return want_strict && two ? strict : lenient; }
};
static const char *mname(int m) { return m == 0 ? "assume_valid" : m == 1 ? "substitute_invalid" : "check_validity"; }

// ---------------------------------------------------------------- ST::string -> everything
static void string_outputs(const ST::string &s, const S &bytes, const Expect &e)       // e = expect(decode_utf8(bytes), false): to_* read the stored bytes with assume_valid
{
    const char *m = "n/a";
    route<char>("string.to_utf8", m, true, bytes, [&] { return s.to_utf8(); });
    route<char16_t>("string.to_utf16", m, true, e.e16, [&] { return s.to_utf16(); });
    route<char32_t>("string.to_utf32", m, true, e.e32, [&] { return s.to_utf32(); });
    route<wchar_t>("string.to_wchar", m, true, to_w(e.e32), [&] { return s.to_wchar(); });
    route<char>("string.to_latin_1", m, true, e.eL, [&] { return s.to_latin_1(); });
    route<char>("string.to_latin_1(false)", m, e.okLs, e.eLs, [&] { return s.to_latin_1(false); });
    route<char>("string.to_std_string", m, true, bytes, [&] { return s.to_std_string(); });
    route<char>("string.to_std_string(latin1)", m, true, e.eL, [&] { return s.to_std_string(false); });
    route<char>("string.to_std_string(latin1,false)", m, e.okLs, e.eLs, [&] { return s.to_std_string(false, false); });
    route<char>("string.to_std_string(&)", m, true, bytes, [&] { S r = "junk"; s.to_std_string(r); return r; });
    route<wchar_t>("string.to_std_wstring", m, true, to_w(e.e32), [&] { return s.to_std_wstring(); });
    route<char16_t>("string.to_std_u16string", m, true, e.e16, [&] { return s.to_std_u16string(); });
    route<char32_t>("string.to_std_u32string", m, true, e.e32, [&] { return s.to_std_u32string(); });
    route<char>("string.to_std_u8string", m, true, bytes, [&] { return s.to_std_u8string(); });
    route<wchar_t>("string.to_std_string(wstring&)", m, true, to_w(e.e32), [&] { SW r = L"junk"; s.to_std_string(r); return r; });
    route<char16_t>("string.to_std_string(u16string&)", m, true, e.e16, [&] { S16 r = u"junk"; s.to_std_string(r); return r; });
    route<char32_t>("string.to_std_string(u32string&)", m, true, e.e32, [&] { S32 r = U"junk"; s.to_std_string(r); return r; });
    route<char>("string.to_buffer(char)", m, true, bytes, [&] { ST::char_buffer b("zz", 2); s.to_buffer(b); return b; });
    route<char>("string.to_buffer(char,latin1)", m, true, e.eL, [&] { ST::char_buffer b("previous contents, long enough for the heap", 42); s.to_buffer(b, false); return b; });
    route<char16_t>("string.to_buffer(utf16)", m, true, e.e16, [&] { ST::utf16_buffer b(u"previous contents, long enough", 29); s.to_buffer(b); return b; });
    route<char32_t>("string.to_buffer(utf32)", m, true, e.e32, [&] { ST::utf32_buffer b(U"prev", 4); s.to_buffer(b); return b; });
    route<wchar_t>("string.to_buffer(wchar)", m, true, to_w(e.e32), [&] { ST::wchar_buffer b(L"previous contents, long enough", 29); s.to_buffer(b); return b; });
    route<char>("string.view", m, true, bytes, [&] { return S(s.view()); });
    route<char>("string.view(1,n-1)", m, true, bytes.empty() ? bytes : bytes.substr(1), [&] { return bytes.empty() ? S(s.view()) : S(s.view(1)); });
    route<char>("string.to_std_string(u8string&)", m, true, bytes, [&] { std::u8string r = u8"junk"; s.to_std_string(r); return r; });
    route<char>("string.to_std_string(&,latin1,false)", m, e.okLs, e.eLs, [&] { S r = "junk"; s.to_std_string(r, false, false); return r; });
    // deprecated overloads taking a validation mode: substitute_invalid means "substitute out-of-range characters"
    route<char>("string.to_latin_1(substitute_invalid) [deprecated]", m, true, e.eL, [&] { return s.to_latin_1(ST::substitute_invalid); });
    route<char>("string.to_latin_1(check_validity) [deprecated]", m, e.okLs, e.eLs, [&] { return s.to_latin_1(ST::check_validity); });
    route<char>("string.to_std_string(false,substitute_invalid) [deprecated]", m, true, e.eL, [&] { return s.to_std_string(false, ST::substitute_invalid); });
    route<char>("string.to_std_string(false,check_validity) [deprecated]", m, e.okLs, e.eLs, [&] { return s.to_std_string(false, ST::check_validity); });
    route<char>("string.to_std_string(&,true,check_validity) [deprecated]", m, true, bytes, [&] { S r = "junk"; s.to_std_string(r, true, ST::check_validity); return r; });
    route<char>("string.to_std_string(&,true,substitute_invalid) [deprecated]", m, true, bytes, [&] { S r = "junk"; s.to_std_string(r, true, ST::substitute_invalid); return r; });
    route<char>("string.to_std_string(&,false,substitute_invalid) [deprecated]", m, true, e.eL, [&] { S r = "junk"; s.to_std_string(r, false, ST::substitute_invalid); return r; });
    route<char>("string.to_std_string(&,false,check_validity) [deprecated]", m, e.okLs, e.eLs, [&] { S r = "junk"; s.to_std_string(r, false, ST::check_validity); return r; });
    route<char>("string.to_std_string(true,assume_valid) [deprecated]", m, true, bytes, [&] { return s.to_std_string(true, ST::assume_valid); });
    route<char>("string.to_buffer(char,false,substitute_invalid) [deprecated]", m, true, e.eL, [&] { ST::char_buffer b("prev", 4); s.to_buffer(b, false, ST::substitute_invalid); return b; });
    route<char>("string.to_buffer(char,false,check_validity) [deprecated]", m, e.okLs, e.eLs, [&] { ST::char_buffer b; s.to_buffer(b, false, ST::check_validity); return b; });
    route<char>("string.to_buffer(char,true,check_validity) [deprecated]", m, true, bytes, [&] { ST::char_buffer b("previous contents, long enough for the heap", 42); s.to_buffer(b, true, ST::check_validity); return b; });
    route<char>("string.c_str/u8_str", m, true, bytes, [&] { return S(s.c_str(), s.size()) == S(reinterpret_cast<const char *>(s.u8_str()), s.size()) ? S(s.data(), s.size()) : S("c_str and u8_str differ"); });
}

// ---------------------------------------------------------------- UTF-8 source
static void from_utf8(const Input &in, bool full)
{
    set_input(in);
    const S &b = in.u8;
    const ref::Decoded d = ref::decode_utf8(b);
    const bool bad = ref::has_bad(d);
    Source<char> x(b);                                   // exactly n bytes, no NUL
    const char *p = x.data();
    const size_t n = b.size();
    const char8_t *p8 = reinterpret_cast<const char8_t *>(p);
    BufSource<char> cbs(b);
    const ST::char_buffer &cb = cbs.get();
    const Expects ex(d);
    for (int mi = 0; mi < 3; ++mi) {
        const ST::utf_validation_t m = MODES[mi];
        const bool strict = mi == 2;
        const Expect &e = ex(strict);
        const char *mn = mname(mi);
        route<char16_t>("utf8_to_utf16", mn, e.ok16, e.e16, [&] { return ST::utf8_to_utf16(p, n, m); });
        route<char32_t>("utf8_to_utf32", mn, e.ok32, e.e32, [&] { return ST::utf8_to_utf32(p, n, m); });
        route<wchar_t>("utf8_to_wchar", mn, e.ok32, to_w(e.e32), [&] { return ST::utf8_to_wchar(p, n, m); });
        route<char>("utf8_to_latin_1", mn, e.okL, e.eL, [&] { return ST::utf8_to_latin_1(p, n, m); });
        route<char>("utf8_to_latin_1(false)", mn, e.okLs, e.eLs, [&] { return ST::utf8_to_latin_1(p, n, m, false); });
        // UTF-8 -> ST::string keeps the bytes: verbatim (assume), repaired (substitute), or rejected (check)
        const S wants = mi == 0 ? b : mi == 1 ? ref::cleanup_utf8(b) : b;
        const bool oks = !(strict && bad);
        route<char>("string(const char*,n)", mn, oks, wants, [&] { return ST::string(p, n, m); });
        if (full) {
            route<char16_t>("utf8_to_utf16(buffer)", mn, e.ok16, e.e16, [&] { return ST::utf8_to_utf16(cb, m); });
            route<char32_t>("utf8_to_utf32(buffer)", mn, e.ok32, e.e32, [&] { return ST::utf8_to_utf32(cb, m); });
            route<wchar_t>("utf8_to_wchar(buffer)", mn, e.ok32, to_w(e.e32), [&] { return ST::utf8_to_wchar(cb, m); });
            route<char>("utf8_to_latin_1(buffer)", mn, e.okL, e.eL, [&] { return ST::utf8_to_latin_1(cb, m); });
            route<char>("utf8_to_latin_1(buffer,false)", mn, e.okLs, e.eLs, [&] { return ST::utf8_to_latin_1(cb, m, false); });
            route<char16_t>("utf8_to_utf16(char8_t)", mn, e.ok16, e.e16, [&] { return ST::utf8_to_utf16(p8, n, m); });
            route<char32_t>("utf8_to_utf32(char8_t)", mn, e.ok32, e.e32, [&] { return ST::utf8_to_utf32(p8, n, m); });
            route<wchar_t>("utf8_to_wchar(char8_t)", mn, e.ok32, to_w(e.e32), [&] { return ST::utf8_to_wchar(p8, n, m); });
            route<char>("utf8_to_latin_1(char8_t)", mn, e.okL, e.eL, [&] { return ST::utf8_to_latin_1(p8, n, m); });
            route<char>("string(const char8_t*,n)", mn, oks, wants, [&] { return ST::string(p8, n, m); });
            route<char>("string::from_utf8", mn, oks, wants, [&] { return ST::string::from_utf8(p, n, m); });
            route<char>("string::from_utf8(char8_t)", mn, oks, wants, [&] { return ST::string::from_utf8(p8, n, m); });
            route<char>("string::from_utf8(buffer)", mn, oks, wants, [&] { return ST::string::from_utf8(cb, m); });
            route<char>("string(char_buffer)", mn, oks, wants, [&] { return ST::string(cb, m); });
            route<char>("string(char_buffer&&)", mn, oks, wants, [&] { ST::char_buffer t(cb); return ST::string(std::move(t), m); });
            route<char>("string.set(const char*,n)", mn, oks, wants, [&] { ST::string s("old"); s.set(p, n, m); return s; });
            route<char>("string.set(char8_t*,n)", mn, oks, wants, [&] { ST::string s("old"); s.set(p8, n, m); return s; });
            route<char>("string.set(char_buffer)", mn, oks, wants, [&] { ST::string s("old"); s.set(cb, m); return s; });
            route<char>("string.set(char_buffer&&)", mn, oks, wants, [&] { ST::string s("old"); ST::char_buffer t(cb); s.set(std::move(t), m); return s; });
            // ... the same over a target that holds a long (heap) value
            route<char>("string.set(const char*,n) over long", mn, oks, wants, [&] { ST::string s(LONG_OLD); s.set(p, n, m); return s; });
            route<char>("string.set(char_buffer) over long", mn, oks, wants, [&] { ST::string s(LONG_OLD); s.set(cb, m); return s; });
            route<char>("string.set(char_buffer&&) over long", mn, oks, wants, [&] { ST::string s(LONG_OLD); ST::char_buffer t(cb); s.set(std::move(t), m); return s; });
            route<char>("string=string&& over long", mn, oks, wants, [&] { ST::string s(LONG_OLD); s = ST::string(p, n, m); return s; });
            // a string that holds these bytes verbatim, re-validated through its own storage: same outcome as through any other pointer
            route<char>("string.set(own c_str,size)", mn, oks, wants, [&] { ST::string s = ST::string::from_validated(p, n); s.set(s.c_str(), s.size(), m); return s; });
            route<char>("string.set(own view)", mn, oks, wants, [&] { ST::string s = ST::string::from_validated(p, n); s.set(s.view(), m); return s; });
            route<char>("string.set(own u8_str,size)", mn, oks, wants, [&] { ST::string s = ST::string::from_validated(p, n); s.set(s.u8_str(), s.size(), m); return s; });
            route<char>("string(std::string)", mn, oks, wants, [&] { return ST::string(b, m); });
            route<char>("string(string_view)", mn, oks, wants, [&] { return ST::string(std::string_view(p, n), m); });
            route<char>("string(u8string)", mn, oks, wants, [&] { return ST::string(std::u8string(p8, n), m); });
            route<char>("string(u8string_view)", mn, oks, wants, [&] { return ST::string(std::u8string_view(p8, n), m); });
            route<char>("string.set(std::string)", mn, oks, wants, [&] { ST::string s; s.set(b, m); return s; });
            route<char>("string.set(string_view)", mn, oks, wants, [&] { ST::string s; s.set(std::string_view(p, n), m); return s; });
            route<char>("string.set(u8string)", mn, oks, wants, [&] { ST::string s; s.set(std::u8string(p8, n), m); return s; });
            route<char>("string.set(u8string_view)", mn, oks, wants, [&] { ST::string s; s.set(std::u8string_view(p8, n), m); return s; });
            route<char>("string::from_std_string", mn, oks, wants, [&] { return ST::string::from_std_string(b, m); });
            route<char>("string::from_std_string(view)", mn, oks, wants, [&] { return ST::string::from_std_string(std::string_view(p, n), m); });
            route<char>("string::from_std_string(u8string)", mn, oks, wants, [&] { return ST::string::from_std_string(std::u8string(p8, n), m); });
            route<char>("string::from_std_string(u8view)", mn, oks, wants, [&] { return ST::string::from_std_string(std::u8string_view(p8, n), m); });
        }
        // repaired output passes check_validity (always for UTF-8 -> UTF-8)
        if (mi == 1 && extra_selected("string(substitute)->revalidate", mn)) {
            g_route = "string(substitute)->revalidate";
            try {
                ST::string rep(p, n, ST::substitute_invalid);
                vrt::evals();
                try { ST::string again(rep.c_str(), rep.size(), ST::check_validity); }
                catch (const ST::unicode_error &) { fail("repaired-output-fails-check_validity", "repaired=" + vrt::hex(rep.c_str(), rep.size())); }
                if (!ref::has_nonscalar(d)) {
                    ST::utf16_buffer r16 = ST::utf8_to_utf16(p, n, ST::substitute_invalid);
                    ST::utf32_buffer r32 = ST::utf8_to_utf32(p, n, ST::substitute_invalid);
                    try { (void)ST::utf16_to_utf32(r16, ST::check_validity); (void)ST::utf32_to_utf8(r32, ST::check_validity); }
                    catch (const ST::unicode_error &) { fail("repaired-output-fails-check_validity", "utf16/utf32 result"); }
                    vrt::evals(2);
                }
            } catch (const ST::unicode_error &e) { fail("substitute_invalid-threw", e.what()); }
        }
    }
    // calls that omit the mode behave as the configured default
    {
        const int di = EXPECT_DEFAULT == ST::assume_valid ? 0 : EXPECT_DEFAULT == ST::substitute_invalid ? 1 : 2;
        const bool strict = di == 2;
        const Expect &e = ex(strict);
        const S wants = di == 1 ? ref::cleanup_utf8(b) : b;
        const bool oks = !(strict && bad);
        const char *mn = "default";
        if (HAVE_EXPECT_DEFAULT || !bad) {
            route<char16_t>("utf8_to_utf16", mn, e.ok16, e.e16, [&] { return ST::utf8_to_utf16(p, n); });
            route<char32_t>("utf8_to_utf32", mn, e.ok32, e.e32, [&] { return ST::utf8_to_utf32(p, n); });
            route<wchar_t>("utf8_to_wchar", mn, e.ok32, to_w(e.e32), [&] { return ST::utf8_to_wchar(p, n); });
            route<char>("utf8_to_latin_1", mn, e.okL, e.eL, [&] { return ST::utf8_to_latin_1(p, n); });
            route<char>("string(const char*,n)", mn, oks, wants, [&] { return ST::string(p, n); });
            route<char>("string::from_utf8", mn, oks, wants, [&] { return ST::string::from_utf8(p, n); });
            if (full) {
                route<char16_t>("utf8_to_utf16(buffer)", mn, e.ok16, e.e16, [&] { return ST::utf8_to_utf16(cb); });
                route<char32_t>("utf8_to_utf32(buffer)", mn, e.ok32, e.e32, [&] { return ST::utf8_to_utf32(cb); });
                route<char>("string(char_buffer)", mn, oks, wants, [&] { return ST::string(cb); });
                route<char>("string=char_buffer", mn, oks, wants, [&] { ST::string s; s = cb; return s; });
                route<char>("string(std::string)", mn, oks, wants, [&] { return ST::string(b); });
                route<char>("string=std::string", mn, oks, wants, [&] { ST::string s; s = b; return s; });
                route<char>("string=string_view", mn, oks, wants, [&] { ST::string s; s = std::string_view(p, n); return s; });
                route<char>("string.set(const char*,n)", mn, oks, wants, [&] { ST::string s; s.set(p, n); return s; });
                if (b.find('\0') == S::npos) {
                    Source<char> z(b, true);
                    route<char>("string(const char*)", mn, oks, wants, [&] { return ST::string(z.data()); });
                    route<char>("string=const char*", mn, oks, wants, [&] { ST::string s("x"); s = z.data(); return s; });
                    route<char>("string=const char8_t*", mn, oks, wants, [&] { ST::string s("x"); s = reinterpret_cast<const char8_t *>(z.data()); return s; });
                    route<char>("string::from_utf8(cstr)", mn, oks, wants, [&] { return ST::string::from_utf8(z.data()); });
                    route<char>("string.set(cstr)", mn, oks, wants, [&] { ST::string s; s.set(z.data()); return s; });
                }
            }
        }
    }
    // verbatim routes and everything an ST::string can be converted to
    if (full || !bad) {
        route<char>("string::from_validated", "n/a", true, b, [&] { return ST::string::from_validated(p, n); });
        route<char>("string::from_validated(char8_t)", "n/a", true, b, [&] { return ST::string::from_validated(p8, n); });
        route<char>("string::from_validated(buffer)", "n/a", true, b, [&] { return ST::string::from_validated(cb); });
        route<char>("string.set_validated", "n/a", true, b, [&] { ST::string s("old"); s.set_validated(p, n); return s; });
        route<char>("string.set_validated(char8_t)", "n/a", true, b, [&] { ST::string s(LONG_OLD); s.set_validated(p8, n); return s; });
        route<char>("string.set_validated(char_buffer)", "n/a", true, b, [&] { ST::string s("old"); s.set_validated(cb); return s; });
        route<char>("string.set_validated(char_buffer) over long", "n/a", true, b, [&] { ST::string s(LONG_OLD); s.set_validated(cb); return s; });
        route<char>("string.set_validated(char_buffer&&)", "n/a", true, b, [&] { ST::string s(LONG_OLD); ST::char_buffer t(cb); s.set_validated(std::move(t)); return s; });
        route<char>("string::from_validated(buffer&&)", "n/a", true, b, [&] { ST::char_buffer t(cb); return ST::string::from_validated(std::move(t)); });
        route<char>("string.set_validated over long", "n/a", true, b, [&] { ST::string s(LONG_OLD); s.set_validated(p, n); return s; });
        route<char>("operator\"\"_st(char)", "n/a", true, b, [&] { return ST::literals::operator""_st(p, n); });
        route<char>("operator\"\"_st(char8_t)", "n/a", true, b, [&] { return ST::literals::operator""_st(p8, n); });
        route<char>("operator\"\"_stbuf(char)", "n/a", true, b, [&] { return ST::literals::operator""_stbuf(p, n); });
        route<char>("operator\"\"_stbuf(char8_t)", "n/a", true, b, [&] { return ST::literals::operator""_stbuf(p8, n); });
        StrSource sts(p, n);
        vrt::Box<ST::string> &st = sts.get();
        string_outputs(*st, b, ex(false));
        // std::filesystem::path routes (text without NUL; a path is a C string underneath)
        if (full && !bad && !ref::has_nonscalar(d) && b.find('\0') == S::npos) {
            const std::filesystem::path pth(std::u8string(p8, n));
            route<char>("string(path)", "n/a", true, b, [&] { return ST::string(pth); });
            route<char>("string.set(path)", "n/a", true, b, [&] { ST::string s("old value that is long enough for the heap"); s.set(pth); return s; });
            route<char>("string=path", "n/a", true, b, [&] { ST::string s("old"); s = pth; return s; });
            route<char>("string::from_path", "n/a", true, b, [&] { return ST::string::from_path(pth); });
            route<char>("string.to_path", "n/a", true, b, [&] { return st->to_path().u8string(); });
            route<char>("string_stream<<path", "n/a", true, b, [&] { ST::string_stream ss; ss << pth; return S(ss.raw_buffer(), ss.size()); });
            route<char>("format(path)", "n/a", true, b, [&] { return ST::format(ST::assume_valid, "{}", pth); });
        }
    }
}

// ---------------------------------------------------------------- UTF-16 source
static void from_utf16(const Input &in, bool full)
{
    set_input(in);
    const S16 &u = in.u16;
    const ref::Decoded d = ref::decode_utf16(u.data(), u.size());
    Source<char16_t> x(u);
    const char16_t *p = x.data();
    const size_t n = u.size();
    BufSource<char16_t> ubs(u);
    const ST::utf16_buffer &ub = ubs.get();
    const Expects ex(d);
    for (int mi = 0; mi < 3; ++mi) {
        const ST::utf_validation_t m = MODES[mi];
        const Expect &e = ex(mi == 2);
        const char *mn = mname(mi);
        route<char>("utf16_to_utf8", mn, e.ok8, e.e8, [&] { return ST::utf16_to_utf8(p, n, m); });
        route<char32_t>("utf16_to_utf32", mn, e.ok32, e.e32, [&] { return ST::utf16_to_utf32(p, n, m); });
        route<wchar_t>("utf16_to_wchar", mn, e.ok32, to_w(e.e32), [&] { return ST::utf16_to_wchar(p, n, m); });
        route<char>("utf16_to_latin_1", mn, e.okL, e.eL, [&] { return ST::utf16_to_latin_1(p, n, m); });
        route<char>("utf16_to_latin_1(false)", mn, e.okLs, e.eLs, [&] { return ST::utf16_to_latin_1(p, n, m, false); });
        route<char>("string(const char16_t*,n)", mn, e.ok8, e.e8, [&] { return ST::string(p, n, m); });
        if (full) {
            route<char>("utf16_to_utf8(buffer)", mn, e.ok8, e.e8, [&] { return ST::utf16_to_utf8(ub, m); });
            route<char32_t>("utf16_to_utf32(buffer)", mn, e.ok32, e.e32, [&] { return ST::utf16_to_utf32(ub, m); });
            route<wchar_t>("utf16_to_wchar(buffer)", mn, e.ok32, to_w(e.e32), [&] { return ST::utf16_to_wchar(ub, m); });
            route<char>("utf16_to_latin_1(buffer)", mn, e.okL, e.eL, [&] { return ST::utf16_to_latin_1(ub, m); });
            route<char>("utf16_to_latin_1(buffer,false)", mn, e.okLs, e.eLs, [&] { return ST::utf16_to_latin_1(ub, m, false); });
            route<char>("string::from_utf16", mn, e.ok8, e.e8, [&] { return ST::string::from_utf16(p, n, m); });
            route<char>("string::from_utf16(buffer)", mn, e.ok8, e.e8, [&] { return ST::string::from_utf16(ub, m); });
            route<char>("string(utf16_buffer)", mn, e.ok8, e.e8, [&] { return ST::string(ub, m); });
            route<char>("string.set(char16_t*,n)", mn, e.ok8, e.e8, [&] { ST::string s("old"); s.set(p, n, m); return s; });
            route<char>("string.set(utf16_buffer)", mn, e.ok8, e.e8, [&] { ST::string s("old"); s.set(ub, m); return s; });
            route<char>("string(u16string)", mn, e.ok8, e.e8, [&] { return ST::string(u, m); });
            route<char>("string(u16string_view)", mn, e.ok8, e.e8, [&] { return ST::string(std::u16string_view(p, n), m); });
            route<char>("string.set(u16string)", mn, e.ok8, e.e8, [&] { ST::string s; s.set(u, m); return s; });
            route<char>("string.set(u16string_view)", mn, e.ok8, e.e8, [&] { ST::string s; s.set(std::u16string_view(p, n), m); return s; });
            route<char>("string::from_std_string(u16string)", mn, e.ok8, e.e8, [&] { return ST::string::from_std_string(u, m); });
            route<char>("string::from_std_string(u16view)", mn, e.ok8, e.e8, [&] { return ST::string::from_std_string(std::u16string_view(p, n), m); });
        }
        if (mi == 1 && !ref::has_nonscalar(d) && extra_selected("utf16(substitute)->revalidate", mn)) {
            g_route = "utf16(substitute)->revalidate";
            try {
                ST::char_buffer r8 = ST::utf16_to_utf8(p, n, ST::substitute_invalid);
                ST::utf32_buffer r32 = ST::utf16_to_utf32(p, n, ST::substitute_invalid);
                vrt::evals(2);
                try { (void)ST::string(r8, ST::check_validity); (void)ST::utf32_to_utf16(r32, ST::check_validity); }
                catch (const ST::unicode_error &) { fail("repaired-output-fails-check_validity", ""); }
            } catch (const ST::unicode_error &e) { fail("substitute_invalid-threw", e.what()); }
        }
    }
    if (HAVE_EXPECT_DEFAULT || !ref::has_bad(d)) {
        const int di = EXPECT_DEFAULT == ST::assume_valid ? 0 : EXPECT_DEFAULT == ST::substitute_invalid ? 1 : 2;
        const Expect &e = ex(di == 2);
        const char *mn = "default";
        route<char>("utf16_to_utf8", mn, e.ok8, e.e8, [&] { return ST::utf16_to_utf8(p, n); });
        route<char32_t>("utf16_to_utf32", mn, e.ok32, e.e32, [&] { return ST::utf16_to_utf32(p, n); });
        route<char>("utf16_to_latin_1", mn, e.okL, e.eL, [&] { return ST::utf16_to_latin_1(p, n); });
        route<char>("string(const char16_t*,n)", mn, e.ok8, e.e8, [&] { return ST::string(p, n); });
        if (full) {
            route<wchar_t>("utf16_to_wchar", mn, e.ok32, to_w(e.e32), [&] { return ST::utf16_to_wchar(p, n); });
            route<char>("utf16_to_utf8(buffer)", mn, e.ok8, e.e8, [&] { return ST::utf16_to_utf8(ub); });
            route<char>("string=utf16_buffer", mn, e.ok8, e.e8, [&] { ST::string s; s = ub; return s; });
            route<char>("string=u16string", mn, e.ok8, e.e8, [&] { ST::string s; s = u; return s; });
            route<char>("string=u16string_view", mn, e.ok8, e.e8, [&] { ST::string s; s = std::u16string_view(p, n); return s; });
            route<char>("string::from_utf16", mn, e.ok8, e.e8, [&] { return ST::string::from_utf16(p, n); });
            if (u.find(u'\0') == S16::npos) {
                Source<char16_t> z(u, true);
                route<char>("string(const char16_t*)", mn, e.ok8, e.e8, [&] { return ST::string(z.data()); });
                route<char>("string=const char16_t*", mn, e.ok8, e.e8, [&] { ST::string s("x"); s = z.data(); return s; });
                route<char>("string::from_utf16(cstr)", mn, e.ok8, e.e8, [&] { return ST::string::from_utf16(z.data()); });
            }
        }
    }
    {
        // literal operators use assume_valid
        const Expect &e = ex(false);
        route<char>("operator\"\"_st(char16_t)", "n/a", e.ok8, e.e8, [&] { return ST::literals::operator""_st(p, n); });
        route<char16_t>("operator\"\"_stbuf(char16_t)", "n/a", true, u, [&] { return ST::literals::operator""_stbuf(p, n); });
    }
}

// ---------------------------------------------------------------- UTF-32 / wchar_t source
static void from_utf32(const Input &in, bool full)
{
    set_input(in);
    const S32 &u = in.u32;
    const SW w = to_w(u);
    const ref::Decoded d = ref::decode_utf32(u.data(), u.size());
    Source<char32_t> x(u);
    Source<wchar_t> xw(w);
    const char32_t *p = x.data();
    const wchar_t *pw = xw.data();
    const size_t n = u.size();
    BufSource<char32_t> ubs(u);
    BufSource<wchar_t> wbs(w);
    const ST::utf32_buffer &ub = ubs.get();
    const ST::wchar_buffer &wb = wbs.get();
    const Expects ex(d);
    for (int mi = 0; mi < 3; ++mi) {
        const ST::utf_validation_t m = MODES[mi];
        const Expect &e = ex(mi == 2);
        const char *mn = mname(mi);
        route<char>("utf32_to_utf8", mn, e.ok8, e.e8, [&] { return ST::utf32_to_utf8(p, n, m); });
        route<char16_t>("utf32_to_utf16", mn, e.ok16, e.e16, [&] { return ST::utf32_to_utf16(p, n, m); });
        route<char>("utf32_to_latin_1", mn, e.okL, e.eL, [&] { return ST::utf32_to_latin_1(p, n, m); });
        route<char>("utf32_to_latin_1(false)", mn, e.okLs, e.eLs, [&] { return ST::utf32_to_latin_1(p, n, m, false); });
        route<char>("string(const char32_t*,n)", mn, e.ok8, e.e8, [&] { return ST::string(p, n, m); });
        route<char>("wchar_to_utf8", mn, e.ok8, e.e8, [&] { return ST::wchar_to_utf8(pw, n, m); });
        route<char16_t>("wchar_to_utf16", mn, e.ok16, e.e16, [&] { return ST::wchar_to_utf16(pw, n, m); });
        route<char>("wchar_to_latin_1", mn, e.okL, e.eL, [&] { return ST::wchar_to_latin_1(pw, n, m); });
        route<char>("string(const wchar_t*,n)", mn, e.ok8, e.e8, [&] { return ST::string(pw, n, m); });
        // same-width aliases are copies (DESIGN 6.3)
        route<wchar_t>("utf32_to_wchar", mn, true, w, [&] { return ST::utf32_to_wchar(p, n, m); });
        route<char32_t>("wchar_to_utf32", mn, true, u, [&] { return ST::wchar_to_utf32(pw, n, m); });
        if (full) {
            route<char>("utf32_to_utf8(buffer)", mn, e.ok8, e.e8, [&] { return ST::utf32_to_utf8(ub, m); });
            route<char16_t>("utf32_to_utf16(buffer)", mn, e.ok16, e.e16, [&] { return ST::utf32_to_utf16(ub, m); });
            route<char>("utf32_to_latin_1(buffer)", mn, e.okL, e.eL, [&] { return ST::utf32_to_latin_1(ub, m); });
            route<char>("utf32_to_latin_1(buffer,false)", mn, e.okLs, e.eLs, [&] { return ST::utf32_to_latin_1(ub, m, false); });
            route<wchar_t>("utf32_to_wchar(buffer)", mn, true, w, [&] { return ST::utf32_to_wchar(ub, m); });
            route<char>("wchar_to_utf8(buffer)", mn, e.ok8, e.e8, [&] { return ST::wchar_to_utf8(wb, m); });
            route<char16_t>("wchar_to_utf16(buffer)", mn, e.ok16, e.e16, [&] { return ST::wchar_to_utf16(wb, m); });
            route<char32_t>("wchar_to_utf32(buffer)", mn, true, u, [&] { return ST::wchar_to_utf32(wb, m); });
            route<char>("wchar_to_latin_1(buffer)", mn, e.okL, e.eL, [&] { return ST::wchar_to_latin_1(wb, m); });
            route<char>("wchar_to_latin_1(false)", mn, e.okLs, e.eLs, [&] { return ST::wchar_to_latin_1(pw, n, m, false); });
            route<char>("string::from_utf32", mn, e.ok8, e.e8, [&] { return ST::string::from_utf32(p, n, m); });
            route<char>("string::from_utf32(buffer)", mn, e.ok8, e.e8, [&] { return ST::string::from_utf32(ub, m); });
            route<char>("string::from_wchar", mn, e.ok8, e.e8, [&] { return ST::string::from_wchar(pw, n, m); });
            route<char>("string::from_wchar(buffer)", mn, e.ok8, e.e8, [&] { return ST::string::from_wchar(wb, m); });
            route<char>("string(utf32_buffer)", mn, e.ok8, e.e8, [&] { return ST::string(ub, m); });
            route<char>("string(wchar_buffer)", mn, e.ok8, e.e8, [&] { return ST::string(wb, m); });
            route<char>("string.set(char32_t*,n)", mn, e.ok8, e.e8, [&] { ST::string s("old"); s.set(p, n, m); return s; });
            route<char>("string.set(wchar_t*,n)", mn, e.ok8, e.e8, [&] { ST::string s("old"); s.set(pw, n, m); return s; });
            route<char>("string.set(utf32_buffer)", mn, e.ok8, e.e8, [&] { ST::string s("old"); s.set(ub, m); return s; });
            route<char>("string.set(wchar_buffer)", mn, e.ok8, e.e8, [&] { ST::string s("old"); s.set(wb, m); return s; });
            route<char>("string(u32string)", mn, e.ok8, e.e8, [&] { return ST::string(u, m); });
            route<char>("string(wstring)", mn, e.ok8, e.e8, [&] { return ST::string(w, m); });
            route<char>("string(u32string_view)", mn, e.ok8, e.e8, [&] { return ST::string(std::u32string_view(p, n), m); });
            route<char>("string(wstring_view)", mn, e.ok8, e.e8, [&] { return ST::string(std::wstring_view(pw, n), m); });
            route<char>("string.set(u32string)", mn, e.ok8, e.e8, [&] { ST::string s; s.set(u, m); return s; });
            route<char>("string.set(wstring)", mn, e.ok8, e.e8, [&] { ST::string s; s.set(w, m); return s; });
            route<char>("string.set(u32string_view)", mn, e.ok8, e.e8, [&] { ST::string s; s.set(std::u32string_view(p, n), m); return s; });
            route<char>("string.set(wstring_view)", mn, e.ok8, e.e8, [&] { ST::string s; s.set(std::wstring_view(pw, n), m); return s; });
            route<char>("string::from_std_string(u32string)", mn, e.ok8, e.e8, [&] { return ST::string::from_std_string(u, m); });
            route<char>("string::from_std_string(wstring)", mn, e.ok8, e.e8, [&] { return ST::string::from_std_string(w, m); });
            route<char>("string::from_std_wstring", mn, e.ok8, e.e8, [&] { return ST::string::from_std_wstring(w, m); });
            route<char>("string::from_std_string(u32view)", mn, e.ok8, e.e8, [&] { return ST::string::from_std_string(std::u32string_view(p, n), m); });
            route<char>("string::from_std_string(wview)", mn, e.ok8, e.e8, [&] { return ST::string::from_std_string(std::wstring_view(pw, n), m); });
            route<char>("string::from_std_wstring(view)", mn, e.ok8, e.e8, [&] { return ST::string::from_std_wstring(std::wstring_view(pw, n), m); });
        }
        if (mi == 1 && !ref::has_nonscalar(d) && extra_selected("utf32(substitute)->revalidate", mn)) {
            g_route = "utf32(substitute)->revalidate";
            try {
                ST::char_buffer r8 = ST::utf32_to_utf8(p, n, ST::substitute_invalid);
                ST::utf16_buffer r16 = ST::utf32_to_utf16(p, n, ST::substitute_invalid);
                vrt::evals(2);
                try { (void)ST::string(r8, ST::check_validity); (void)ST::utf16_to_utf32(r16, ST::check_validity); }
                catch (const ST::unicode_error &) { fail("repaired-output-fails-check_validity", ""); }
            } catch (const ST::unicode_error &e) { fail("substitute_invalid-threw", e.what()); }
        }
    }
    if (HAVE_EXPECT_DEFAULT || !ref::has_bad(d)) {
        const int di = EXPECT_DEFAULT == ST::assume_valid ? 0 : EXPECT_DEFAULT == ST::substitute_invalid ? 1 : 2;
        const Expect &e = ex(di == 2);
        const char *mn = "default";
        route<char>("utf32_to_utf8", mn, e.ok8, e.e8, [&] { return ST::utf32_to_utf8(p, n); });
        route<char16_t>("utf32_to_utf16", mn, e.ok16, e.e16, [&] { return ST::utf32_to_utf16(p, n); });
        route<char>("utf32_to_latin_1", mn, e.okL, e.eL, [&] { return ST::utf32_to_latin_1(p, n); });
        route<char>("wchar_to_utf8", mn, e.ok8, e.e8, [&] { return ST::wchar_to_utf8(pw, n); });
        route<char>("string(const char32_t*,n)", mn, e.ok8, e.e8, [&] { return ST::string(p, n); });
        route<char>("string(const wchar_t*,n)", mn, e.ok8, e.e8, [&] { return ST::string(pw, n); });
        if (full) {
            route<char16_t>("wchar_to_utf16", mn, e.ok16, e.e16, [&] { return ST::wchar_to_utf16(pw, n); });
            route<char>("wchar_to_latin_1", mn, e.okL, e.eL, [&] { return ST::wchar_to_latin_1(pw, n); });
            route<char>("string=utf32_buffer", mn, e.ok8, e.e8, [&] { ST::string s; s = ub; return s; });
            route<char>("string=wchar_buffer", mn, e.ok8, e.e8, [&] { ST::string s; s = wb; return s; });
            route<char>("string=u32string", mn, e.ok8, e.e8, [&] { ST::string s; s = u; return s; });
            route<char>("string=wstring", mn, e.ok8, e.e8, [&] { ST::string s; s = w; return s; });
            route<char>("string=u32string_view", mn, e.ok8, e.e8, [&] { ST::string s; s = std::u32string_view(p, n); return s; });
            route<char>("string=wstring_view", mn, e.ok8, e.e8, [&] { ST::string s; s = std::wstring_view(pw, n); return s; });
            route<char>("string::from_utf32", mn, e.ok8, e.e8, [&] { return ST::string::from_utf32(p, n); });
            route<char>("string::from_wchar", mn, e.ok8, e.e8, [&] { return ST::string::from_wchar(pw, n); });
            if (u.find(U'\0') == S32::npos) {
                Source<char32_t> z(u, true);
                Source<wchar_t> zw(w, true);
                route<char>("string(const char32_t*)", mn, e.ok8, e.e8, [&] { return ST::string(z.data()); });
                route<char>("string(const wchar_t*)", mn, e.ok8, e.e8, [&] { return ST::string(zw.data()); });
                route<char>("string=const char32_t*", mn, e.ok8, e.e8, [&] { ST::string s("x"); s = z.data(); return s; });
                route<char>("string=const wchar_t*", mn, e.ok8, e.e8, [&] { ST::string s("x"); s = zw.data(); return s; });
                route<char>("string::from_utf32(cstr)", mn, e.ok8, e.e8, [&] { return ST::string::from_utf32(z.data()); });
                route<char>("string::from_wchar(cstr)", mn, e.ok8, e.e8, [&] { return ST::string::from_wchar(zw.data()); });
            }
        }
    }
    {
        const Expect &e = ex(false);
        route<char>("operator\"\"_st(char32_t)", "n/a", e.ok8, e.e8, [&] { return ST::literals::operator""_st(p, n); });
        route<char>("operator\"\"_st(wchar_t)", "n/a", e.ok8, e.e8, [&] { return ST::literals::operator""_st(pw, n); });
        route<char32_t>("operator\"\"_stbuf(char32_t)", "n/a", true, u, [&] { return ST::literals::operator""_stbuf(p, n); });
        route<wchar_t>("operator\"\"_stbuf(wchar_t)", "n/a", true, w, [&] { return ST::literals::operator""_stbuf(pw, n); });
    }
}

// ---------------------------------------------------------------- Latin-1 source
static void from_latin1(const Input &in)
{
    set_input(in);
    const S &b = in.u8;
    const ref::Decoded d = ref::decode_latin1(reinterpret_cast<const unsigned char *>(b.data()), b.size());
    const Expect e = expect(d, true);
    Source<char> x(b);
    const char *p = x.data();
    const size_t n = b.size();
    BufSource<char> cbs(b);
    const ST::char_buffer &cb = cbs.get();
    const char *mn = "n/a";
    route<char>("latin_1_to_utf8", mn, true, e.e8, [&] { return ST::latin_1_to_utf8(p, n); });
    route<char16_t>("latin_1_to_utf16", mn, true, e.e16, [&] { return ST::latin_1_to_utf16(p, n); });
    route<char32_t>("latin_1_to_utf32", mn, true, e.e32, [&] { return ST::latin_1_to_utf32(p, n); });
    route<wchar_t>("latin_1_to_wchar", mn, true, to_w(e.e32), [&] { return ST::latin_1_to_wchar(p, n); });
    route<char>("latin_1_to_utf8(buffer)", mn, true, e.e8, [&] { return ST::latin_1_to_utf8(cb); });
    route<char16_t>("latin_1_to_utf16(buffer)", mn, true, e.e16, [&] { return ST::latin_1_to_utf16(cb); });
    route<char32_t>("latin_1_to_utf32(buffer)", mn, true, e.e32, [&] { return ST::latin_1_to_utf32(cb); });
    route<wchar_t>("latin_1_to_wchar(buffer)", mn, true, to_w(e.e32), [&] { return ST::latin_1_to_wchar(cb); });
    route<char>("string::from_latin_1", mn, true, e.e8, [&] { return ST::string::from_latin_1(p, n); });
    route<char>("string::from_latin_1(buffer)", mn, true, e.e8, [&] { return ST::string::from_latin_1(cb); });
    if (b.find('\0') == S::npos) {
        Source<char> z(b, true);
        route<char>("string::from_latin_1(cstr)", mn, true, e.e8, [&] { return ST::string::from_latin_1(z.data()); });
    }
    // ... and back: every byte string taken as Latin-1 survives any UTF form
    for (int mi = 0; mi < 3; ++mi) {
        const ST::utf_validation_t m = MODES[mi];
        const char *mm = mname(mi);
        route<char>("latin1->utf8->latin1", mm, true, b, [&] { return ST::utf8_to_latin_1(ST::latin_1_to_utf8(p, n), m, false); });
        route<char>("latin1->utf16->latin1", mm, true, b, [&] { return ST::utf16_to_latin_1(ST::latin_1_to_utf16(p, n), m, false); });
        route<char>("latin1->utf32->latin1", mm, true, b, [&] { return ST::utf32_to_latin_1(ST::latin_1_to_utf32(p, n), m, false); });
        route<char>("latin1->wchar->latin1", mm, true, b, [&] { return ST::wchar_to_latin_1(ST::latin_1_to_wchar(p, n), m, false); });
    }
    route<char>("latin1->string->latin1", mn, true, b, [&] { return ST::string::from_latin_1(p, n).to_latin_1(false); });
}

// ---------------------------------------------------------------- drivers
static void from_scalars(const std::vector<unsigned long> &cps, bool full)
{
    Input a{8, {}, {}, {}}, b{16, {}, {}, {}}, c{32, {}, {}, {}};
    for (unsigned long cp : cps) {
        ref::enc_utf8(a.u8, cp);
        ref::enc_utf16(b.u16, cp);
        c.u32 += static_cast<char32_t>(cp);
    }
    from_utf8(a, full);
    from_utf16(b, full);
    from_utf32(c, full);
    if (full) {
        // chains return the original units
        set_input(a);
        const S &u8 = a.u8;
        route<char>("chain 8->16->32->8", "check_validity", true, u8, [&] {
            return ST::utf32_to_utf8(ST::utf16_to_utf32(ST::utf8_to_utf16(u8.data(), u8.size(), ST::check_validity), ST::check_validity), ST::check_validity); });
        route<char>("chain 8->32->16->8", "check_validity", true, u8, [&] {
            return ST::utf16_to_utf8(ST::utf32_to_utf16(ST::utf8_to_utf32(u8.data(), u8.size(), ST::check_validity), ST::check_validity), ST::check_validity); });
        route<char>("chain 8->wchar->16->string->utf32->8", "assume_valid", true, u8, [&] {
            ST::string s = ST::string::from_utf16(ST::wchar_to_utf16(ST::utf8_to_wchar(u8.data(), u8.size(), ST::assume_valid), ST::assume_valid), ST::assume_valid);
            return ST::utf32_to_utf8(s.to_utf32(), ST::assume_valid); });
    }
}

static std::vector<unsigned long> neighbours = {0x41, 0xE9, 0x20AC, 0x1F600};

// a single character appended / prepended through every operator+ / operator+= spelling: the code point converted to UTF-8
// (char is one Latin-1 unit, char16_t one BMP unit, char32_t and wchar_t one code point)
static void char_concatenation(unsigned long c)
{
    Input in{32, {}, {}, S32(1, static_cast<char32_t>(c))};
    set_input(in);
    S enc;
    ref::enc_utf8(enc, c);
    const S base = "ab\xC3\xA9", longbase = "a base that is long enough to live on the heap \xE2\x82\xAC";
    for (const S &b : {base, longbase}) {
        const ST::string bs = ST::string::from_validated(b.data(), b.size());
        route<char>("string+char32_t", "n/a", true, b + enc, [&] { return bs + static_cast<char32_t>(c); });
        route<char>("char32_t+string", "n/a", true, enc + b, [&] { return static_cast<char32_t>(c) + bs; });
        route<char>("string+=char32_t", "n/a", true, b + enc, [&] { ST::string s(bs); s += static_cast<char32_t>(c); return s; });
        route<char>("string+wchar_t", "n/a", true, b + enc, [&] { return bs + static_cast<wchar_t>(c); });
        route<char>("wchar_t+string", "n/a", true, enc + b, [&] { return static_cast<wchar_t>(c) + bs; });
        route<char>("string+=wchar_t", "n/a", true, b + enc, [&] { ST::string s(bs); s += static_cast<wchar_t>(c); return s; });
        if (c <= 0xFFFF) {
            route<char>("string+char16_t", "n/a", true, b + enc, [&] { return bs + static_cast<char16_t>(c); });
            route<char>("char16_t+string", "n/a", true, enc + b, [&] { return static_cast<char16_t>(c) + bs; });
            route<char>("string+=char16_t", "n/a", true, b + enc, [&] { ST::string s(bs); s += static_cast<char16_t>(c); return s; });
        }
        if (c <= 0xFF) {
            route<char>("string+char", "n/a", true, b + enc, [&] { return bs + static_cast<char>(c); });
            route<char>("char+string", "n/a", true, enc + b, [&] { return static_cast<char>(c) + bs; });
            route<char>("string+=char", "n/a", true, b + enc, [&] { ST::string s(bs); s += static_cast<char>(c); return s; });
        }
    }
    vrt::count("char_concatenations");
}

static void scalar_contexts(unsigned long c, bool full)
{
    char_concatenation(c);
    from_scalars({c}, full);
    for (unsigned long nb : neighbours) {
        from_scalars({nb, c}, false);
        from_scalars({c, nb}, false);
        from_scalars({nb, c, nb}, false);
    }
    vrt::count("scalars");
    vrt::count(c < 0x80 ? "width.1" : c < 0x800 ? "width.2" : c < 0x10000 ? "width.3" : "width.4");
}

static unsigned long nth_scalar(uint64_t i) { return i < 0xD800 ? i : i + 0x800; }    // 0 .. 1,112,063
static const uint64_t NSCALARS = 0x110000 - 0x800;

static unsigned long random_scalar(Rng &r)
{
    switch (r.below(6)) {
    case 0: return r.below(0x80);
    case 1: return 0x80 + r.below(0x780);
    case 2: { unsigned long c = 0x800 + r.below(0xF800); return (c >= 0xD800 && c <= 0xDFFF) ? 0xFFFD : c; }
    case 3: return 0x10000 + r.below(0x100000);
    case 4: { static const unsigned long edge[] = {0, 0x7F, 0x80, 0x7FF, 0x800, 0xD7FF, 0xE000, 0xFFFD, 0xFFFF, 0x10000, 0x10FFFF, 0xFEFF, 0xFFFE}; return r.pick(edge); }
    default: return nth_scalar(r.below(NSCALARS));
    }
}

static void scale_phase(bool wellformed, uint64_t quick_cases);
namespace pinned {
static void same_storage_phase(bool wellformed, uint64_t quick_passes);
static void alignment_phase(bool wellformed);
static void soak_phase(bool wellformed);
}

static void c01_body()
{
    PROP = "C01";
    vrt::require("scalars", 10000);
    vrt::require("width.1", 50);
    vrt::require("width.2", 50);
    vrt::require("width.3", 1000);
    vrt::require("width.4", 1000);
    vrt::require("sequences", 1000);
    vrt::require("latin1.strings", 256);
    vrt::require("char_concatenations", 300);
    if (vrt::thorough()) {
        vrt::note("every one of the 1,112,064 Unicode scalar values in 13 contexts ([c], and [n c], [c n], [n c n] for n in U+0041, U+00E9, U+20AC, U+1F600), through every conversion route and all three modes");
        vrt::phase("all_scalars", NSCALARS, [&](uint64_t i, Rng &) {
            scalar_contexts(nth_scalar(i), i % 64 == 0);
            vrt::distinct(vrt::fnv_u64(i, 71));
        });
    } else {
        // every scalar within +-32 of each width boundary, a stride-61 sample of the rest
        std::vector<unsigned long> pick;
        for (unsigned long edge : {0x0ul, 0x80ul, 0x800ul, 0xD800ul, 0xE000ul, 0x10000ul, 0x110000ul})
            for (long dlt = -32; dlt < 32; ++dlt) {
                long c = static_cast<long>(edge) + dlt;
                if (c >= 0 && ref::is_scalar(static_cast<unsigned long>(c))) pick.push_back(static_cast<unsigned long>(c));
            }
        for (uint64_t i = vrt::opt().seed % 61; i < NSCALARS; i += 61) pick.push_back(nth_scalar(i));
        vrt::note(sfmt("%zu scalars (all within +-32 of each encoding-width boundary + a stride-61 sample of all others, offset by the seed) in 13 contexts", pick.size()));
        vrt::phase("scalars", pick.size(), [&](uint64_t i, Rng &) {
            scalar_contexts(pick[i], i % 16 == 0);
            vrt::distinct(vrt::fnv_u64(pick[i], 71));
            if (vrt::want_sample("scalars") && pick[i] > 0x10000) vrt::sample("scalars", sfmt("U+%04lX alone and between U+0041/U+00E9/U+20AC/U+1F600 neighbours: all routes x 3 modes", pick[i]));
        });
    }
    vrt::phase("sequences", vrt::tier_count(30000, 2000000), [&](uint64_t, Rng &r) {
        size_t len = r.chance(1, 4) ? gen::pick_len(r) % 41 : r.below(12);
        std::vector<unsigned long> cps;
        for (size_t k = 0; k < len; ++k) cps.push_back(random_scalar(r));
        from_scalars(cps, r.chance(1, 3));
        vrt::count("sequences");
        vrt::distinct(vrt::fnv1a(cps.data(), cps.size() * sizeof(unsigned long), 72));
        if (vrt::want_sample("sequences") && len > 4) { S s; for (auto c : cps) s += sfmt("U+%04lX ", c); vrt::sample("sequences", s); }
    });
    // homogeneous runs of every length 0..72 (1-, 2-, 3- and 4-byte characters) followed by one character of every width
    // class and a short tail: what a word-at-a-time / block-wise fast path or an alignment-dependent loop would get wrong
    {
        static const unsigned long runch[] = {0x61, 0xE9, 0x20AC, 0x1F600};
        static const unsigned long mid[] = {0x00, 0x7F, 0x80, 0xE9, 0x7FF, 0x800, 0x20AC, 0xD7FF, 0xE000, 0xFFFF, 0x10000, 0x1F600, 0x10FFFF};
        static const size_t tails[] = {0, 1, 7, 8, 9};
        const size_t nmid = sizeof(mid) / sizeof(mid[0]);
        vrt::require("runs", 1000);
        vrt::phase("runs", 73 * 4, [&](uint64_t i, Rng &) {
            const size_t n = i / 4;
            const unsigned long rc = runch[i % 4];
            for (size_t m = 0; m < nmid; ++m)
                for (size_t t : tails) {
                    std::vector<unsigned long> cps(n, rc);
                    cps.push_back(mid[m]);
                    cps.insert(cps.end(), t, rc);
                    from_scalars(cps, (n + m + t) % 8 == 0);
                    vrt::count("runs");
                    vrt::distinct(vrt::fnv1a(cps.data(), cps.size() * sizeof(unsigned long), 74));
                }
            if (vrt::want_sample("runs") && n == 8) vrt::sample("runs", sfmt("%zu x U+%04lX, then each of 13 boundary scalars, then 0/1/7/8/9 x U+%04lX: all routes x 3 modes", n, rc, rc));
        });
    }
    // all 256 Latin-1 bytes at every position of strings of length 1..20 (around the SSO limit)
    vrt::phase("latin1", 256, [&](uint64_t byte, Rng &r) {
        for (size_t len = 1; len <= 20; ++len) {
            for (size_t pos = 0; pos < len; ++pos) {
                if (!vrt::thorough() && !(pos == 0 || pos == len - 1 || pos == len / 2)) continue;
                Input in{1, S(len, 'a'), {}, {}};
                for (size_t k = 0; k < len; ++k) in.u8[k] = static_cast<char>(r.below(256));
                in.u8[pos] = static_cast<char>(byte);
                from_latin1(in);
                vrt::count("latin1.strings");
                vrt::distinct(vrt::fnv1a(in.u8.data(), in.u8.size(), 73));
            }
        }
    });
    scale_phase(true, 700);
    pinned::same_storage_phase(true, 10);
    pinned::alignment_phase(true);
    pinned::soak_phase(true);
}

// ---- malformed inputs ----------------------------------------------------
static const unsigned char A8[] = {0x00, 0x41, 0x7F, 0x80, 0xBF, 0xC0, 0xC2, 0xDF, 0xE0, 0xED, 0xEF, 0xF0, 0xF4, 0xF7, 0xF8, 0xFF, 0xA0, 0x90, 0x8F, 0x9F};
static const char16_t A16[] = {0x0041, 0xD7FF, 0xD800, 0xDBFF, 0xDC00, 0xDFFF, 0xE000, 0xFFFF, 0x0000};
static const char32_t A32[] = {0x41, 0x7F, 0x80, 0xFF, 0x100, 0xD7FF, 0xD800, 0xDFFF, 0xFFFF, 0x10000, 0x10FFFF, 0x110000, 0x7FFFFFFF, 0x80000000u, 0xFFFFFFFFu, 0};

template <typename T, size_t N>
static std::basic_string<T> nth_over(uint64_t i, const T (&alpha)[N], size_t maxlen)
{
    std::basic_string<T> out;
    uint64_t block = 1;
    for (size_t len = 0; len <= maxlen; ++len) {
        if (i < block) {
            out.assign(len, alpha[0]);
            for (size_t p = len; p-- > 0;) { out[p] = alpha[i % N]; i /= N; }
            return out;
        }
        i -= block;
        block *= N;
    }
    return out;
}

static void classify(const ref::Decoded &d)
{
    vrt::count(ref::has_bad(d) ? "inputs.with_bad_units" : "inputs.acceptable");
    if (ref::has_nonscalar(d)) vrt::count("inputs.with_tolerated_forms");
}

static void run8(const S &s, bool full)
{
    Input in{8, s, {}, {}};
    from_utf8(in, full);
    classify(ref::decode_utf8(s));
    vrt::count("inputs.utf8");
    vrt::distinct(vrt::fnv1a(s.data(), s.size(), 81));
}
static void run16(const S16 &s, bool full)
{
    Input in{16, {}, s, {}};
    from_utf16(in, full);
    classify(ref::decode_utf16(s.data(), s.size()));
    vrt::count("inputs.utf16");
    vrt::distinct(vrt::fnv1a(s.data(), s.size() * 2, 82));
}
static void run32(const S32 &s, bool full)
{
    Input in{32, {}, {}, s};
    from_utf32(in, full);
    classify(ref::decode_utf32(s.data(), s.size()));
    vrt::count("inputs.utf32");
    vrt::distinct(vrt::fnv1a(s.data(), s.size() * 4, 83));
}

// valid text of each width class to embed malformed pieces in
static const char *const CTX8[] = {"", "a", "\xC3\xA9", "\xE2\x82\xAC", "\xF0\x9F\x98\x80", "abcdefghijklmnop"};

static void malformed_phases(bool safety_only)
{
    const size_t L8 = vrt::thorough() ? 4 : 3, L16 = vrt::thorough() ? 5 : 4, L32 = vrt::thorough() ? 4 : 3;
    vrt::note(sfmt("exhaustive: all byte strings of length <= %zu over a 20-byte alphabet hitting every decoder branch, all 16-bit strings of length <= %zu over 9 units, all 32-bit strings of length <= %zu over 16 values; "
                   "each alone and (for UTF-8, length <= 3) embedded at the start/middle/end of valid text of every width class", L8, L16, L32));
    uint64_t n8 = 0, n16 = 0, n32 = 0;
    { uint64_t b = 1; for (size_t l = 0; l <= L8; ++l) { n8 += b; b *= 20; } }
    { uint64_t b = 1; for (size_t l = 0; l <= L16; ++l) { n16 += b; b *= 9; } }
    { uint64_t b = 1; for (size_t l = 0; l <= L32; ++l) { n32 += b; b *= 16; } }
    vrt::phase("small_utf8", n8, [&](uint64_t i, Rng &) {
        std::basic_string<unsigned char> u = nth_over(i, A8, L8);
        S s(u.begin(), u.end());
        run8(s, i % 8 == 0);
        if (s.size() <= 3 && !s.empty()) {
            // isolated without swallowing neighbours: at the start / middle / end of valid text
            for (const char *c : CTX8) {
                if (!*c) continue;
                run8(S(c) + s, false);
                run8(s + S(c), false);
                run8(S(c) + s + S(c), false);
            }
            vrt::count("inputs.embedded_in_valid_text");
        }
        if (vrt::want_sample("small_utf8") && s.size() == L8 && ref::has_bad(ref::decode_utf8(s))) vrt::sample("small_utf8", "bytes " + showu(s) + " alone and embedded in valid text, all routes x 3 modes");
    });
    vrt::phase("small_utf16", n16, [&](uint64_t i, Rng &) {
        S16 s = nth_over(i, A16, L16);
        run16(s, i % 8 == 0);
        if (s.size() <= 3 && !s.empty()) {
            run16(u"a" + s, false); run16(s + u"€", false); run16(S16(u"\U0001F600") + s + u"z", false);
            vrt::count("inputs.embedded_in_valid_text");
        }
        if (vrt::want_sample("small_utf16") && s.size() == L16 && ref::has_bad(ref::decode_utf16(s.data(), s.size()))) vrt::sample("small_utf16", "units " + showu(s));
    });
    vrt::phase("small_utf32", n32, [&](uint64_t i, Rng &) {
        S32 s = nth_over(i, A32, L32);
        run32(s, i % 8 == 0);
        if (vrt::want_sample("small_utf32") && s.size() == L32 && ref::has_bad(ref::decode_utf32(s.data(), s.size()))) vrt::sample("small_utf32", "units " + showu(s));
    });
    // a malformed / tolerated piece after a homogeneous run of every length (block-wise fast paths, alignment), with a short tail
    {
        static const char *const run8s[] = {"a", "\xC3\xA9", "\xE2\x82\xAC", "\xF0\x9F\x98\x80"};
        static const S bad8[] = {S("\x80"), S("\xBF\x80"), S("\xC3"), S("\xE2\x82"), S("\xF0\x9F\x98"), S("\xC0\x80"), S("\xE0\x80\x80"), S("\xED\xA0\x80"),
                                 S("\xF4\x90\x80\x80"), S("\xF7\xBF\xBF\xBF"), S("\xF8"), S("\xFF"), S("\0", 1)};
        static const S16 bad16[] = {S16(1, 0xD800), S16(1, 0xDFFF), S16({0xDC00, 0xD800}), S16({0xD800, 0xD800}), S16({0xD83D, 0x0041})};
        static const S32 bad32[] = {S32(1, 0x110000), S32(1, 0xD800), S32(1, 0xFFFFFFFFu), S32(1, 0x10FFFF)};
        const size_t maxrun = vrt::thorough() ? 72 : 40;
        vrt::require("inputs.after_runs", 1000);
        vrt::phase("after_runs", (maxrun + 1) * 4, [&](uint64_t i, Rng &) {
            const size_t n = i / 4, kind = i % 4;
            S r8; S16 r16; S32 r32;
            for (size_t k = 0; k < n; ++k) {
                r8 += run8s[kind];
                if (kind == 3) { r16 += char16_t(0xD83D); r16 += char16_t(0xDE00); } else r16 += kind == 0 ? u'a' : kind == 1 ? char16_t(0xE9) : char16_t(0x20AC);
                r32 += kind == 0 ? U'a' : kind == 1 ? char32_t(0xE9) : kind == 2 ? char32_t(0x20AC) : char32_t(0x1F600);
            }
            for (size_t t : {size_t(0), size_t(1), size_t(8)}) {
                for (const S &b : bad8) { run8(r8 + b + S(t, 'z'), false); vrt::count("inputs.after_runs"); }
                if (kind == 0 || kind == 3) {
                    for (const S16 &b : bad16) { run16(r16 + b + S16(t, u'z'), false); vrt::count("inputs.after_runs"); }
                    for (const S32 &b : bad32) { run32(r32 + b + S32(t, U'z'), false); vrt::count("inputs.after_runs"); }
                }
            }
        });
    }
    // well-formed text cut at every unit; seeded mutation of valid text
    vrt::phase("cut_and_mutate", vrt::tier_count(20000, 250000), [&](uint64_t, Rng &r) {
        std::vector<unsigned long> cps;
        size_t len = 1 + r.below(r.chance(1, 5) ? 30 : 8);
        for (size_t k = 0; k < len; ++k) cps.push_back(random_scalar(r));
        S u8; S16 u16; S32 u32;
        for (auto c : cps) { ref::enc_utf8(u8, c); ref::enc_utf16(u16, c); u32 += static_cast<char32_t>(c); }
        bool full = r.chance(1, 6);
        switch (r.below(4)) {
        case 0:         // every truncation point
            for (size_t k = 0; k <= u8.size(); ++k) run8(u8.substr(0, k), false);
            for (size_t k = 0; k <= u16.size(); ++k) run16(u16.substr(0, k), false);
            vrt::count("inputs.truncations");
            break;
        case 1: {       // cut from the front (starts with continuation bytes / low surrogate)
            size_t k8 = r.below(u8.size() + 1), k16 = r.below(u16.size() + 1);
            run8(u8.substr(k8), full); run16(u16.substr(k16), full);
            break;
        }
        default: {      // flip / insert / delete
            for (int rep = static_cast<int>(1 + r.below(3)); rep-- > 0;) {
                size_t p8 = r.below(u8.size() + 1), p16 = r.below(u16.size() + 1), p32 = r.below(u32.size() + 1);
                switch (r.below(3)) {
                case 0: if (p8 < u8.size()) u8[p8] = static_cast<char>(r.chance(1, 2) ? r.pick(A8) : r.below(256));
                        if (p16 < u16.size()) u16[p16] = r.chance(1, 2) ? r.pick(A16) : static_cast<char16_t>(0xD800 + r.below(0x800));
                        if (p32 < u32.size()) u32[p32] = r.chance(1, 2) ? r.pick(A32) : static_cast<char32_t>(r.next());
                        break;
                case 1: u8.insert(p8, 1, static_cast<char>(r.pick(A8))); u16.insert(p16, 1, r.pick(A16)); u32.insert(p32, 1, r.pick(A32)); break;
                default: if (p8 < u8.size()) u8.erase(p8, 1); if (p16 < u16.size()) u16.erase(p16, 1); if (p32 < u32.size()) u32.erase(p32, 1); break;
                }
            }
            run8(u8, full); run16(u16, full); run32(u32, full);
            break;
        }
        }
    });
    if (safety_only) {
        // C03 extras: pure garbage of length 0..64, empty, (nullptr,0), a few long inputs
        vrt::phase("garbage", vrt::tier_count(20000, 400000), [&](uint64_t, Rng &r) {
            size_t len = r.below(65);
            S s = gen::any_bytes(r, len);
            S16 t(len, u'\0');
            S32 u(len, U'\0');
            for (auto &c : t) c = static_cast<char16_t>(r.chance(1, 3) ? 0xD800 + r.below(0x800) : r.below(0x10000));
            for (auto &c : u) c = static_cast<char32_t>(r.chance(1, 3) ? r.below(0x110000) : r.next());
            bool full = r.chance(1, 5);
            run8(s, full); run16(t, full); run32(u, full);
            // high-density lead bytes: every lookahead ends at the end of the input
            S leads = gen::bytes_over(r, 1 + r.below(6), S("\xC2\xE0\xF0\xF4\x80\xBF", 6));
            run8(leads, false);
            vrt::count("inputs.garbage");
        });
        vrt::phase("null_and_empty", 1, [&](uint64_t, Rng &) {
            Input e8{8, {}, {}, {}}, e16{16, {}, {}, {}}, e32{32, {}, {}, {}}, e1{1, {}, {}, {}};
            from_utf8(e8, true); from_utf16(e16, true); from_utf32(e32, true); from_latin1(e1);
            set_input(e8);
            for (int mi = 0; mi < 3; ++mi) {
                const ST::utf_validation_t m = MODES[mi];
                const char *mn = mname(mi);
                const char *n8 = nullptr; const char16_t *n16 = nullptr; const char32_t *n32 = nullptr; const wchar_t *nw = nullptr;
                route<char16_t>("utf8_to_utf16(null,0)", mn, true, S16(), [&] { return ST::utf8_to_utf16(n8, 0, m); });
                route<char32_t>("utf8_to_utf32(null,0)", mn, true, S32(), [&] { return ST::utf8_to_utf32(n8, 0, m); });
                route<wchar_t>("utf8_to_wchar(null,0)", mn, true, SW(), [&] { return ST::utf8_to_wchar(n8, 0, m); });
                route<char>("utf8_to_latin_1(null,0)", mn, true, S(), [&] { return ST::utf8_to_latin_1(n8, 0, m); });
                route<char>("utf16_to_utf8(null,0)", mn, true, S(), [&] { return ST::utf16_to_utf8(n16, 0, m); });
                route<char32_t>("utf16_to_utf32(null,0)", mn, true, S32(), [&] { return ST::utf16_to_utf32(n16, 0, m); });
                route<wchar_t>("utf16_to_wchar(null,0)", mn, true, SW(), [&] { return ST::utf16_to_wchar(n16, 0, m); });
                route<char>("utf16_to_latin_1(null,0)", mn, true, S(), [&] { return ST::utf16_to_latin_1(n16, 0, m); });
                route<char>("utf32_to_utf8(null,0)", mn, true, S(), [&] { return ST::utf32_to_utf8(n32, 0, m); });
                route<char16_t>("utf32_to_utf16(null,0)", mn, true, S16(), [&] { return ST::utf32_to_utf16(n32, 0, m); });
                route<char>("utf32_to_latin_1(null,0)", mn, true, S(), [&] { return ST::utf32_to_latin_1(n32, 0, m); });
                route<char>("wchar_to_utf8(null,0)", mn, true, S(), [&] { return ST::wchar_to_utf8(nw, 0, m); });
                route<char>("string(null,0)", mn, true, S(), [&] { return ST::string(n8, 0, m); });
                route<char>("string(null16,0)", mn, true, S(), [&] { return ST::string(n16, 0, m); });
                route<char>("string(null32,0)", mn, true, S(), [&] { return ST::string(n32, 0, m); });
                route<char>("string(nullw,0)", mn, true, S(), [&] { return ST::string(nw, 0, m); });
                route<char>("string(null)", mn, true, S(), [&] { return ST::string(n8, ST_AUTO_SIZE, m); });
                route<char>("string::from_utf8(null)", mn, true, S(), [&] { return ST::string::from_utf8(n8, ST_AUTO_SIZE, m); });
                route<char>("string::from_utf16(null)", mn, true, S(), [&] { return ST::string::from_utf16(n16, ST_AUTO_SIZE, m); });
                route<char>("string::from_utf32(null)", mn, true, S(), [&] { return ST::string::from_utf32(n32, ST_AUTO_SIZE, m); });
                route<char>("string::from_wchar(null)", mn, true, S(), [&] { return ST::string::from_wchar(nw, ST_AUTO_SIZE, m); });
                // null pointers with the size left to the library, through every set() / operator= / constructor spelling
                const char8_t *nu8 = nullptr;
                route<char>("string.set(null8)", mn, true, S(), [&] { ST::string s("old"); s.set(n8, ST_AUTO_SIZE, m); return s; });
                route<char>("string.set(nullu8)", mn, true, S(), [&] { ST::string s(LONG_OLD); s.set(nu8, ST_AUTO_SIZE, m); return s; });
                route<char>("string.set(null16)", mn, true, S(), [&] { ST::string s("old"); s.set(n16, ST_AUTO_SIZE, m); return s; });
                route<char>("string.set(null32)", mn, true, S(), [&] { ST::string s(LONG_OLD); s.set(n32, ST_AUTO_SIZE, m); return s; });
                route<char>("string.set(nullw)", mn, true, S(), [&] { ST::string s("old"); s.set(nw, ST_AUTO_SIZE, m); return s; });
                route<char>("string(null16)", mn, true, S(), [&] { return ST::string(n16, ST_AUTO_SIZE, m); });
                route<char>("string(null32)", mn, true, S(), [&] { return ST::string(n32, ST_AUTO_SIZE, m); });
                route<char>("string(nullw)", mn, true, S(), [&] { return ST::string(nw, ST_AUTO_SIZE, m); });
                route<char>("string(nullu8)", mn, true, S(), [&] { return ST::string(nu8, ST_AUTO_SIZE, m); });
                if (mi == 0) {
                    route<char>("string=null8", "default", true, S(), [&] { ST::string s("old"); s = n8; return s; });
                    route<char>("string=nullu8", "default", true, S(), [&] { ST::string s("old"); s = nu8; return s; });
                    route<char>("string=null16", "default", true, S(), [&] { ST::string s(LONG_OLD); s = n16; return s; });
                    route<char>("string=null32", "default", true, S(), [&] { ST::string s("old"); s = n32; return s; });
                    route<char>("string=nullw", "default", true, S(), [&] { ST::string s(LONG_OLD); s = nw; return s; });
                    route<char>("string+=null8", "default", true, S("old"), [&] { ST::string s("old"); s += n8; return s; });
                    route<char>("string+=null16", "default", true, S("old"), [&] { ST::string s("old"); s += n16; return s; });
                    route<char>("string+=null32", "default", true, S("old"), [&] { ST::string s("old"); s += n32; return s; });
                    route<char>("string+=nullw", "default", true, S("old"), [&] { ST::string s("old"); s += nw; return s; });
                    route<char>("string+null16", "default", true, S("old"), [&] { return ST::string("old") + n16; });
                    route<char>("null32+string", "default", true, S("old"), [&] { return n32 + ST::string("old"); });
                }
            }
            {
                const char *n8 = nullptr;
                route<char>("latin_1_to_utf8(null,0)", "n/a", true, S(), [&] { return ST::latin_1_to_utf8(n8, 0); });
                route<char16_t>("latin_1_to_utf16(null,0)", "n/a", true, S16(), [&] { return ST::latin_1_to_utf16(n8, 0); });
                route<char32_t>("latin_1_to_utf32(null,0)", "n/a", true, S32(), [&] { return ST::latin_1_to_utf32(n8, 0); });
                route<wchar_t>("latin_1_to_wchar(null,0)", "n/a", true, SW(), [&] { return ST::latin_1_to_wchar(n8, 0); });
                route<char>("string::from_latin_1(null)", "n/a", true, S(), [&] { return ST::string::from_latin_1(n8); });
            }
            vrt::count("inputs.null_or_empty");
        });
        vrt::phase("long_inputs", vrt::thorough() ? 24 : 6, [&](uint64_t i, Rng &r) {
            size_t len = (i % 3 == 0) ? (1u << 16) : (i % 3 == 1) ? 70000 + r.below(5000) : (vrt::thorough() && i % 6 == 2 ? (1u << 20) : 3000 + r.below(20000));
            std::vector<unsigned long> cps;
            S u8; S16 u16; S32 u32;
            for (size_t k = 0; k < len; ++k) {
                unsigned long c = random_scalar(r);
                ref::enc_utf8(u8, c); ref::enc_utf16(u16, c); u32 += static_cast<char32_t>(c);
            }
            if (i % 2) {            // sprinkle damage
                for (int k = 0; k < 50; ++k) { u8[r.below(u8.size())] = static_cast<char>(r.pick(A8)); u16[r.below(u16.size())] = r.pick(A16); u32[r.below(u32.size())] = r.pick(A32); }
                u8 += "\xF0\x9F"; u16 += static_cast<char16_t>(0xD83D);
            }
            run8(u8, false); run16(u16, false); run32(u32, false);
            Input l1{1, gen::any_bytes(r, len), {}, {}};
            from_latin1(l1);
            vrt::count("inputs.long");
        });
    }
}

// ================================================================ scale phases (C01, C02, C03)
// Inputs of 16 units .. 4 MiB built by concatenation: [run][piece][gap, second piece][run], where the runs are well-formed
// text of one kind (constant ASCII, varied ASCII, one multi-unit character repeated, mixed widths; for the malformed
// properties also a constant ill-formed unit) whose length in units of the SOURCE encoding is chosen so that the piece - a
// character of another width, and for C02/C03 a truncated sequence, a lone surrogate, a bad code point, an overlong or other
// tolerated form - ends on, begins on, straddles or sits 1..9 units beside a multiple q*B of a block size B, measured from the
// beginning of the input, from its end, or from the start of a stretch of ASCII that follows non-ASCII text; the fourth layout
// puts the pieces 0..9 units after the start of the input in front of a run of q*B units.  The case index walks the grid
// B x q; the source encoding and the layout come from a weighted table that is rotated against the grid from pass to pass.
// All inputs go through the same monitors as the short ones (from_scalars / from_latin1 for C01, run8 / run16 / run32 for
// C02 and C03), with the route selection described at `RouteSel`.
namespace big {

template <typename T> using Str = std::basic_string<T>;
enum Enc { E8 = 0, E16, E32, EL };
static const char *const ENC_NAME[] = {"utf8", "utf16", "utf32", "latin1"};
static const char *const KIND_NAME[] = {"beginning", "end", "start_of_ascii_stretch", "start_of_input_before_long_run"};
static const char *const PIECE_NAME[] = {"well_formed_character", "truncated_sequence_or_bad_value", "other_ill_formed_or_tolerated_form"};

static void put(Enc e, S &out, unsigned long cp) { if (e == EL) out += static_cast<char>(cp); else ref::enc_utf8(out, cp); }
static void put(Enc, S16 &out, unsigned long cp) { ref::enc_utf16(out, cp); }
static void put(Enc, S32 &out, unsigned long cp) { out += static_cast<char32_t>(cp); }
template <typename T> static Str<T> ch(Enc e, unsigned long cp) { Str<T> s; put(e, s, cp); return s; }

template <typename T> struct Bg {
    std::vector<Str<T>> chars;      // one entry: that character repeated; several: drawn at random
    bool ascii = false;             // every unit is below 0x80
    const char *cls = "";
};

// cls: 0 constant ASCII, 1 varied ASCII, 2 one non-ASCII character repeated, 3 mixed widths, 4 one ill-formed unit repeated
template <typename T> static Bg<T> background(Rng &r, Enc e, unsigned cls)
{
    Bg<T> b;
    static const unsigned long hom[] = {0xE9, 0xFF, 0x80, 0x7FF, 0x100, 0x20AC, 0x800, 0xFFFF, 0xD7FF, 0xE000, 0x1F600, 0x10000, 0x10FFFF};
    static const unsigned long homL[] = {0xFF, 0xFF, 0xE9, 0x80, 0xA0, 0xC4};
    static const unsigned long mix[] = {0x61, 0x7A, 0x20, 0x41, 0xE9, 0x7FF, 0x80, 0x20AC, 0x800, 0xFFFF, 0x1F600, 0x10FFFF};
    switch (cls) {
    case 0: b.chars.push_back(ch<T>(e, static_cast<unsigned char>("ax _0"[r.below(5)]))); b.ascii = true; b.cls = "ascii_constant"; break;
    case 1: for (unsigned long c = 0x20; c < 0x7F; ++c) b.chars.push_back(ch<T>(e, c)); b.ascii = true; b.cls = "ascii_varied"; break;
    case 2: b.chars.push_back(ch<T>(e, e == EL ? r.pick(homL) : r.pick(hom))); b.cls = "one_non_ascii_character_repeated"; break;
    case 3:
        if (e == EL) { for (unsigned long c = r.chance(1, 2) ? 0x80 : 0x01; c < 0x100; ++c) b.chars.push_back(ch<T>(e, c)); }
        else for (unsigned long c : mix) b.chars.push_back(ch<T>(e, c));
        b.cls = "mixed";
        break;
    default:
        if (e == E8) { static const unsigned char ill[] = {0xFF, 0x80, 0xC3, 0xF8}; b.chars.push_back(Str<T>(1, static_cast<T>(r.pick(ill)))); }
        else if (e == E16) b.chars.push_back(Str<T>(1, static_cast<T>(r.chance(1, 2) ? 0xD800 : 0xDFFF)));
        else if (e == E32) b.chars.push_back(Str<T>(1, static_cast<T>(r.chance(1, 2) ? 0x110000 : 0xD800)));
        else b.chars.push_back(Str<T>(1, static_cast<T>(0xFF)));
        b.cls = "one_ill_formed_unit_repeated";
        break;
    }
    return b;
}

// exactly n units of background (whole characters; what does not divide is made up with 'a')
template <typename T> static void fill(Str<T> &out, size_t n, const Bg<T> &bg, Rng &r)
{
    if (bg.chars.size() == 1) {
        const Str<T> &c = bg.chars[0];
        out.append(n % c.size(), static_cast<T>('a'));
        if (c.size() == 1) out.append(n, c[0]);
        else for (size_t k = n / c.size(); k-- > 0;) out += c;
        return;
    }
    while (n) {
        const Str<T> &c = r.pick(bg.chars);
        if (c.size() <= n) { out += c; n -= c.size(); }
        else { out += static_cast<T>('a'); --n; }
    }
}

template <typename T> struct Piece {
    Str<T> u;
    int cls = 0;      // index into PIECE_NAME
};

static const S TR8[] = {S("\xC3"), S("\xDF"), S("\xE2"), S("\xE2\x82"), S("\xEF\xBF"), S("\xF0"), S("\xF0\x9F"), S("\xF0\x9F\x98"), S("\xF4\x8F\xBF")};
static const S IL8[] = {S("\x80"), S("\xBF\x80"), S("\xC0\x80"), S("\xC1\xBF"), S("\xE0\x80\x80"), S("\xED\xA0\x80"), S("\xED\xBF\xBF"), S("\xF4\x90\x80\x80"),
                        S("\xF7\xBF\xBF\xBF"), S("\xF8"), S("\xFE"), S("\xFF"), S("\xC0"), S("\xF5")};
static const S16 TR16[] = {S16(1, 0xD800), S16(1, 0xDBFF), S16(1, 0xD83D)};
static const S16 IL16[] = {S16(1, 0xDC00), S16(1, 0xDFFF), S16({0xDC00, 0xD800}), S16({0xDE00, 0xD83D}), S16({0xD800, 0xD800}), S16({0xD83D, 0x0041}), S16({0xDFFF, 0xDFFF})};
static const S32 TR32[] = {S32(1, 0x110000), S32(1, 0xFFFFFFFFu)};
static const S32 IL32[] = {S32(1, 0xD800), S32(1, 0xDFFF), S32(1, 0x7FFFFFFF), S32(1, 0x80000000u), S32(1, 0x10FFFF)};
static Piece<char> ill_piece(Rng &r, bool truncated, const char *) { return Piece<char>{truncated ? r.pick(TR8) : r.pick(IL8), truncated ? 1 : 2}; }
static Piece<char16_t> ill_piece(Rng &r, bool truncated, const char16_t *) { return Piece<char16_t>{truncated ? r.pick(TR16) : r.pick(IL16), truncated ? 1 : 2}; }
static Piece<char32_t> ill_piece(Rng &r, bool truncated, const char32_t *) { return Piece<char32_t>{truncated ? r.pick(TR32) : r.pick(IL32), truncated ? 1 : 2}; }

// a well-formed character that stands out against the background (another width class; never ASCII in ASCII)
template <typename T> static Piece<T> valid_piece(Rng &r, Enc e, const Bg<T> &bg)
{
    static const unsigned long feat[] = {0x41, 0x7F, 0x80, 0xE9, 0xFF, 0x100, 0x7FF, 0x800, 0x20AC, 0xD7FF, 0xE000, 0xFFFD, 0xFFFF, 0x10000, 0x1F600, 0x10FFFF};
    static const unsigned long featL[] = {0x41, 0x7F, 0x20, 0x80, 0xA0, 0xE9, 0xFF, 0xFF};
    Piece<T> p;
    for (int tries = 0; tries < 16; ++tries) {
        unsigned long cp = e == EL ? r.pick(featL) : r.pick(feat);
        if (r.chance(1, 24)) cp = 0;
        if (bg.ascii && cp < 0x80) continue;
        p.u = ch<T>(e, cp);
        if (bg.chars.size() == 1 && bg.chars[0] == p.u) continue;
        return p;
    }
    p.u = ch<T>(e, bg.ascii ? 0xE9 : 0x41);
    return p;
}

template <typename T> struct Built {
    Str<T> s;
    size_t at = 0, back = 0, boundary = 0;      // unit offset of the piece; how many of its units lie before the boundary; the boundary's offset
    long shift = 0;                             // piece moved this many units past (+) / before (-) the boundary
    bool second = false;
};

static size_t margin(Rng &r)
{
    switch (r.below(6)) {
    case 0: case 1: return r.below(40);
    case 2: case 3: return 4096 + r.below(5000);
    case 4: return 1000 + r.below(70000);
    default: return 131072 + r.below(20000);
    }
}

// kind 0: boundary at dist from the beginning; 1: at dist from the end; 2: at dist from the start of an ASCII stretch behind
// non-ASCII text; 3: pieces 0..9 units after the start of the input, then a run of dist (+-) units
template <typename T>
static Built<T> build(Rng &r, unsigned kind, size_t dist, const Bg<T> &bg, const Bg<T> &ascii, const Bg<T> &nonascii, const Piece<T> &p1, const Piece<T> *p2, bool small)
{
    Built<T> b;
    const size_t pl = p1.u.size();
    switch (r.below(3)) {
    case 0: b.back = pl; break;                                                  // ends on the boundary
    case 1: b.back = 0; break;                                                   // begins on it
    default: b.back = pl > 1 ? 1 + r.below(pl - 1) : r.below(2) * pl; break;     // straddles it
    }
    if (r.chance(1, 5)) {
        b.shift = r.chance(2, 3) ? static_cast<long>(1 + r.below(9)) : -static_cast<long>(1 + r.below(9));
        b.back = b.shift > 0 ? 0 : pl;
    }
    const size_t gap = 1 + r.below(9);
    const size_t mg = small ? r.below(40) : margin(r);
    const Bg<T> &gapbg = (bg.ascii || r.chance(2, 3)) ? ascii : bg;
    const Bg<T> &tailbg = (bg.ascii || r.chance(1, 2)) ? bg : ascii;
    // units in front of the piece when the boundary is `dist` units behind the reference point
    const size_t before = static_cast<size_t>(static_cast<long>(dist - b.back) + b.shift);
    Str<T> &s = b.s;
    switch (kind) {
    case 0:
        s.reserve(before + mg + 32);
        fill(s, before, bg, r);
        b.at = s.size(); b.boundary = dist;
        s += p1.u;
        if (p2) { fill(s, gap, gapbg, r); s += p2->u; }
        fill(s, mg, tailbg, r);
        break;
    case 1: {
        s.reserve(dist + mg + 32);
        fill(s, mg, bg, r);
        if (p2) { s += p2->u; fill(s, gap, gapbg, r); }
        b.at = s.size();
        s += p1.u;
        // the boundary lies `dist` units before the end: back units of the piece are in front of it
        const size_t after = static_cast<size_t>(static_cast<long>(dist + b.back - pl) - b.shift);
        fill(s, after, tailbg, r);
        b.boundary = s.size() - dist;
        break;
    }
    case 2: {
        const size_t w = nonascii.chars[0].size();
        const size_t np = r.chance(1, 2) ? 1 + r.below(3) : (small ? 1 + r.below(40) : scale::length(r, 70000, 16) / w + 1);
        s.reserve(np * w + before + mg + 32);
        fill(s, np * w, nonascii, r);
        const size_t start = s.size();
        fill(s, before, ascii, r);
        b.at = s.size(); b.boundary = start + dist;
        s += p1.u;
        if (p2) { fill(s, gap, ascii, r); s += p2->u; }
        fill(s, mg, ascii, r);
        break;
    }
    default: {
        const Bg<T> &runbg = (bg.ascii || r.chance(2, 3)) ? ascii : bg;
        const long run = static_cast<long>(dist) + scale::nudge(r);
        s.reserve(dist + 64);
        fill(s, r.below(10), ascii, r);
        b.at = s.size(); b.boundary = 0; b.back = 0; b.shift = static_cast<long>(b.at);
        s += p1.u;
        if (p2) { fill(s, gap, ascii, r); s += p2->u; }
        fill(s, static_cast<size_t>(run > 0 ? run : 0), runbg, r);
        break;
    }
    }
    b.second = p2 != nullptr;
    return b;
}

// (source encoding, layout) by weight; 29 entries (coprime to the 168 points of the B x q grid)
struct Combo { Enc e; unsigned kind; };
static const Combo WELL[29] = {
    {E8, 0}, {EL, 0}, {E16, 0}, {E8, 3}, {E32, 0}, {E8, 1}, {EL, 3}, {E8, 2}, {E16, 1}, {E8, 0}, {EL, 1}, {E16, 3}, {E32, 1}, {E8, 0}, {EL, 0},
    {E16, 2}, {E8, 3}, {E32, 3}, {E8, 1}, {EL, 2}, {E16, 0}, {E8, 2}, {E32, 2}, {EL, 0}, {E8, 0}, {E16, 0}, {EL, 3}, {E32, 0}, {EL, 1}};
static const Combo MALF[29] = {
    {E8, 0}, {E16, 0}, {E8, 0}, {E32, 0}, {E8, 3}, {EL, 0}, {E8, 0}, {E16, 1}, {E8, 1}, {E8, 0}, {E16, 0}, {E32, 1}, {E8, 2}, {E8, 0}, {EL, 3},
    {E16, 2}, {E8, 0}, {E32, 0}, {E8, 3}, {E16, 0}, {E8, 0}, {E8, 1}, {E16, 3}, {E32, 0}, {E8, 0}, {EL, 0}, {E8, 2}, {E16, 0}, {E32, 3}};

struct Guard {
    ~Guard() { g_sel = RouteSel(); g_note.clear(); }
};

static void select_routes(uint64_t i, size_t units, unsigned monitors)
{
    g_sel = RouteSel();
    g_sel.on = true;
    g_sel.big = units >= 4096;
    const size_t cost = units * monitors;
    g_sel.stride = cost < 16384 ? 1 : cost < 131072 ? 7 : cost < 524288 ? 13 : cost < 2097152 ? 29 : 59;
    if (i % 5 == 0 && cost <= 400000) g_sel.stride = 1;              // some big inputs get the whole table
    g_sel.offset = static_cast<unsigned>((i + i / 21) % g_sel.stride);
    if (g_sel.stride == 1) {
        vrt::count("scale.inputs_through_whole_route_table");
        if (units >= 4096) vrt::count("scale.inputs_through_whole_route_table>=4Ki_units");
        if (units >= 65536) vrt::count("scale.inputs_through_whole_route_table>=64Ki_units");
    }
}

template <typename T>
static void one_case(uint64_t i, Rng &r, bool wellformed, Enc e, unsigned kind, size_t B, size_t q, bool small)
{
    const size_t dist = q * B;
    // background: constant ASCII is what block-wise fast paths are written for, so it gets the largest share
    unsigned bcls;
    switch (r.below(16)) {
    case 0: case 1: case 2: case 3: case 4: case 5: case 6: bcls = 0; break;
    case 7: bcls = 1; break;
    case 8: case 9: case 10: case 11: case 12: bcls = 2; break;
    case 13: case 14: bcls = 3; break;
    default: bcls = wellformed ? 2 : 4; break;
    }
    if (kind == 2) bcls = r.chance(3, 4) ? 0 : 1;
    const Bg<T> bg = background<T>(r, e, bcls);
    const Bg<T> ascii = bg.ascii ? bg : background<T>(r, e, r.chance(3, 4) ? 0 : 1);
    const Bg<T> nonascii = background<T>(r, e, 2);
    Piece<T> p1, p2v;
    if (wellformed || e == EL || bcls == 4 || r.chance(1, 4)) p1 = valid_piece(r, e, bg);
    else p1 = ill_piece(r, r.chance(1, 2), static_cast<const T *>(nullptr));
    const bool second = r.chance(1, kind == 3 ? 2 : 4);
    if (second) p2v = valid_piece(r, e, ascii);
    const Built<T> b = build(r, kind, dist, bg, ascii, nonascii, p1, second ? &p2v : nullptr, small);
    const Str<T> &s = b.s;
    const size_t lo = b.at > 6 ? b.at - 6 : 0;
    g_note = sfmt(" [scale: %zu %s units fnv=%016llx, %s at unit %zu (%zu of its %zu units before the boundary at %zu = %zu x %zu measured from the %s%s), units[%zu..]=%s, background %s%s]",
                  s.size(), ENC_NAME[e], static_cast<unsigned long long>(vrt::fnv1a(s.data(), s.size() * sizeof(T))), PIECE_NAME[p1.cls], b.at, b.back, p1.u.size(), b.boundary, q, B,
                  KIND_NAME[kind], b.shift ? sfmt(", moved by %ld", b.shift).c_str() : "", lo, vrt::hex(s.data() + lo, std::min<size_t>(s.size() - lo, 20), sizeof(T)).c_str(), bg.cls,
                  second ? ", a second character 1..9 units further on" : "");
    vrt::cur_rewind();
    vrt::cur_printf("%s\n", g_note.c_str());
    vrt::cur_mark_here();

    // ---- through the monitors
    if (wellformed) {
        std::vector<unsigned long> cps;
        bool narrow = true;
        {
            const ref::Decoded d = e == E8 ? ref::decode_utf8(reinterpret_cast<const unsigned char *>(s.data()), s.size())
                                 : e == E16 ? ref::decode_utf16(reinterpret_cast<const char16_t *>(s.data()), s.size())
                                 : e == E32 ? ref::decode_utf32(reinterpret_cast<const char32_t *>(s.data()), s.size())
                                            : ref::decode_latin1(reinterpret_cast<const unsigned char *>(s.data()), s.size());
            cps.reserve(d.size());
            for (long v : d) {
                if (v < 0 || !ref::is_scalar(static_cast<unsigned long>(v))) { fprintf(stderr, "conv: scale generator produced ill-formed text for C01\n"); _exit(98); }
                cps.push_back(static_cast<unsigned long>(v));
                if (v >= 0x100) narrow = false;
            }
        }
        select_routes(i, s.size(), 3);
        from_scalars(cps, true);
        if (narrow) {
            Input l1{1, S(cps.begin(), cps.end()), {}, {}};
            select_routes(i, l1.u8.size(), 1);
            if (g_sel.stride > 3) g_sel.stride = 3, g_sel.offset %= 3;     // the Latin-1 table is short
            from_latin1(l1);
            vrt::count("scale.latin1_inputs");
            vrt::distinct(vrt::fnv1a(l1.u8.data(), l1.u8.size(), 75));
        }
        vrt::distinct(vrt::fnv1a(cps.data(), cps.size() * sizeof(unsigned long), 76));
    } else {
        select_routes(i, s.size(), 1);
        if (e == EL) {
            if (g_sel.stride > 3) g_sel.stride = 3, g_sel.offset %= 3;
            Input l1{1, S(reinterpret_cast<const char *>(s.data()), s.size()), {}, {}};
            from_latin1(l1);
            vrt::count("scale.latin1_inputs");
            vrt::distinct(vrt::fnv1a(l1.u8.data(), l1.u8.size(), 75));
        } else if (e == E8) run8(S(reinterpret_cast<const char *>(s.data()), s.size()), true);
        else if (e == E16) run16(S16(reinterpret_cast<const char16_t *>(s.data()), s.size()), true);
        else run32(S32(reinterpret_cast<const char32_t *>(s.data()), s.size()), true);
    }
    g_sel.on = false;

    // ---- what this case was
    vrt::count("scale.cases");
    vrt::count(sfmt("scale.source.%s", ENC_NAME[e]));
    vrt::count(sfmt("scale.measured_from.%s", KIND_NAME[kind]));
    vrt::count(sfmt("scale.background.%s", bg.cls));
    vrt::count(sfmt("scale.piece.%s", PIECE_NAME[p1.cls]));
    if (kind != 3) {
        if (b.shift > 0) vrt::count("scale.piece_1..9_units_behind_boundary");
        else if (b.shift < 0) vrt::count("scale.piece_1..9_units_before_boundary");
        else if (b.back == 0) vrt::count("scale.piece_begins_on_boundary");
        else if (b.back == p1.u.size()) vrt::count("scale.piece_ends_on_boundary");
        else vrt::count("scale.piece_straddles_boundary");
    } else vrt::count("scale.piece_0..9_units_after_start_of_input");
    if (second) vrt::count("scale.second_character_1..9_units_after_piece");
    if (s.size() >= 4096) vrt::count("scale.inputs>=4Ki_units");
    if (s.size() >= 65536) vrt::count("scale.inputs>=64Ki_units");
    if (s.size() >= 262144) vrt::count("scale.inputs>=256Ki_units");
    if (s.size() >= 1048576) vrt::count("scale.inputs>=1Mi_units");
    if (vrt::want_sample("scale") && s.size() >= 4096 && p1.u.size() > 1) vrt::sample("scale", g_note.substr(9, g_note.size() - 10));      // without the " [scale: " ... "]" wrapping
}

} // namespace big

static void scale_phase(bool wellformed, uint64_t quick_cases)
{
    const bool valgrind = vrt::opt().scale < 1.0;
    vrt::require("scale.cases", 100);
    vrt::require("scale.piece_straddles_boundary", 10);
    vrt::require("scale.piece_ends_on_boundary", 10);
    vrt::require("scale.piece_begins_on_boundary", 10);
    vrt::require("scale.inputs>=4Ki_units", 50);
    vrt::require("scale.inputs_through_whole_route_table>=4Ki_units", 3);
    if (!valgrind) {                // the memcheck pass stays below 16 Ki units
        vrt::require("scale.inputs>=64Ki_units", 10);
        vrt::require("scale.inputs>=1Mi_units", 1);
        vrt::require("scale.inputs_through_whole_route_table>=64Ki_units", 1);
    }
    const std::vector<size_t> &BL = scale::blocks();
    const size_t G = BL.size() * 8;
    // calls that omit the mode differ between the three C02 builds; so do the cases, to triple what C02 sees
    const size_t cfg = HAVE_EXPECT_DEFAULT ? static_cast<size_t>(EXPECT_DEFAULT == ST::assume_valid ? 0 : EXPECT_DEFAULT == ST::substitute_invalid ? 1 : 2) : 0;
    vrt::note(sfmt("scale: block sizes 16 .. 1 Mi x multiples 1..8 (up to 1 Mi units) x {from the beginning, from the end, from the start of an ASCII stretch, pieces at the start of a long run} x source encodings; "
                   "inputs of 16 Ki units or more run a rotating 1/7 .. 1/59 of the route table (every route is required on some input of >= 4 Ki units)"));
    vrt::phase("scale", vrt::tier_count(quick_cases, quick_cases * 30), [&, wellformed, valgrind, G, cfg](uint64_t i, Rng &r) {
        const size_t g = i % G, pass = i / G;
        const size_t B = BL[g % BL.size()], q = 1 + g / BL.size();
        if (q * B > (1u << 20) || (valgrind && q * B > 16384)) { vrt::count("scale.skipped_too_large"); return; }
        const big::Combo &c = (wellformed ? big::WELL : big::MALF)[(g + pass * 11 + cfg * 5) % 29];
        big::Enc e = c.e;
        if (!wellformed && e == big::EL && !vrt::is_prop("C03")) e = big::E8;         // Latin-1 sources cannot be malformed: C03 only
        big::Guard guard;
        const bool small = q * B >= 524288;           // keep the biggest ones near 1 Mi units
        switch (e) {
        case big::E16: big::one_case<char16_t>(i, r, wellformed, e, c.kind, B, q, small); break;
        case big::E32: big::one_case<char32_t>(i, r, wellformed, e, c.kind, B, q, small); break;
        default: big::one_case<char>(i, r, wellformed, e, c.kind, B, q, small); break;
        }
    });
}

// ================================================================ same_storage / soak / alignment phases (C01, C02, C03)
// What the phases above never produce is HISTORY: every input there sits in a fresh heap block (and under ASan a freed block
// is not handed out again for a long time), every source object is new, and two consecutive calls of one route hardly ever
// see related inputs.  A conversion that keeps something between calls - the measure of "the last long input" keyed by
// (pointer, length, a few bytes from both ends), a "these bytes were validated already" verdict, a fast path that is armed by
// a streak of ASCII-only calls, a table that wraps after 2^16 calls - is right on every first call and on all fresh storage.
//  * same_storage: 3..6 contents of IDENTICAL length that share their first and last 16 units (8 for the 20-unit size) and
//    differ in between in what the conversions depend on (how many units each character takes in the target encodings, and
//    for C02/C03 whether an ill-formed unit is present: valid -> invalid -> valid ... in both orders), all given to the
//    library at the SAME addresses: the caller-side block is overwritten in place, the std::basic_string source is assigned
//    in place, source buffer objects and the source ST::string are destroyed and rebuilt with their releases parked.  First
//    chosen windows of 1..8 routes of the monitor's table are run over all contents in turn (so that the last call before
//    and the first call after each change of content are the same route on the same storage - single-entry state is not
//    evicted by the other 400 calls of the table); then every content goes through the whole table.
//  * soak: one case = tens of thousands of consecutive inputs through a few routes (so every one of them is called more
//    than 70000 times in a row in one process): runs of 64..300 pure-ASCII (or otherwise uniform, or identical) inputs of
//    16..64 units, followed directly by inputs whose only non-ASCII / ill-formed units sit in the last 1..7 units, or in
//    the 1..7 units behind (or straddling) the first 8-byte address boundary after the start, or in the middle of an input
//    that otherwise repeats the previous one at the same address.
//  * alignment: short inputs (8..65 units) at every start alignment 0..15 with one character of another width / one
//    ill-formed piece at every offset 0..16 from the start and -3..+8 from the first 8-byte address boundary.
namespace pinned {

using big::Str;
using big::Enc;
using big::E8;
using big::E16;
using big::E32;
using big::EL;
using big::Bg;
using big::Piece;

// caller-side storage: `n` units that end where the malloc'ed block ends and start `lead` bytes into it
template <typename T> struct Block {
    void *base;
    T *p;
    size_t n, lead;
    Block(size_t units, size_t lead_bytes) : n(units), lead(lead_bytes)
    {
        base = malloc(lead + units * sizeof(T));
        if (!base) { fprintf(stderr, "conv: out of memory\n"); _exit(98); }
        memset(base, 0x80, lead);
        p = reinterpret_cast<T *>(static_cast<char *>(base) + lead);
        if (lead == 8 && reinterpret_cast<uintptr_t>(base) % 8 == 0) vrt::RecyclePool::poison(base, 8);
    }
    ~Block()
    {
        if (lead == 8 && reinterpret_cast<uintptr_t>(base) % 8 == 0) vrt::RecyclePool::unpoison(base, 8);
        free(base);
    }
    Block(const Block &) = delete;
    Block &operator=(const Block &) = delete;
};

struct Guard {
    ~Guard()
    {
        pin<char>().clear(); pin<char16_t>().clear(); pin<char32_t>().clear(); pin<wchar_t>().clear();
        g_pin_str.reset();
        g_sel = RouteSel();
        g_note.clear();
        g_track_results = false;
        vrt::placement_force_parks() = 0;
    }
};

// the current-case recorder holds the case header, then ONE description of the input at hand, then the route being run
static size_t g_case_mark = 0;
static void begin_case() { g_case_mark = vrt::cur_mark(); }
static void record_note()
{
    vrt::cur_mark() = g_case_mark;
    vrt::cur_rewind();
    if (!g_note.empty()) vrt::cur_printf("%s\n", g_note.c_str());
    vrt::cur_mark_here();
}

static int enc_code(Enc e) { return e == E8 ? 8 : e == E16 ? 16 : e == E32 ? 32 : 1; }
static void put(Input &in, const S &s) { in.u8.assign(s); }             // same size as before: std::basic_string keeps its block
static void put(Input &in, const S16 &s) { in.u16.assign(s); }
static void put(Input &in, const S32 &s) { in.u32.assign(s); }
static void feed(Enc e, const Input &in, bool full)
{
    switch (e) {
    case E8: from_utf8(in, full); break;
    case E16: from_utf16(in, full); break;
    case E32: from_utf32(in, full); break;
    default: from_latin1(in); break;
    }
}
static ref::Decoded decode(Enc e, const S &s)
{
    return e == EL ? ref::decode_latin1(reinterpret_cast<const unsigned char *>(s.data()), s.size()) : ref::decode_utf8(s);
}
static ref::Decoded decode(Enc, const S16 &s) { return ref::decode_utf16(s.data(), s.size()); }
static ref::Decoded decode(Enc, const S32 &s) { return ref::decode_utf32(s.data(), s.size()); }
static bool rejected_by_check_validity(const ref::Decoded &d)
{
    for (long v : d) if (v == ref::BAD || v > 0x10FFFF) return true;
    return false;
}
static void must_be_scalars(const ref::Decoded &d, const char *phase)
{
    for (long v : d)
        if (v < 0 || !ref::is_scalar(static_cast<unsigned long>(v))) { fprintf(stderr, "conv: %s generator produced ill-formed text for C01\n", phase); _exit(98); }
}
template <typename T> static T certainly_bad_unit(Enc e) { return static_cast<T>(e == E8 ? 0xFF : e == E16 ? 0xD800 : 0x110000); }

// pins for one unit type: a block of n units and one of n units + terminator, both starting `lead` bytes into their block
template <typename T> struct Blocks {
    Block<T> raw, rawz;
    Blocks(size_t n, size_t lead) : raw(n, lead), rawz(n + 1, lead) { }
    void attach(bool objects)
    {
        Pin<T> &pn = pin<T>();
        pn.n = raw.n; pn.raw = raw.p; pn.rawz = rawz.p; pn.objects = objects;
    }
};

static void record_table(Enc e, const Input &in, RouteKeys &table)
{
    static Selection nothing;
    nothing.set(RouteKeys());
    g_sel = RouteSel();
    g_sel.on = true;
    g_sel.record = &table;
    g_sel.only = &nothing;
    feed(e, in, true);
    g_sel = RouteSel();
}
static void feed_only(Enc e, const Input &in, Selection &sel)
{
    g_sel = RouteSel();
    g_sel.on = true;
    g_sel.only = &sel;
    feed(e, in, true);
    g_sel = RouteSel();
}

// ---------------------------------------------------------------- same_storage
static const char *const MID_NAME[] = {"ascii", "one_non_ascii_character_repeated", "mixed_widths", "ascii_with_one_non_ascii_character",
                                       "ill_formed_pieces_in_well_formed_text", "one_ill_formed_unit_repeated", "well_formed_text_entered_one_unit_late",
                                       "previous_content_with_one_piece_planted"};

template <typename T> static Str<T> middle(Rng &r, Enc e, size_t m, unsigned cls)
{
    Str<T> out;
    switch (cls) {
    case 0: big::fill(out, m, big::background<T>(r, e, r.chance(1, 2) ? 0 : 1), r); break;
    case 1: big::fill(out, m, big::background<T>(r, e, 2), r); break;
    case 2: big::fill(out, m, big::background<T>(r, e, 3), r); break;
    case 3: {
        const Bg<T> a = big::background<T>(r, e, r.chance(1, 2) ? 0 : 1);
        big::fill(out, m, a, r);
        const Piece<T> p = big::valid_piece(r, e, a);
        if (p.u.size() <= m) out.replace(r.below(m - p.u.size() + 1), p.u.size(), p.u);
        break;
    }
    case 4: {
        const Bg<T> a = big::background<T>(r, e, r.chance(2, 3) ? static_cast<unsigned>(r.below(2)) : 2);
        big::fill(out, m, a, r);
        for (int k = static_cast<int>(1 + r.below(3)); k-- > 0;) {
            const Piece<T> p = big::ill_piece(r, r.chance(1, 2), static_cast<const T *>(nullptr));
            if (p.u.size() <= m) out.replace(r.below(m - p.u.size() + 1), p.u.size(), p.u);
        }
        break;
    }
    case 5: big::fill(out, m, big::background<T>(r, e, 4), r); break;
    default:
        big::fill(out, m, big::background<T>(r, e, r.chance(1, 2) ? 2 : 3), r);
        if (m > 1) std::rotate(out.begin(), out.begin() + 1, out.end());
        break;
    }
    return out;
}

template <typename T> struct Content {
    Str<T> s;
    bool invalid = false;       // check_validity rejects it
    size_t chars = 0;           // decoded values (bad units count one each)
    unsigned cls = 0;
};

// K contents of n units with the same first and last `probe` units; for the malformed properties valid and invalid ones alternate
template <typename T>
static std::vector<Content<T>> contents(Rng &r, Enc e, size_t n, size_t probe, size_t K, bool wellformed, bool first_invalid)
{
    const bool can_be_invalid = !wellformed && e != EL;
    const Bg<T> endbg = big::background<T>(r, e, r.chance(2, 3) ? 1 : 3);
    Str<T> head, tail;
    big::fill(head, probe, endbg, r);
    big::fill(tail, probe, endbg, r);
    const size_t m = n - 2 * probe;
    std::vector<Content<T>> out;
    std::vector<Str<T>> mids;
    unsigned last_valid_cls = 99;
    for (size_t k = 0; k < K; ++k) {
        const bool want_invalid = can_be_invalid && ((k % 2 == 0) == first_invalid);
        Content<T> c;
        Str<T> mid;
        for (int tries = 0;; ++tries) {
            unsigned cls = want_invalid ? 4 + static_cast<unsigned>(r.below(3)) : static_cast<unsigned>(r.below(4));
            if (!want_invalid && cls == last_valid_cls) cls = (cls + 1 + static_cast<unsigned>(r.below(3))) % 4;
            if (tries == 0 && k > 0 && r.chance(1, 3) && out.back().cls == 0) {
                // the smallest change: the previous (plain ASCII) middle with one character of another width / one ill-formed piece
                // planted somewhere, so that the two contents agree wherever a sparse fingerprint is likely to look
                mid = mids.back();
                const Piece<T> p = want_invalid ? big::ill_piece(r, r.chance(1, 2), static_cast<const T *>(nullptr)) : big::valid_piece(r, e, big::background<T>(r, e, 1));
                if (p.u.size() <= m) { mid.replace(r.below(m - p.u.size() + 1), p.u.size(), p.u); cls = 7; }
                else mid = middle<T>(r, e, m, cls);
            } else mid = middle<T>(r, e, m, cls);
            if (tries >= 6) {                     // certain outcome
                mid.assign(m, static_cast<T>('a'));
                cls = 0;
                if (want_invalid) { mid[r.below(m > 1 ? m - 1 : 1)] = certainly_bad_unit<T>(e); cls = 4; }
            }
            c.s = head + mid + tail;
            c.cls = cls;
            const ref::Decoded d = decode(e, c.s);
            c.invalid = rejected_by_check_validity(d);
            c.chars = d.size();
            if (wellformed) must_be_scalars(d, "same_storage");
            if (c.invalid == want_invalid && (out.empty() || out.back().s != c.s)) break;
            if (tries > 12) break;
        }
        if (!c.invalid) last_valid_cls = c.cls;
        out.push_back(c);
        mids.push_back(mid);
    }
    return out;
}

template <typename T> static void note_content(Enc e, const Content<T> &c, size_t k, size_t K, size_t probe, const T *at, const char *pass)
{
    const size_t shown = std::min<size_t>(c.s.size() - probe, probe + 24);
    g_note = sfmt(" [same_storage %s: content %zu of %zu in this storage, %zu %s units at %p (address mod 16 = %u), fnv=%016llx, first and last %zu units shared, middle %s (%zu values%s), units[%zu..]=%s]",
                  pass, k + 1, K, c.s.size(), big::ENC_NAME[e], static_cast<const void *>(at), static_cast<unsigned>(reinterpret_cast<uintptr_t>(at) % 16),
                  static_cast<unsigned long long>(vrt::fnv1a(c.s.data(), c.s.size() * sizeof(T))), probe, MID_NAME[c.cls], c.chars, c.invalid ? ", rejected by check_validity" : "",
                  probe, vrt::hex(c.s.data() + probe, shown - probe > 24 ? 24 : shown - probe, sizeof(T)).c_str());
    record_note();
}

template <typename T>
static void same_case(uint64_t i, Rng &r, bool wellformed, Enc e, size_t n)
{
    Guard guard;
    begin_case();
    const size_t lead = static_cast<size_t>(r.below(16)) & ~(sizeof(T) - 1);
    const size_t probe = n >= 40 ? 16 : 8;
    const size_t K = 3 + r.below(4);
    const bool first_invalid = r.chance(1, 2);
    const std::vector<Content<T>> cs = contents<T>(r, e, n, probe, K, wellformed, first_invalid);
    Blocks<T> blocks(n, lead);
    std::unique_ptr<Blocks<wchar_t>> wblocks;
    blocks.attach(true);
    if (e == E32) { wblocks.reset(new Blocks<wchar_t>(n, lead)); wblocks->attach(true); }
    const bool park_all = r.chance(1, 2);           // every release in this case is parked: the next request of that size gets the address back, as from a real allocator
    g_track_results = true;
    if (park_all) vrt::placement_force_parks() = 1 << 30;
    Input in{enc_code(e), {}, {}, {}};

    // the routes the monitor runs for these contents (the longer of the tables of the first two)
    RouteKeys table, t2;
    put(in, cs[0].s); record_table(e, in, table);
    put(in, cs[1].s); record_table(e, in, t2);
    if (t2.size() > table.size()) table.swap(t2);
    if (table.empty()) { fprintf(stderr, "conv: empty route table\n"); _exit(98); }

    // windows of the table over all contents in turn
    const size_t J = n >= 16384 ? 6 : 8 + r.below(9);
    Selection sel;
    for (size_t j = 0; j < J; ++j) {
        static const size_t lens[] = {1, 1, 1, 2, 2, 3, 5, 8};
        const size_t start = j == 0 ? static_cast<size_t>((i / 4) * 7 % table.size()) : r.below(table.size()), len = r.pick(lens);
        RouteKeys w;
        for (size_t l = 0; l < len; ++l) w.push_back(table[(start + l) % table.size()]);
        sel.set(w);
        for (size_t k = 0; k < K; ++k) {
            note_content(e, cs[k], k, K, probe, blocks.raw.p, "window");
            put(in, cs[k].s);
            feed_only(e, in, sel);
        }
        for (uint64_t h : sel.hits) vrt::count("same_storage.window_route_calls", h);
        vrt::count("same_storage.windows");
        vrt::count(sfmt("same_storage.window_length.%zu", len));
    }
    // every content through the whole table (every 9th route, rotating, on the biggest sizes)
    for (size_t k = 0; k < K; ++k) {
        note_content(e, cs[k], k, K, probe, blocks.raw.p, "whole table");
        put(in, cs[k].s);
        if (n * table.size() > 4000000) {
            RouteKeys w;
            for (size_t t = (i + k) % 17; t < table.size(); t += 17) w.push_back(table[t]);
            sel.set(w);
            feed_only(e, in, sel);
        } else {
            feed(e, in, true);
        }
        vrt::count("same_storage.contents");
        vrt::distinct(vrt::fnv1a(cs[k].s.data(), cs[k].s.size() * sizeof(T), 77 + static_cast<uint64_t>(e)));
        if (k) {
            if (cs[k - 1].invalid != cs[k].invalid) vrt::count(cs[k].invalid ? "same_storage.pairs.valid_then_invalid" : "same_storage.pairs.invalid_then_valid");
            if (cs[k - 1].chars != cs[k].chars) vrt::count(cs[k - 1].chars > cs[k].chars ? "same_storage.pairs.more_characters_then_fewer" : "same_storage.pairs.fewer_characters_then_more");
        }
        vrt::count(sfmt("same_storage.middle.%s", MID_NAME[cs[k].cls]));
    }
    vrt::count("same_storage.cases");
    vrt::count(sfmt("same_storage.source.%s", big::ENC_NAME[e]));
    vrt::count(park_all ? "same_storage.cases_with_every_release_parked" : "same_storage.cases_with_only_the_source_objects_parked");
    if (reinterpret_cast<uintptr_t>(blocks.raw.p) % 8) vrt::count("same_storage.cases_with_sources_not_8_byte_aligned");
    if (n >= 1024) vrt::count("same_storage.cases>=1024_units");
    if (n >= 65536) vrt::count("same_storage.cases>=64Ki_units");
    if (vrt::want_sample("same_storage") && n >= 1024 && K >= 4) {
        std::string seq;
        for (size_t k = 0; k < K; ++k) seq += sfmt("%s%s (%zu values%s)", k ? " -> " : "", MID_NAME[cs[k].cls], cs[k].chars, cs[k].invalid ? ", invalid" : "");
        vrt::sample("same_storage", sfmt("%zu %s units, block starts %zu bytes after a 16-byte boundary, first/last %zu units shared; middles: %s; %zu windows of the route table over all contents, then the whole table per content",
                                         n, big::ENC_NAME[e], lead, probe, seq.c_str(), J));
    }
}

static void same_storage_phase(bool wellformed, uint64_t quick_passes)
{
    const bool valgrind = vrt::opt().scale < 1.0;
    static const size_t SZ[] = {20, 40, 64, 100, 256, 300, 1024, 1500, 4096, 5000, 65536};
    const size_t NS = sizeof(SZ) / sizeof(SZ[0]);
    const bool malformed = !wellformed;
    vrt::require("same_storage.cases", valgrind ? 20 : 200);
    vrt::require("same_storage.contents", valgrind ? 60 : 800);
    vrt::require("same_storage.sources_written_over_their_predecessor", valgrind ? 500 : 10000);
    vrt::require("same_storage.pairs.more_characters_then_fewer", valgrind ? 5 : 100);
    vrt::require("same_storage.pairs.fewer_characters_then_more", valgrind ? 5 : 100);
    if (malformed) {
        vrt::require("same_storage.pairs.valid_then_invalid", valgrind ? 5 : 100);
        vrt::require("same_storage.pairs.invalid_then_valid", valgrind ? 5 : 100);
    }
    vrt::require("same_storage.cases>=1024_units", valgrind ? 5 : 50);
    if (!valgrind) vrt::require("same_storage.cases>=64Ki_units", 4);
    vrt::require("same_storage.cases_with_sources_not_8_byte_aligned", valgrind ? 3 : 50);
    vrt::require("same_storage.source_buffer_object_at_the_address_of_its_predecessor", valgrind ? 100 : 2000);
    vrt::require("same_storage.source_buffer_block_at_the_address_of_its_predecessor", valgrind ? 100 : 2000);
    vrt::require("same_storage.source_string_object_at_the_address_of_its_predecessor", valgrind ? 20 : 500);
    vrt::require("same_storage.source_string_block_at_the_address_of_its_predecessor", valgrind ? 20 : 500);
    vrt::require("same_storage.results_in_the_heap_block_of_the_previous_result_of_that_size", valgrind ? 100 : 2000);
    vrt::note("same_storage: 3..6 contents of one length (20 .. 5000 units and 64 Ki) sharing their first and last 16 units, written over each other at one address (caller block, std string, source buffer object and "
              "source ST::string rebuilt in place); windows of 1..8 routes over all contents in turn, then the whole route table per content");
    vrt::phase("same_storage", vrt::tier_count(4 * NS * quick_passes, 4 * NS * quick_passes * 25), [&, wellformed, valgrind, NS](uint64_t i, Rng &r) {
        const Enc e = static_cast<Enc>(i % 4);
        const size_t si = (i / 4) % NS, pass = i / (4 * NS);
        size_t n = SZ[si];
        if (n == 65536) n = valgrind ? 8192 : pass % 3 == 0 ? 65536 : pass % 3 == 1 ? 65536 + 24 + r.below(4000) : 32768 + r.below(32768);
        else if (pass % 4 == 3) n += 1 + r.below(9);
        switch (e) {
        case E16: same_case<char16_t>(i, r, wellformed, e, n); break;
        case E32: same_case<char32_t>(i, r, wellformed, e, n); break;
        default: same_case<char>(i, r, wellformed, e, n); break;
        }
    });
}

// ---------------------------------------------------------------- soak
static RouteKeys names(std::initializer_list<const char *> l)
{
    RouteKeys k;
    for (const char *n : l) k.emplace_back(n, "");
    return k;
}
// the routes a soak case calls for every input (every mode of each); one list per case, by source encoding
static RouteKeys core_routes(Enc e, unsigned flavour)
{
    switch (e) {
    case E8:
        switch (flavour % 4) {
        case 0: return names({"utf8_to_utf16", "utf8_to_utf32", "utf8_to_wchar", "utf8_to_latin_1", "string(const char*,n)"});
        case 1: return names({"string::from_utf8", "string.set(const char*,n)", "string(string_view)", "string(std::string)", "utf8_to_utf16(buffer)"});
        case 2: return names({"string.to_utf16", "string.to_utf32", "string.to_wchar", "string.to_latin_1", "string.to_std_u16string", "string::from_validated"});
        default: return names({"utf8_to_utf16(char8_t)", "utf8_to_utf32(buffer)", "utf8_to_latin_1(false)", "string(char_buffer)", "string.set(char_buffer)"});
        }
    case E16:
        if (flavour % 2 == 0) return names({"utf16_to_utf8", "utf16_to_utf32", "utf16_to_wchar", "utf16_to_latin_1", "string(const char16_t*,n)"});
        return names({"utf16_to_utf8(buffer)", "string::from_utf16", "string.set(char16_t*,n)", "string(u16string_view)", "utf16_to_latin_1(false)"});
    case E32:
        if (flavour % 2 == 0) return names({"utf32_to_utf8", "utf32_to_utf16", "utf32_to_latin_1", "string(const char32_t*,n)", "utf32_to_wchar"});
        return names({"wchar_to_utf8", "wchar_to_utf16", "wchar_to_latin_1", "string(const wchar_t*,n)", "wchar_to_utf32"});
    default:
        if (flavour % 2 == 0) return names({"latin_1_to_utf8", "latin_1_to_utf16", "latin_1_to_utf32", "latin_1_to_wchar", "string::from_latin_1"});
        return names({"latin_1_to_utf8(buffer)", "latin1->utf8->latin1", "latin1->utf16->latin1", "latin1->string->latin1", "string::from_latin_1(cstr)"});
    }
}

template <typename T> static Str<T> ascii_text(Rng &r, size_t n, bool constant)
{
    Str<T> s(n, static_cast<T>("ax _0"[r.below(5)]));
    if (!constant) for (auto &c : s) c = static_cast<T>(0x20 + r.below(0x5F));
    return s;
}
// a well-formed non-ASCII character, or (malformed properties, one in two) an ill-formed piece
template <typename T> static Piece<T> feature(Rng &r, Enc e, bool wellformed, const Bg<T> &ascii)
{
    if (wellformed || e == EL || r.chance(1, 2)) return big::valid_piece(r, e, ascii);
    return big::ill_piece(r, r.chance(1, 2), static_cast<const T *>(nullptr));
}

template <typename T> struct BlockCache {
    std::map<std::pair<size_t, size_t>, std::unique_ptr<Block<T>>> m;
    T *get(size_t n, size_t lead)
    {
        std::unique_ptr<Block<T>> &b = m[std::make_pair(n, lead)];
        if (!b) b.reset(new Block<T>(n, lead));
        return b->p;
    }
};

template <typename T>
static void soak_case(uint64_t i, Rng &r, bool wellformed, Enc e, unsigned flavour)
{
    Guard guard;
    begin_case();
    const bool valgrind = vrt::opt().scale < 1.0;
    const uint64_t target = valgrind ? 2000 : 70001;
    const RouteKeys core = core_routes(e, flavour);
    BlockCache<T> cache;
    BlockCache<wchar_t> wcache;
    Input in{enc_code(e), {}, {}, {}};
    const Bg<T> asciibg = big::background<T>(r, e, 1);
    auto place = [&](size_t n, size_t lead) -> const T * {
        Pin<T> &pn = pin<T>();
        pn.n = n; pn.raw = cache.get(n, lead); pn.rawz = nullptr; pn.objects = false;
        if (e == E32) { Pin<wchar_t> &pw = pin<wchar_t>(); pw.n = n; pw.raw = wcache.get(n, lead); pw.rawz = nullptr; pw.objects = false; }
        return pn.raw;
    };
    auto lead_of = [&]() { return static_cast<size_t>(r.below(16)) & ~(sizeof(T) - 1); };

    // the whole table (for the routes that join the core for one segment each)
    RouteKeys table;
    put(in, ascii_text<T>(r, 24, false));
    record_table(e, in, table);
    std::vector<uint64_t> core_calls(core.size(), 0);
    const uint64_t evals_before = vrt::st().evaluations;
    uint64_t inputs = 0, segments = 0, interesting = 0;
    Selection sel;
    auto least = [&]() { uint64_t m = ~uint64_t(0); for (uint64_t c : core_calls) m = std::min(m, c); return m; };
    Str<T> cur;
    while (least() < target && inputs < 400000) {
        RouteKeys keys = core;
        for (size_t x = 0; x < 3; ++x) keys.push_back(table[(i * 131 + segments * 3 + x) % table.size()]);
        sel.set(keys);
        // ---- the run: varied ASCII / one ASCII input repeated / one uniform non-ASCII input repeated
        const size_t run = 64 + r.below(237);
        const unsigned kind = static_cast<unsigned>(r.below(20));
        const bool repeated = kind >= 12, uniform_non_ascii = kind >= 17;
        size_t n = 16 + r.below(49), lead = lead_of();
        if (repeated) {
            if (uniform_non_ascii) { cur.clear(); big::fill(cur, n, big::background<T>(r, e, 2), r); }
            else cur = ascii_text<T>(r, n, r.chance(1, 2));
        }
        g_note.clear();
        for (size_t k = 0; k < run; ++k) {
            if (!repeated) { n = 16 + r.below(49); lead = lead_of(); cur = ascii_text<T>(r, n, r.chance(1, 4)); }
            place(n, lead);
            put(in, cur);
            feed_only(e, in, sel);
            ++inputs;
        }
        vrt::count(!repeated ? "soak.runs.ascii_inputs_of_varying_length_and_address" : uniform_non_ascii ? "soak.runs.one_uniform_non_ascii_input_repeated" : "soak.runs.one_ascii_input_repeated");
        const Str<T> base = cur;                    // the last input of the run, and where it was
        const size_t base_lead = lead;
        // ---- directly behind it: 1..3 inputs with something in an awkward place
        for (size_t q = 1 + r.below(3); q-- > 0;) {
            unsigned where = static_cast<unsigned>(r.below(repeated ? 3 : 2));
            // (a piece planted into a uniform non-ASCII run cuts characters: only the malformed properties take that)
            if (where == 2 && (base.size() < 24 || (uniform_non_ascii && wellformed))) where = 0;
            Str<T> s;
            const char *what;
            size_t at = 0;
            if (where == 2) {                       // the input of the run again, same address, same ends, another middle
                s = base;
                n = base.size();
                lead = base_lead;
                const size_t keep = n >= 48 ? 16 : 8, room = n - 2 * keep;
                const Piece<T> p = feature<T>(r, e, wellformed, asciibg);
                const size_t len = std::min(p.u.size(), room);
                if (wellformed && len < p.u.size()) { at = keep; s[at] = static_cast<T>(s[at] == 'q' ? 'r' : 'q'); }
                else { at = keep + r.below(room - len + 1); s.replace(at, len, p.u.substr(0, len)); }
                what = "same_address_and_ends_as_the_run_other_middle";
            } else {
                if (!repeated || r.chance(1, 2)) { n = 16 + r.below(49); lead = lead_of(); }
                const T *addr = place(n, lead);
                s = ascii_text<T>(r, n, r.chance(1, 3));
                Piece<T> p = feature<T>(r, e, wellformed, asciibg);
                if (where == 0) {                   // only in the last 1..7 units
                    Str<T> tailp = p.u;
                    const size_t t = std::max<size_t>(1 + r.below(7), p.u.size());
                    for (int more = 0; more < 3; ++more) {
                        const Piece<T> p2 = feature<T>(r, e, wellformed, asciibg);
                        if (tailp.size() + p2.u.size() <= t) tailp = r.chance(1, 2) ? tailp + p2.u : p2.u + tailp;
                    }
                    at = n - tailp.size();
                    s.replace(at, tailp.size(), tailp);
                    what = "only_in_the_last_1..7_units";
                } else {                            // at / behind / across the first 8-byte address boundary after the start
                    const size_t b = (8 - reinterpret_cast<uintptr_t>(addr) % 8) / sizeof(T);
                    const size_t back = r.chance(1, 2) ? r.below(std::min(p.u.size(), b + 1)) : 0;
                    at = back ? b - back : b + r.below(7);
                    if (at + p.u.size() > n) at = n - p.u.size();
                    s.replace(at, p.u.size(), p.u);
                    what = "1..7_units_behind_or_across_the_first_8_byte_address_boundary";
                }
            }
            if (wellformed) must_be_scalars(decode(e, s), "soak");
            const T *addr = place(n, lead);
            const size_t lo = at > 4 ? at - 4 : 0;
            g_note = sfmt(" [soak: input %llu of the case, directly after %zu %s; %zu units at %p, not plain ASCII %s: units[%zu..]=%s]", static_cast<unsigned long long>(inputs + 1), run,
                          !repeated ? "ASCII inputs" : "repetitions of one input", n, static_cast<const void *>(addr), what, lo, vrt::hex(s.data() + lo, std::min<size_t>(n - lo, 16), sizeof(T)).c_str());
            record_note();
            put(in, s);
            feed_only(e, in, sel);
            ++inputs; ++interesting;
            vrt::count(sfmt("soak.after_a_run.%s", what));
            vrt::distinct(vrt::fnv1a(s.data(), s.size() * sizeof(T), 78 + static_cast<uint64_t>(e)));
            if (r.chance(1, 2)) { feed(e, in, true); vrt::count("soak.inputs_through_the_whole_route_table"); }
            g_note.clear();
            record_note();
        }
        for (size_t c = 0; c < core.size(); ++c) core_calls[c] += sel.hits[c];
        ++segments;
    }
    const uint64_t calls = vrt::st().evaluations - evals_before;
    vrt::count("soak.cases");
    vrt::count("soak.inputs", inputs);
    vrt::count("soak.runs", segments);
    vrt::count("soak.inputs_directly_after_a_run", interesting);
    vrt::count("soak.conversions", calls);
    vrt::count(sfmt("soak.source.%s", big::ENC_NAME[e]));
    if (least() >= 70001) vrt::count("soak.cases_with_more_than_70000_consecutive_calls_of_each_core_route");
    if (vrt::want_sample("soak", 4)) {
        std::string rs;
        for (size_t c = 0; c < core.size(); ++c) rs += sfmt("%s%s x %llu", c ? ", " : "", core[c].first.c_str(), static_cast<unsigned long long>(core_calls[c]));
        vrt::sample("soak", sfmt("%s source: %llu consecutive inputs (%llu conversions) in one case, %llu runs of 64..300 plain inputs each followed directly by 1..3 awkward ones; calls per core route: %s",
                                 big::ENC_NAME[e], static_cast<unsigned long long>(inputs), static_cast<unsigned long long>(calls), static_cast<unsigned long long>(segments), rs.c_str()), 4);
    }
}

static void soak_phase(bool wellformed)
{
    const bool valgrind = vrt::opt().scale < 1.0;
    const uint64_t ncases = vrt::thorough() && !valgrind ? 64 : 16;
    vrt::require("soak.cases", ncases);
    vrt::require("soak.runs", valgrind ? 16 : 1000);
    vrt::require("soak.after_a_run.only_in_the_last_1..7_units", valgrind ? 5 : 500);
    vrt::require("soak.after_a_run.1..7_units_behind_or_across_the_first_8_byte_address_boundary", valgrind ? 5 : 500);
    vrt::require("soak.after_a_run.same_address_and_ends_as_the_run_other_middle", valgrind ? 1 : 100);
    if (!valgrind) vrt::require("soak.cases_with_more_than_70000_consecutive_calls_of_each_core_route", ncases);
    vrt::note("soak: each case feeds tens of thousands of consecutive inputs of 16..64 units to 5-6 routes of one source encoding (all modes; three more routes join per run), so that each of them is called more than "
              "70000 times in one process: runs of 64..300 plain inputs, then inputs whose non-ASCII / ill-formed units sit in the last 1..7 units, behind the first 8-byte address boundary, or in the middle of a repeated input");
    vrt::phase("soak", ncases, [&, wellformed](uint64_t i, Rng &r) {
        const Enc e = static_cast<Enc>(i % 4);
        const unsigned flavour = static_cast<unsigned>(i / 4);
        switch (e) {
        case E16: soak_case<char16_t>(i, r, wellformed, e, flavour); break;
        case E32: soak_case<char32_t>(i, r, wellformed, e, flavour); break;
        default: soak_case<char>(i, r, wellformed, e, flavour); break;
        }
    });
}

// ---------------------------------------------------------------- alignment
template <typename T>
static void alignment_case(Rng &r, bool wellformed, Enc e, size_t n, size_t lead)
{
    Guard guard;
    begin_case();
    Input in{enc_code(e), {}, {}, {}};
    const Bg<T> asciibg = big::background<T>(r, e, 1);
    size_t ninputs = 0;
    // offsets: 0..16 from the start, then -3..+8 from the first 8-byte address boundary behind the start
    for (int o = 0; o < 17 + 12; ++o) {
        for (int which = 0; which < 2; ++which) {
            Block<T> blk(n, lead);                  // fresh: the end of the data is the end of the block
            std::unique_ptr<Block<wchar_t>> wblk;
            Pin<T> &pn = pin<T>();
            pn.n = n; pn.raw = blk.p; pn.rawz = nullptr; pn.objects = false;
            if (e == E32) { wblk.reset(new Block<wchar_t>(n, lead)); Pin<wchar_t> &pw = pin<wchar_t>(); pw.n = n; pw.raw = wblk->p; pw.rawz = nullptr; pw.objects = false; }
            const long b = static_cast<long>((8 - reinterpret_cast<uintptr_t>(blk.p) % 8) / sizeof(T));
            const long at = o < 17 ? o : b + (o - 17) - 3;
            const Piece<T> p = which == 0 || wellformed || e == EL ? big::valid_piece(r, e, asciibg) : big::ill_piece(r, r.chance(1, 2), static_cast<const T *>(nullptr));
            if (at < 0 || static_cast<size_t>(at) + p.u.size() > n) continue;
            Str<T> s = ascii_text<T>(r, n, (o + which) % 3 == 0);
            s.replace(static_cast<size_t>(at), p.u.size(), p.u);
            if (wellformed) must_be_scalars(decode(e, s), "alignment");
            g_note = sfmt(" [alignment: %zu units at %p (address mod 8 = %u), the only unit(s) that are not plain ASCII at offset %ld = first 8-byte address boundary %+ld]", n, static_cast<const void *>(blk.p),
                          static_cast<unsigned>(reinterpret_cast<uintptr_t>(blk.p) % 8), at, at - b);
            record_note();
            put(in, s);
            feed(e, in, (o + which) % 8 == 0);
            ++ninputs;
            vrt::distinct(vrt::fnv1a(s.data(), s.size() * sizeof(T), 79 + static_cast<uint64_t>(e)));
            if (at < b && static_cast<long>(at + p.u.size()) > b) vrt::count("alignment.piece_across_the_first_8_byte_address_boundary");
            else if (at >= b && at < b + 8) vrt::count("alignment.piece_0..7_units_behind_the_first_8_byte_address_boundary");
        }
    }
    vrt::count("alignment.cases");
    vrt::count("alignment.inputs", ninputs);
    vrt::count(sfmt("alignment.start_address_mod_16.%zu", lead));
    if (vrt::want_sample("alignment") && lead % 8 && n >= 32) vrt::sample("alignment", g_note.substr(2, g_note.size() - 3));
}

static void alignment_phase(bool wellformed)
{
    static const size_t NL[] = {8, 16, 17, 31, 32, 33, 40, 64, 65};
    const size_t NN = sizeof(NL) / sizeof(NL[0]);
    vrt::require("alignment.cases", vrt::opt().scale < 1.0 ? 20 : 500);
    vrt::require("alignment.piece_across_the_first_8_byte_address_boundary", vrt::opt().scale < 1.0 ? 20 : 500);
    vrt::require("alignment.piece_0..7_units_behind_the_first_8_byte_address_boundary", vrt::opt().scale < 1.0 ? 50 : 2000);
    vrt::phase("alignment", vrt::tier_count(4 * 16 * NN, 4 * 16 * NN * 8), [&, wellformed, NN](uint64_t i, Rng &r) {
        const Enc e = static_cast<Enc>(i % 4);
        const size_t idx = i / 4, n = NL[(idx / 16) % NN];
        size_t lead = idx % 16;
        switch (e) {
        case E16: alignment_case<char16_t>(r, wellformed, e, n, lead & ~size_t(1)); break;
        case E32: alignment_case<char32_t>(r, wellformed, e, n, lead & ~size_t(3)); break;
        default: alignment_case<char>(r, wellformed, e, n, lead); break;
        }
    });
}

} // namespace pinned

// Inputs whose UTF-8 *result* is just above 256 MiB while the input itself is below 256 Mi units (the documented size
// contract is about the input).  One conversion per case (about 1 s and 0.5 GB each), checked by size, ends and terminator.
static void huge_result_phase()
{
    if (vrt::opt().scale < 1.0) return;          // not under valgrind (the scaled-down memcheck pass)
    vrt::require("inputs.huge_result", 3);
    vrt::phase("huge_results", 3, [&](uint64_t i, Rng &) {
        vrt::case_cpu_budget() = 600;
        const size_t target = (size_t(1) << 28) + 64;            // bytes of UTF-8 to produce
        g_route = i == 0 ? "latin_1_to_utf8(huge)" : i == 1 ? "utf16_to_utf8(huge)" : "utf32_to_utf8(huge)";
        g_mode = "check_validity";
        vrt::cur_rewind();
        vrt::cur_printf("%s producing %zu bytes\n", g_route, target);
        Input none{8, {}, {}, {}};
        set_input(none);
        try {
            ST::char_buffer out;
            size_t units = 0;
            if (i == 0) { units = target / 2; std::string in(units, static_cast<char>(0xE9)); out = ST::latin_1_to_utf8(in.data(), in.size()); }
            else if (i == 1) { units = target / 3 + 1; std::u16string in(units, char16_t(0x4E2D)); out = ST::utf16_to_utf8(in.data(), in.size(), ST::check_validity); }
            else { units = target / 4; std::u32string in(units, char32_t(0x1F600)); out = ST::utf32_to_utf8(in.data(), in.size(), ST::check_validity);
                   // the same units through the straight-copy wchar_t conversions (64 Mi+ units, 256 MiB+ of data in and out)
                   ST::wchar_buffer w = ST::utf32_to_wchar(in.data(), in.size(), ST::check_validity);
                   if (w.size() != units || w[0] != wchar_t(0x1F600) || w[units - 1] != wchar_t(0x1F600) || w.data()[units] != 0) fail("wrong-units", "utf32_to_wchar of the huge input");
                   ST::utf32_buffer back = ST::wchar_to_utf32(w, ST::check_validity);
                   if (back.size() != units || back[units / 2] != char32_t(0x1F600) || back.data()[units] != 0) fail("wrong-units", "wchar_to_utf32 of the huge input");
                   vrt::evals(2); }
            vrt::evals();
            const size_t per = i == 0 ? 2 : i == 1 ? 3 : 4;
            static const char *const enc[] = {"\xC3\xA9", "\xE4\xB8\xAD", "\xF0\x9F\x98\x80"};
            if (out.size() != units * per) fail("wrong-size", sfmt("%zu units gave %zu bytes", units, out.size()));
            else if (memcmp(out.data(), enc[i], per) != 0 || memcmp(out.data() + out.size() - per, enc[i], per) != 0 || memcmp(out.data() + (out.size() / per / 2) * per, enc[i], per) != 0)
                fail("wrong-units", "first / middle / last character of the huge result");
            else if (out.data()[out.size()] != 0) fail("no-terminator", "huge result");
        } catch (const std::exception &e) {
            fail("unexpected-exception", sfmt("%s: %s", vrt::demangle(typeid(e).name()).c_str(), e.what()));
        }
        vrt::case_cpu_budget() = 30;
        vrt::count("inputs.huge_result");
    });
}

static void c02_body()
{
    PROP = "C02";
    vrt::require("inputs.utf8", 10000);
    vrt::require("inputs.utf16", 5000);
    vrt::require("inputs.utf32", 2000);
    vrt::require("inputs.with_bad_units", 10000);
    vrt::require("inputs.acceptable", 1000);
    vrt::require("inputs.with_tolerated_forms", 1000);
    vrt::require("inputs.embedded_in_valid_text", 1000);
    vrt::require("inputs.truncations", 100);
    vrt::note(sfmt("this binary was compiled with -DST_DEFAULT_VALIDATION selecting %s; calls that omit the mode are compared with that mode", mname(EXPECT_DEFAULT == ST::assume_valid ? 0 : EXPECT_DEFAULT == ST::substitute_invalid ? 1 : 2)));
    vrt::count(sfmt("configuration.default=%s", mname(EXPECT_DEFAULT == ST::assume_valid ? 0 : EXPECT_DEFAULT == ST::substitute_invalid ? 1 : 2)));
    malformed_phases(false);
    scale_phase(false, 500);
    pinned::same_storage_phase(false, 6);
    pinned::alignment_phase(false);
    pinned::soak_phase(false);
}

static void c03_body()
{
    PROP = "C03";
    vrt::require("inputs.utf8", 10000);
    vrt::require("inputs.utf16", 5000);
    vrt::require("inputs.utf32", 2000);
    vrt::require("inputs.garbage", 1000);
    vrt::require("inputs.truncations", 100);
    vrt::require("inputs.null_or_empty", 1);
    vrt::require("inputs.long", 3);
    malformed_phases(true);
    scale_phase(false, 1000);
    pinned::same_storage_phase(false, 10);
    pinned::alignment_phase(false);
    pinned::soak_phase(false);
    huge_result_phase();
}

static void body()
{
    ambient::enable(4);
    if (vrt::is_prop("C02")) c02_body();
    else if (vrt::is_prop("C03")) c03_body();
    else c01_body();
    vrt::alloc::check_pairing("conv");
}

#ifdef VRT_FUZZ
// libFuzzer front end (thorough tier of C02/C03): first byte selects the source encoding,
// the rest are its code units; the input goes through the same per-input monitors as the
// generated ones (run8/run16/run32: every route, every mode, reference comparison, ASan).
static void vrt_fuzz_one(const uint8_t *d, size_t n)
{
    PROP = vrt::is_prop("C03") ? "C03" : "C02";
    if (n == 0) return;
    const unsigned sel = d[0] % 3;
    ++d; --n;
    if (sel == 0) {
        run8(S(reinterpret_cast<const char *>(d), n), true);
    } else if (sel == 1) {
        S16 s(n / 2, u'\0');
        if (!s.empty()) memcpy(&s[0], d, s.size() * 2);
        run16(s, true);
    } else {
        S32 s(n / 4, U'\0');
        if (!s.empty()) memcpy(&s[0], d, s.size() * 4);
        run32(s, true);
    }
    vrt::count("fuzz.inputs");
}
#endif

VRT_MAIN(body)
