// C01 / C02 / C03 - every conversion route against the reference decoders and
// encoders of rt/ref_unicode.h, under ASan+UBSan, with inputs in exact-size
// heap blocks (no terminator unless the API demands one).
//
//  --prop C01: well-formed text (all scalars in 13 neighbour contexts, Latin-1)
//  --prop C02: malformed text, three validation modes, configured default mode
//  --prop C03: arbitrary garbage / truncations / empty / null / long inputs
#include "vrt.h"
#include "vrt_alloc.h"
#include "vrt_st.h"
#include "ref_unicode.h"
#include "gen_text.h"

using vrt::Rng;
using vrt::sfmt;
typedef std::string S;
typedef std::u16string S16;
typedef std::u32string S32;
typedef std::wstring SW;

static_assert(sizeof(wchar_t) == 4, "this harness is written for 4-byte wchar_t (see DESIGN section 7)");

static const ST::utf_validation_t MODES[3] = {ST::assume_valid, ST::substitute_invalid, ST::check_validity};
static const char *PROP = "C01";
#ifdef VRT_EXPECT_DEFAULT
static const ST::utf_validation_t EXPECT_DEFAULT = MODES[VRT_EXPECT_DEFAULT];
static const bool HAVE_EXPECT_DEFAULT = true;
#else
static const ST::utf_validation_t EXPECT_DEFAULT = ST::check_validity;
static const bool HAVE_EXPECT_DEFAULT = false;
#endif

template <typename T> static std::string showu(const std::basic_string<T> &s) { return vrt::hex(s.data(), s.size(), sizeof(T), 48); }
static SW to_w(const S32 &s) { return SW(s.begin(), s.end()); }

struct Input {
    int enc;          // 8, 16, 32 (32 also drives the wchar_t routes), 1 = Latin-1
    S u8;
    S16 u16;
    S32 u32;
    std::string describe() const
    {
        switch (enc) {
        case 8: return "utf8:" + showu(u8);
        case 16: return "utf16:" + showu(u16);
        case 32: return "utf32:" + showu(u32);
        default: return "latin1:" + showu(u8);
        }
    }
};

static const char LONG_OLD[] = "an old value that is long enough to live on the heap";
static const Input *g_in = nullptr;
static const char *g_route = "";
static const char *g_mode = "";

static void fail(const char *kind, const std::string &detail)
{
    vrt::violation(sfmt("%s:%s:%s", PROP, g_route, kind), sfmt("input=%s mode=%s %s", g_in->describe().c_str(), g_mode, detail.c_str()));
}

// result adapters -> std::basic_string, with the size/terminator monitor
template <typename T> static std::basic_string<T> units(const ST::buffer<T> &b)
{
    if (b.data()[b.size()] != T()) fail("no-terminator", sfmt("size=%zu", b.size()));
    return std::basic_string<T>(b.data(), b.size());
}
static S units(const ST::string &s)
{
    if (s.c_str()[s.size()] != 0) fail("no-terminator", sfmt("size=%zu", s.size()));
    return S(s.c_str(), s.size());
}
template <typename T> static std::basic_string<T> units(const std::basic_string<T> &s) { return s; }
static S units(const std::u8string &s) { return S(reinterpret_cast<const char *>(s.data()), s.size()); }

// run one route: expect either `want` or ST::unicode_error
template <typename T, typename F>
static void route(const char *name, const char *mode, bool want_ok, const std::basic_string<T> &want, F &&f)
{
    g_route = name;
    g_mode = mode;
    vrt::evals();
    vrt::cur_rewind();
    vrt::cur_printf("route=%s mode=%s input=%s\n", name, mode, g_in->describe().c_str());
    try {
        std::basic_string<T> got = units(f());
        if (!want_ok) fail("accepted-invalid", "got=" + showu(got));
        else if (got != want) fail(got.size() != want.size() ? "wrong-size" : "wrong-units", sfmt("got=%s want=%s", showu(got).c_str(), showu(want).c_str()));
    } catch (const ST::unicode_error &e) {
        if (want_ok) fail("unexpected-unicode_error", e.what());
    }
}

struct Expect {
    bool ok8, ok16, ok32, okL, okLs;
    S e8, eL, eLs;
    S16 e16;
    S32 e32;
};
static Expect expect(const ref::Decoded &d, bool strict)
{
    Expect e;
    e.ok8 = ref::to_utf8(d, strict, e.e8);
    e.ok16 = ref::to_utf16(d, strict, e.e16);
    e.ok32 = ref::to_utf32(d, strict, e.e32);
    e.okL = ref::to_latin1(d, strict, true, e.eL);
    e.okLs = ref::to_latin1(d, strict, false, e.eLs);
    return e;
}
static const char *mname(int m) { return m == 0 ? "assume_valid" : m == 1 ? "substitute_invalid" : "check_validity"; }

// ---------------------------------------------------------------- ST::string -> everything
static void string_outputs(const ST::string &s, const S &bytes)
{
    const ref::Decoded d = ref::decode_utf8(bytes);
    const Expect e = expect(d, false);             // to_* read the stored bytes with assume_valid
    const char *m = "n/a";
    route<char>("string.to_utf8", m, true, bytes, [&] { return s.to_utf8(); });
    route<char16_t>("string.to_utf16", m, true, e.e16, [&] { return s.to_utf16(); });
    route<char32_t>("string.to_utf32", m, true, e.e32, [&] { return s.to_utf32(); });
    route<wchar_t>("string.to_wchar", m, true, to_w(e.e32), [&] { return s.to_wchar(); });
    route<char>("string.to_latin_1", m, true, e.eL, [&] { return s.to_latin_1(); });
    route<char>("string.to_latin_1(false)", m, e.okLs, e.eLs, [&] { return s.to_latin_1(false); });
    route<char>("string.to_std_string", m, true, bytes, [&] { return s.to_std_string(); });
    route<char>("string.to_std_string(latin1)", m, true, e.eL, [&] { return s.to_std_string(false); });
    route<char>("string.to_std_string(latin1,false)", m, e.okLs, e.eLs, [&] { return s.to_std_string(false, false); });
    route<char>("string.to_std_string(&)", m, true, bytes, [&] { S r = "junk"; s.to_std_string(r); return r; });
    route<wchar_t>("string.to_std_wstring", m, true, to_w(e.e32), [&] { return s.to_std_wstring(); });
    route<char16_t>("string.to_std_u16string", m, true, e.e16, [&] { return s.to_std_u16string(); });
    route<char32_t>("string.to_std_u32string", m, true, e.e32, [&] { return s.to_std_u32string(); });
    route<char>("string.to_std_u8string", m, true, bytes, [&] { return s.to_std_u8string(); });
    route<wchar_t>("string.to_std_string(wstring&)", m, true, to_w(e.e32), [&] { SW r = L"junk"; s.to_std_string(r); return r; });
    route<char16_t>("string.to_std_string(u16string&)", m, true, e.e16, [&] { S16 r = u"junk"; s.to_std_string(r); return r; });
    route<char32_t>("string.to_std_string(u32string&)", m, true, e.e32, [&] { S32 r = U"junk"; s.to_std_string(r); return r; });
    route<char>("string.to_buffer(char)", m, true, bytes, [&] { ST::char_buffer b("zz", 2); s.to_buffer(b); return b; });
    route<char>("string.to_buffer(char,latin1)", m, true, e.eL, [&] { ST::char_buffer b("previous contents, long enough for the heap", 42); s.to_buffer(b, false); return b; });
    route<char16_t>("string.to_buffer(utf16)", m, true, e.e16, [&] { ST::utf16_buffer b(u"previous contents, long enough", 29); s.to_buffer(b); return b; });
    route<char32_t>("string.to_buffer(utf32)", m, true, e.e32, [&] { ST::utf32_buffer b(U"prev", 4); s.to_buffer(b); return b; });
    route<wchar_t>("string.to_buffer(wchar)", m, true, to_w(e.e32), [&] { ST::wchar_buffer b(L"previous contents, long enough", 29); s.to_buffer(b); return b; });
    route<char>("string.view", m, true, bytes, [&] { return S(s.view()); });
    route<char>("string.view(1,n-1)", m, true, bytes.empty() ? bytes : bytes.substr(1), [&] { return bytes.empty() ? S(s.view()) : S(s.view(1)); });
    route<char>("string.to_std_string(u8string&)", m, true, bytes, [&] { std::u8string r = u8"junk"; s.to_std_string(r); return r; });
    route<char>("string.to_std_string(&,latin1,false)", m, e.okLs, e.eLs, [&] { S r = "junk"; s.to_std_string(r, false, false); return r; });
    // deprecated overloads taking a validation mode: substitute_invalid means "substitute out-of-range characters"
    route<char>("string.to_latin_1(substitute_invalid) [deprecated]", m, true, e.eL, [&] { return s.to_latin_1(ST::substitute_invalid); });
    route<char>("string.to_latin_1(check_validity) [deprecated]", m, e.okLs, e.eLs, [&] { return s.to_latin_1(ST::check_validity); });
    route<char>("string.to_std_string(false,substitute_invalid) [deprecated]", m, true, e.eL, [&] { return s.to_std_string(false, ST::substitute_invalid); });
    route<char>("string.to_std_string(false,check_validity) [deprecated]", m, e.okLs, e.eLs, [&] { return s.to_std_string(false, ST::check_validity); });
    route<char>("string.to_std_string(&,true,check_validity) [deprecated]", m, true, bytes, [&] { S r = "junk"; s.to_std_string(r, true, ST::check_validity); return r; });
    route<char>("string.to_std_string(&,true,substitute_invalid) [deprecated]", m, true, bytes, [&] { S r = "junk"; s.to_std_string(r, true, ST::substitute_invalid); return r; });
    route<char>("string.to_std_string(&,false,substitute_invalid) [deprecated]", m, true, e.eL, [&] { S r = "junk"; s.to_std_string(r, false, ST::substitute_invalid); return r; });
    route<char>("string.to_std_string(&,false,check_validity) [deprecated]", m, e.okLs, e.eLs, [&] { S r = "junk"; s.to_std_string(r, false, ST::check_validity); return r; });
    route<char>("string.to_std_string(true,assume_valid) [deprecated]", m, true, bytes, [&] { return s.to_std_string(true, ST::assume_valid); });
    route<char>("string.to_buffer(char,false,substitute_invalid) [deprecated]", m, true, e.eL, [&] { ST::char_buffer b("prev", 4); s.to_buffer(b, false, ST::substitute_invalid); return b; });
    route<char>("string.to_buffer(char,false,check_validity) [deprecated]", m, e.okLs, e.eLs, [&] { ST::char_buffer b; s.to_buffer(b, false, ST::check_validity); return b; });
    route<char>("string.to_buffer(char,true,check_validity) [deprecated]", m, true, bytes, [&] { ST::char_buffer b("previous contents, long enough for the heap", 42); s.to_buffer(b, true, ST::check_validity); return b; });
    route<char>("string.c_str/u8_str", m, true, bytes, [&] { return S(s.c_str(), s.size()) == S(reinterpret_cast<const char *>(s.u8_str()), s.size()) ? S(s.data(), s.size()) : S("c_str and u8_str differ"); });
}

// ---------------------------------------------------------------- UTF-8 source
static void from_utf8(const Input &in, bool full)
{
    g_in = &in;
    const S &b = in.u8;
    const ref::Decoded d = ref::decode_utf8(b);
    const bool bad = ref::has_bad(d);
    vrt::Exact<char> x(b.data(), b.size());              // exactly n bytes, no NUL
    const char *p = x.data();
    const size_t n = b.size();
    const char8_t *p8 = reinterpret_cast<const char8_t *>(p);
    ST::char_buffer cb(b.data(), b.size());
    for (int mi = 0; mi < 3; ++mi) {
        const ST::utf_validation_t m = MODES[mi];
        const bool strict = mi == 2;
        const Expect e = expect(d, strict);
        const char *mn = mname(mi);
        route<char16_t>("utf8_to_utf16", mn, e.ok16, e.e16, [&] { return ST::utf8_to_utf16(p, n, m); });
        route<char32_t>("utf8_to_utf32", mn, e.ok32, e.e32, [&] { return ST::utf8_to_utf32(p, n, m); });
        route<wchar_t>("utf8_to_wchar", mn, e.ok32, to_w(e.e32), [&] { return ST::utf8_to_wchar(p, n, m); });
        route<char>("utf8_to_latin_1", mn, e.okL, e.eL, [&] { return ST::utf8_to_latin_1(p, n, m); });
        route<char>("utf8_to_latin_1(false)", mn, e.okLs, e.eLs, [&] { return ST::utf8_to_latin_1(p, n, m, false); });
        // UTF-8 -> ST::string keeps the bytes: verbatim (assume), repaired (substitute), or rejected (check)
        const S wants = mi == 0 ? b : mi == 1 ? ref::cleanup_utf8(b) : b;
        const bool oks = !(strict && bad);
        route<char>("string(const char*,n)", mn, oks, wants, [&] { return ST::string(p, n, m); });
        if (full) {
            route<char16_t>("utf8_to_utf16(buffer)", mn, e.ok16, e.e16, [&] { return ST::utf8_to_utf16(cb, m); });
            route<char32_t>("utf8_to_utf32(buffer)", mn, e.ok32, e.e32, [&] { return ST::utf8_to_utf32(cb, m); });
            route<wchar_t>("utf8_to_wchar(buffer)", mn, e.ok32, to_w(e.e32), [&] { return ST::utf8_to_wchar(cb, m); });
            route<char>("utf8_to_latin_1(buffer)", mn, e.okL, e.eL, [&] { return ST::utf8_to_latin_1(cb, m); });
            route<char>("utf8_to_latin_1(buffer,false)", mn, e.okLs, e.eLs, [&] { return ST::utf8_to_latin_1(cb, m, false); });
            route<char16_t>("utf8_to_utf16(char8_t)", mn, e.ok16, e.e16, [&] { return ST::utf8_to_utf16(p8, n, m); });
            route<char32_t>("utf8_to_utf32(char8_t)", mn, e.ok32, e.e32, [&] { return ST::utf8_to_utf32(p8, n, m); });
            route<wchar_t>("utf8_to_wchar(char8_t)", mn, e.ok32, to_w(e.e32), [&] { return ST::utf8_to_wchar(p8, n, m); });
            route<char>("utf8_to_latin_1(char8_t)", mn, e.okL, e.eL, [&] { return ST::utf8_to_latin_1(p8, n, m); });
            route<char>("string(const char8_t*,n)", mn, oks, wants, [&] { return ST::string(p8, n, m); });
            route<char>("string::from_utf8", mn, oks, wants, [&] { return ST::string::from_utf8(p, n, m); });
            route<char>("string::from_utf8(char8_t)", mn, oks, wants, [&] { return ST::string::from_utf8(p8, n, m); });
            route<char>("string::from_utf8(buffer)", mn, oks, wants, [&] { return ST::string::from_utf8(cb, m); });
            route<char>("string(char_buffer)", mn, oks, wants, [&] { return ST::string(cb, m); });
            route<char>("string(char_buffer&&)", mn, oks, wants, [&] { ST::char_buffer t(cb); return ST::string(std::move(t), m); });
            route<char>("string.set(const char*,n)", mn, oks, wants, [&] { ST::string s("old"); s.set(p, n, m); return s; });
            route<char>("string.set(char8_t*,n)", mn, oks, wants, [&] { ST::string s("old"); s.set(p8, n, m); return s; });
            route<char>("string.set(char_buffer)", mn, oks, wants, [&] { ST::string s("old"); s.set(cb, m); return s; });
            route<char>("string.set(char_buffer&&)", mn, oks, wants, [&] { ST::string s("old"); ST::char_buffer t(cb); s.set(std::move(t), m); return s; });
            // ... the same over a target that holds a long (heap) value
            route<char>("string.set(const char*,n) over long", mn, oks, wants, [&] { ST::string s(LONG_OLD); s.set(p, n, m); return s; });
            route<char>("string.set(char_buffer) over long", mn, oks, wants, [&] { ST::string s(LONG_OLD); s.set(cb, m); return s; });
            route<char>("string.set(char_buffer&&) over long", mn, oks, wants, [&] { ST::string s(LONG_OLD); ST::char_buffer t(cb); s.set(std::move(t), m); return s; });
            route<char>("string=string&& over long", mn, oks, wants, [&] { ST::string s(LONG_OLD); s = ST::string(p, n, m); return s; });
            // a string that holds these bytes verbatim, re-validated through its own storage: same outcome as through any other pointer
            route<char>("string.set(own c_str,size)", mn, oks, wants, [&] { ST::string s = ST::string::from_validated(p, n); s.set(s.c_str(), s.size(), m); return s; });
            route<char>("string.set(own view)", mn, oks, wants, [&] { ST::string s = ST::string::from_validated(p, n); s.set(s.view(), m); return s; });
            route<char>("string.set(own u8_str,size)", mn, oks, wants, [&] { ST::string s = ST::string::from_validated(p, n); s.set(s.u8_str(), s.size(), m); return s; });
            route<char>("string(std::string)", mn, oks, wants, [&] { return ST::string(b, m); });
            route<char>("string(string_view)", mn, oks, wants, [&] { return ST::string(std::string_view(p, n), m); });
            route<char>("string(u8string)", mn, oks, wants, [&] { return ST::string(std::u8string(p8, n), m); });
            route<char>("string(u8string_view)", mn, oks, wants, [&] { return ST::string(std::u8string_view(p8, n), m); });
            route<char>("string.set(std::string)", mn, oks, wants, [&] { ST::string s; s.set(b, m); return s; });
            route<char>("string.set(string_view)", mn, oks, wants, [&] { ST::string s; s.set(std::string_view(p, n), m); return s; });
            route<char>("string.set(u8string)", mn, oks, wants, [&] { ST::string s; s.set(std::u8string(p8, n), m); return s; });
            route<char>("string.set(u8string_view)", mn, oks, wants, [&] { ST::string s; s.set(std::u8string_view(p8, n), m); return s; });
            route<char>("string::from_std_string", mn, oks, wants, [&] { return ST::string::from_std_string(b, m); });
            route<char>("string::from_std_string(view)", mn, oks, wants, [&] { return ST::string::from_std_string(std::string_view(p, n), m); });
            route<char>("string::from_std_string(u8string)", mn, oks, wants, [&] { return ST::string::from_std_string(std::u8string(p8, n), m); });
            route<char>("string::from_std_string(u8view)", mn, oks, wants, [&] { return ST::string::from_std_string(std::u8string_view(p8, n), m); });
        }
        // repaired output passes check_validity (always for UTF-8 -> UTF-8)
        if (mi == 1) {
            g_route = "string(substitute)->revalidate";
            try {
                ST::string rep(p, n, ST::substitute_invalid);
                vrt::evals();
                try { ST::string again(rep.c_str(), rep.size(), ST::check_validity); }
                catch (const ST::unicode_error &) { fail("repaired-output-fails-check_validity", "repaired=" + vrt::hex(rep.c_str(), rep.size())); }
                if (!ref::has_nonscalar(d)) {
                    ST::utf16_buffer r16 = ST::utf8_to_utf16(p, n, ST::substitute_invalid);
                    ST::utf32_buffer r32 = ST::utf8_to_utf32(p, n, ST::substitute_invalid);
                    try { (void)ST::utf16_to_utf32(r16, ST::check_validity); (void)ST::utf32_to_utf8(r32, ST::check_validity); }
                    catch (const ST::unicode_error &) { fail("repaired-output-fails-check_validity", "utf16/utf32 result"); }
                    vrt::evals(2);
                }
            } catch (const ST::unicode_error &e) { fail("substitute_invalid-threw", e.what()); }
        }
    }
    // calls that omit the mode behave as the configured default
    {
        const int di = EXPECT_DEFAULT == ST::assume_valid ? 0 : EXPECT_DEFAULT == ST::substitute_invalid ? 1 : 2;
        const bool strict = di == 2;
        const Expect e = expect(d, strict);
        const S wants = di == 1 ? ref::cleanup_utf8(b) : b;
        const bool oks = !(strict && bad);
        const char *mn = "default";
        if (HAVE_EXPECT_DEFAULT || !bad) {
            route<char16_t>("utf8_to_utf16", mn, e.ok16, e.e16, [&] { return ST::utf8_to_utf16(p, n); });
            route<char32_t>("utf8_to_utf32", mn, e.ok32, e.e32, [&] { return ST::utf8_to_utf32(p, n); });
            route<wchar_t>("utf8_to_wchar", mn, e.ok32, to_w(e.e32), [&] { return ST::utf8_to_wchar(p, n); });
            route<char>("utf8_to_latin_1", mn, e.okL, e.eL, [&] { return ST::utf8_to_latin_1(p, n); });
            route<char>("string(const char*,n)", mn, oks, wants, [&] { return ST::string(p, n); });
            route<char>("string::from_utf8", mn, oks, wants, [&] { return ST::string::from_utf8(p, n); });
            if (full) {
                route<char16_t>("utf8_to_utf16(buffer)", mn, e.ok16, e.e16, [&] { return ST::utf8_to_utf16(cb); });
                route<char32_t>("utf8_to_utf32(buffer)", mn, e.ok32, e.e32, [&] { return ST::utf8_to_utf32(cb); });
                route<char>("string(char_buffer)", mn, oks, wants, [&] { return ST::string(cb); });
                route<char>("string=char_buffer", mn, oks, wants, [&] { ST::string s; s = cb; return s; });
                route<char>("string(std::string)", mn, oks, wants, [&] { return ST::string(b); });
                route<char>("string=std::string", mn, oks, wants, [&] { ST::string s; s = b; return s; });
                route<char>("string=string_view", mn, oks, wants, [&] { ST::string s; s = std::string_view(p, n); return s; });
                route<char>("string.set(const char*,n)", mn, oks, wants, [&] { ST::string s; s.set(p, n); return s; });
                if (b.find('\0') == S::npos) {
                    vrt::Exact<char> z(b.data(), b.size(), true);
                    route<char>("string(const char*)", mn, oks, wants, [&] { return ST::string(z.data()); });
                    route<char>("string=const char*", mn, oks, wants, [&] { ST::string s("x"); s = z.data(); return s; });
                    route<char>("string=const char8_t*", mn, oks, wants, [&] { ST::string s("x"); s = reinterpret_cast<const char8_t *>(z.data()); return s; });
                    route<char>("string::from_utf8(cstr)", mn, oks, wants, [&] { return ST::string::from_utf8(z.data()); });
                    route<char>("string.set(cstr)", mn, oks, wants, [&] { ST::string s; s.set(z.data()); return s; });
                }
            }
        }
    }
    // verbatim routes and everything an ST::string can be converted to
    if (full || !bad) {
        route<char>("string::from_validated", "n/a", true, b, [&] { return ST::string::from_validated(p, n); });
        route<char>("string::from_validated(char8_t)", "n/a", true, b, [&] { return ST::string::from_validated(p8, n); });
        route<char>("string::from_validated(buffer)", "n/a", true, b, [&] { return ST::string::from_validated(cb); });
        route<char>("string.set_validated", "n/a", true, b, [&] { ST::string s("old"); s.set_validated(p, n); return s; });
        route<char>("string.set_validated(char8_t)", "n/a", true, b, [&] { ST::string s(LONG_OLD); s.set_validated(p8, n); return s; });
        route<char>("string.set_validated(char_buffer)", "n/a", true, b, [&] { ST::string s("old"); s.set_validated(cb); return s; });
        route<char>("string.set_validated(char_buffer) over long", "n/a", true, b, [&] { ST::string s(LONG_OLD); s.set_validated(cb); return s; });
        route<char>("string.set_validated(char_buffer&&)", "n/a", true, b, [&] { ST::string s(LONG_OLD); ST::char_buffer t(cb); s.set_validated(std::move(t)); return s; });
        route<char>("string::from_validated(buffer&&)", "n/a", true, b, [&] { ST::char_buffer t(cb); return ST::string::from_validated(std::move(t)); });
        route<char>("string.set_validated over long", "n/a", true, b, [&] { ST::string s(LONG_OLD); s.set_validated(p, n); return s; });
        route<char>("operator\"\"_st(char)", "n/a", true, b, [&] { return ST::literals::operator""_st(p, n); });
        route<char>("operator\"\"_st(char8_t)", "n/a", true, b, [&] { return ST::literals::operator""_st(p8, n); });
        route<char>("operator\"\"_stbuf(char)", "n/a", true, b, [&] { return ST::literals::operator""_stbuf(p, n); });
        route<char>("operator\"\"_stbuf(char8_t)", "n/a", true, b, [&] { return ST::literals::operator""_stbuf(p8, n); });
        vrt::Box<ST::string> st(ST::string::from_validated(p, n));
        string_outputs(*st, b);
        // std::filesystem::path routes (text without NUL; a path is a C string underneath)
        if (full && !bad && !ref::has_nonscalar(d) && b.find('\0') == S::npos) {
            const std::filesystem::path pth(std::u8string(p8, n));
            route<char>("string(path)", "n/a", true, b, [&] { return ST::string(pth); });
            route<char>("string.set(path)", "n/a", true, b, [&] { ST::string s("old value that is long enough for the heap"); s.set(pth); return s; });
            route<char>("string=path", "n/a", true, b, [&] { ST::string s("old"); s = pth; return s; });
            route<char>("string::from_path", "n/a", true, b, [&] { return ST::string::from_path(pth); });
            route<char>("string.to_path", "n/a", true, b, [&] { return st->to_path().u8string(); });
            route<char>("string_stream<<path", "n/a", true, b, [&] { ST::string_stream ss; ss << pth; return S(ss.raw_buffer(), ss.size()); });
            route<char>("format(path)", "n/a", true, b, [&] { return ST::format(ST::assume_valid, "{}", pth); });
        }
    }
}

// ---------------------------------------------------------------- UTF-16 source
static void from_utf16(const Input &in, bool full)
{
    g_in = &in;
    const S16 &u = in.u16;
    const ref::Decoded d = ref::decode_utf16(u.data(), u.size());
    vrt::Exact<char16_t> x(u.data(), u.size());
    const char16_t *p = x.data();
    const size_t n = u.size();
    ST::utf16_buffer ub(u.data(), u.size());
    for (int mi = 0; mi < 3; ++mi) {
        const ST::utf_validation_t m = MODES[mi];
        const Expect e = expect(d, mi == 2);
        const char *mn = mname(mi);
        route<char>("utf16_to_utf8", mn, e.ok8, e.e8, [&] { return ST::utf16_to_utf8(p, n, m); });
        route<char32_t>("utf16_to_utf32", mn, e.ok32, e.e32, [&] { return ST::utf16_to_utf32(p, n, m); });
        route<wchar_t>("utf16_to_wchar", mn, e.ok32, to_w(e.e32), [&] { return ST::utf16_to_wchar(p, n, m); });
        route<char>("utf16_to_latin_1", mn, e.okL, e.eL, [&] { return ST::utf16_to_latin_1(p, n, m); });
        route<char>("utf16_to_latin_1(false)", mn, e.okLs, e.eLs, [&] { return ST::utf16_to_latin_1(p, n, m, false); });
        route<char>("string(const char16_t*,n)", mn, e.ok8, e.e8, [&] { return ST::string(p, n, m); });
        if (full) {
            route<char>("utf16_to_utf8(buffer)", mn, e.ok8, e.e8, [&] { return ST::utf16_to_utf8(ub, m); });
            route<char32_t>("utf16_to_utf32(buffer)", mn, e.ok32, e.e32, [&] { return ST::utf16_to_utf32(ub, m); });
            route<wchar_t>("utf16_to_wchar(buffer)", mn, e.ok32, to_w(e.e32), [&] { return ST::utf16_to_wchar(ub, m); });
            route<char>("utf16_to_latin_1(buffer)", mn, e.okL, e.eL, [&] { return ST::utf16_to_latin_1(ub, m); });
            route<char>("utf16_to_latin_1(buffer,false)", mn, e.okLs, e.eLs, [&] { return ST::utf16_to_latin_1(ub, m, false); });
            route<char>("string::from_utf16", mn, e.ok8, e.e8, [&] { return ST::string::from_utf16(p, n, m); });
            route<char>("string::from_utf16(buffer)", mn, e.ok8, e.e8, [&] { return ST::string::from_utf16(ub, m); });
            route<char>("string(utf16_buffer)", mn, e.ok8, e.e8, [&] { return ST::string(ub, m); });
            route<char>("string.set(char16_t*,n)", mn, e.ok8, e.e8, [&] { ST::string s("old"); s.set(p, n, m); return s; });
            route<char>("string.set(utf16_buffer)", mn, e.ok8, e.e8, [&] { ST::string s("old"); s.set(ub, m); return s; });
            route<char>("string(u16string)", mn, e.ok8, e.e8, [&] { return ST::string(u, m); });
            route<char>("string(u16string_view)", mn, e.ok8, e.e8, [&] { return ST::string(std::u16string_view(p, n), m); });
            route<char>("string.set(u16string)", mn, e.ok8, e.e8, [&] { ST::string s; s.set(u, m); return s; });
            route<char>("string.set(u16string_view)", mn, e.ok8, e.e8, [&] { ST::string s; s.set(std::u16string_view(p, n), m); return s; });
            route<char>("string::from_std_string(u16string)", mn, e.ok8, e.e8, [&] { return ST::string::from_std_string(u, m); });
            route<char>("string::from_std_string(u16view)", mn, e.ok8, e.e8, [&] { return ST::string::from_std_string(std::u16string_view(p, n), m); });
        }
        if (mi == 1 && !ref::has_nonscalar(d)) {
            g_route = "utf16(substitute)->revalidate";
            try {
                ST::char_buffer r8 = ST::utf16_to_utf8(p, n, ST::substitute_invalid);
                ST::utf32_buffer r32 = ST::utf16_to_utf32(p, n, ST::substitute_invalid);
                vrt::evals(2);
                try { (void)ST::string(r8, ST::check_validity); (void)ST::utf32_to_utf16(r32, ST::check_validity); }
                catch (const ST::unicode_error &) { fail("repaired-output-fails-check_validity", ""); }
            } catch (const ST::unicode_error &e) { fail("substitute_invalid-threw", e.what()); }
        }
    }
    if (HAVE_EXPECT_DEFAULT || !ref::has_bad(d)) {
        const int di = EXPECT_DEFAULT == ST::assume_valid ? 0 : EXPECT_DEFAULT == ST::substitute_invalid ? 1 : 2;
        const Expect e = expect(d, di == 2);
        const char *mn = "default";
        route<char>("utf16_to_utf8", mn, e.ok8, e.e8, [&] { return ST::utf16_to_utf8(p, n); });
        route<char32_t>("utf16_to_utf32", mn, e.ok32, e.e32, [&] { return ST::utf16_to_utf32(p, n); });
        route<char>("utf16_to_latin_1", mn, e.okL, e.eL, [&] { return ST::utf16_to_latin_1(p, n); });
        route<char>("string(const char16_t*,n)", mn, e.ok8, e.e8, [&] { return ST::string(p, n); });
        if (full) {
            route<wchar_t>("utf16_to_wchar", mn, e.ok32, to_w(e.e32), [&] { return ST::utf16_to_wchar(p, n); });
            route<char>("utf16_to_utf8(buffer)", mn, e.ok8, e.e8, [&] { return ST::utf16_to_utf8(ub); });
            route<char>("string=utf16_buffer", mn, e.ok8, e.e8, [&] { ST::string s; s = ub; return s; });
            route<char>("string=u16string", mn, e.ok8, e.e8, [&] { ST::string s; s = u; return s; });
            route<char>("string=u16string_view", mn, e.ok8, e.e8, [&] { ST::string s; s = std::u16string_view(p, n); return s; });
            route<char>("string::from_utf16", mn, e.ok8, e.e8, [&] { return ST::string::from_utf16(p, n); });
            if (u.find(u'\0') == S16::npos) {
                vrt::Exact<char16_t> z(u.data(), u.size(), true);
                route<char>("string(const char16_t*)", mn, e.ok8, e.e8, [&] { return ST::string(z.data()); });
                route<char>("string=const char16_t*", mn, e.ok8, e.e8, [&] { ST::string s("x"); s = z.data(); return s; });
                route<char>("string::from_utf16(cstr)", mn, e.ok8, e.e8, [&] { return ST::string::from_utf16(z.data()); });
            }
        }
    }
    {
        // literal operators use assume_valid
        const Expect e = expect(d, false);
        route<char>("operator\"\"_st(char16_t)", "n/a", e.ok8, e.e8, [&] { return ST::literals::operator""_st(p, n); });
        route<char16_t>("operator\"\"_stbuf(char16_t)", "n/a", true, u, [&] { return ST::literals::operator""_stbuf(p, n); });
    }
}

// ---------------------------------------------------------------- UTF-32 / wchar_t source
static void from_utf32(const Input &in, bool full)
{
    g_in = &in;
    const S32 &u = in.u32;
    const SW w = to_w(u);
    const ref::Decoded d = ref::decode_utf32(u.data(), u.size());
    vrt::Exact<char32_t> x(u.data(), u.size());
    vrt::Exact<wchar_t> xw(w.data(), w.size());
    const char32_t *p = x.data();
    const wchar_t *pw = xw.data();
    const size_t n = u.size();
    ST::utf32_buffer ub(u.data(), u.size());
    ST::wchar_buffer wb(w.data(), w.size());
    for (int mi = 0; mi < 3; ++mi) {
        const ST::utf_validation_t m = MODES[mi];
        const Expect e = expect(d, mi == 2);
        const char *mn = mname(mi);
        route<char>("utf32_to_utf8", mn, e.ok8, e.e8, [&] { return ST::utf32_to_utf8(p, n, m); });
        route<char16_t>("utf32_to_utf16", mn, e.ok16, e.e16, [&] { return ST::utf32_to_utf16(p, n, m); });
        route<char>("utf32_to_latin_1", mn, e.okL, e.eL, [&] { return ST::utf32_to_latin_1(p, n, m); });
        route<char>("utf32_to_latin_1(false)", mn, e.okLs, e.eLs, [&] { return ST::utf32_to_latin_1(p, n, m, false); });
        route<char>("string(const char32_t*,n)", mn, e.ok8, e.e8, [&] { return ST::string(p, n, m); });
        route<char>("wchar_to_utf8", mn, e.ok8, e.e8, [&] { return ST::wchar_to_utf8(pw, n, m); });
        route<char16_t>("wchar_to_utf16", mn, e.ok16, e.e16, [&] { return ST::wchar_to_utf16(pw, n, m); });
        route<char>("wchar_to_latin_1", mn, e.okL, e.eL, [&] { return ST::wchar_to_latin_1(pw, n, m); });
        route<char>("string(const wchar_t*,n)", mn, e.ok8, e.e8, [&] { return ST::string(pw, n, m); });
        // same-width aliases are copies (DESIGN 6.3)
        route<wchar_t>("utf32_to_wchar", mn, true, w, [&] { return ST::utf32_to_wchar(p, n, m); });
        route<char32_t>("wchar_to_utf32", mn, true, u, [&] { return ST::wchar_to_utf32(pw, n, m); });
        if (full) {
            route<char>("utf32_to_utf8(buffer)", mn, e.ok8, e.e8, [&] { return ST::utf32_to_utf8(ub, m); });
            route<char16_t>("utf32_to_utf16(buffer)", mn, e.ok16, e.e16, [&] { return ST::utf32_to_utf16(ub, m); });
            route<char>("utf32_to_latin_1(buffer)", mn, e.okL, e.eL, [&] { return ST::utf32_to_latin_1(ub, m); });
            route<char>("utf32_to_latin_1(buffer,false)", mn, e.okLs, e.eLs, [&] { return ST::utf32_to_latin_1(ub, m, false); });
            route<wchar_t>("utf32_to_wchar(buffer)", mn, true, w, [&] { return ST::utf32_to_wchar(ub, m); });
            route<char>("wchar_to_utf8(buffer)", mn, e.ok8, e.e8, [&] { return ST::wchar_to_utf8(wb, m); });
            route<char16_t>("wchar_to_utf16(buffer)", mn, e.ok16, e.e16, [&] { return ST::wchar_to_utf16(wb, m); });
            route<char32_t>("wchar_to_utf32(buffer)", mn, true, u, [&] { return ST::wchar_to_utf32(wb, m); });
            route<char>("wchar_to_latin_1(buffer)", mn, e.okL, e.eL, [&] { return ST::wchar_to_latin_1(wb, m); });
            route<char>("wchar_to_latin_1(false)", mn, e.okLs, e.eLs, [&] { return ST::wchar_to_latin_1(pw, n, m, false); });
            route<char>("string::from_utf32", mn, e.ok8, e.e8, [&] { return ST::string::from_utf32(p, n, m); });
            route<char>("string::from_utf32(buffer)", mn, e.ok8, e.e8, [&] { return ST::string::from_utf32(ub, m); });
            route<char>("string::from_wchar", mn, e.ok8, e.e8, [&] { return ST::string::from_wchar(pw, n, m); });
            route<char>("string::from_wchar(buffer)", mn, e.ok8, e.e8, [&] { return ST::string::from_wchar(wb, m); });
            route<char>("string(utf32_buffer)", mn, e.ok8, e.e8, [&] { return ST::string(ub, m); });
            route<char>("string(wchar_buffer)", mn, e.ok8, e.e8, [&] { return ST::string(wb, m); });
            route<char>("string.set(char32_t*,n)", mn, e.ok8, e.e8, [&] { ST::string s("old"); s.set(p, n, m); return s; });
            route<char>("string.set(wchar_t*,n)", mn, e.ok8, e.e8, [&] { ST::string s("old"); s.set(pw, n, m); return s; });
            route<char>("string.set(utf32_buffer)", mn, e.ok8, e.e8, [&] { ST::string s("old"); s.set(ub, m); return s; });
            route<char>("string.set(wchar_buffer)", mn, e.ok8, e.e8, [&] { ST::string s("old"); s.set(wb, m); return s; });
            route<char>("string(u32string)", mn, e.ok8, e.e8, [&] { return ST::string(u, m); });
            route<char>("string(wstring)", mn, e.ok8, e.e8, [&] { return ST::string(w, m); });
            route<char>("string(u32string_view)", mn, e.ok8, e.e8, [&] { return ST::string(std::u32string_view(p, n), m); });
            route<char>("string(wstring_view)", mn, e.ok8, e.e8, [&] { return ST::string(std::wstring_view(pw, n), m); });
            route<char>("string.set(u32string)", mn, e.ok8, e.e8, [&] { ST::string s; s.set(u, m); return s; });
            route<char>("string.set(wstring)", mn, e.ok8, e.e8, [&] { ST::string s; s.set(w, m); return s; });
            route<char>("string.set(u32string_view)", mn, e.ok8, e.e8, [&] { ST::string s; s.set(std::u32string_view(p, n), m); return s; });
            route<char>("string.set(wstring_view)", mn, e.ok8, e.e8, [&] { ST::string s; s.set(std::wstring_view(pw, n), m); return s; });
            route<char>("string::from_std_string(u32string)", mn, e.ok8, e.e8, [&] { return ST::string::from_std_string(u, m); });
            route<char>("string::from_std_string(wstring)", mn, e.ok8, e.e8, [&] { return ST::string::from_std_string(w, m); });
            route<char>("string::from_std_wstring", mn, e.ok8, e.e8, [&] { return ST::string::from_std_wstring(w, m); });
            route<char>("string::from_std_string(u32view)", mn, e.ok8, e.e8, [&] { return ST::string::from_std_string(std::u32string_view(p, n), m); });
            route<char>("string::from_std_string(wview)", mn, e.ok8, e.e8, [&] { return ST::string::from_std_string(std::wstring_view(pw, n), m); });
            route<char>("string::from_std_wstring(view)", mn, e.ok8, e.e8, [&] { return ST::string::from_std_wstring(std::wstring_view(pw, n), m); });
        }
        if (mi == 1 && !ref::has_nonscalar(d)) {
            g_route = "utf32(substitute)->revalidate";
            try {
                ST::char_buffer r8 = ST::utf32_to_utf8(p, n, ST::substitute_invalid);
                ST::utf16_buffer r16 = ST::utf32_to_utf16(p, n, ST::substitute_invalid);
                vrt::evals(2);
                try { (void)ST::string(r8, ST::check_validity); (void)ST::utf16_to_utf32(r16, ST::check_validity); }
                catch (const ST::unicode_error &) { fail("repaired-output-fails-check_validity", ""); }
            } catch (const ST::unicode_error &e) { fail("substitute_invalid-threw", e.what()); }
        }
    }
    if (HAVE_EXPECT_DEFAULT || !ref::has_bad(d)) {
        const int di = EXPECT_DEFAULT == ST::assume_valid ? 0 : EXPECT_DEFAULT == ST::substitute_invalid ? 1 : 2;
        const Expect e = expect(d, di == 2);
        const char *mn = "default";
        route<char>("utf32_to_utf8", mn, e.ok8, e.e8, [&] { return ST::utf32_to_utf8(p, n); });
        route<char16_t>("utf32_to_utf16", mn, e.ok16, e.e16, [&] { return ST::utf32_to_utf16(p, n); });
        route<char>("utf32_to_latin_1", mn, e.okL, e.eL, [&] { return ST::utf32_to_latin_1(p, n); });
        route<char>("wchar_to_utf8", mn, e.ok8, e.e8, [&] { return ST::wchar_to_utf8(pw, n); });
        route<char>("string(const char32_t*,n)", mn, e.ok8, e.e8, [&] { return ST::string(p, n); });
        route<char>("string(const wchar_t*,n)", mn, e.ok8, e.e8, [&] { return ST::string(pw, n); });
        if (full) {
            route<char16_t>("wchar_to_utf16", mn, e.ok16, e.e16, [&] { return ST::wchar_to_utf16(pw, n); });
            route<char>("wchar_to_latin_1", mn, e.okL, e.eL, [&] { return ST::wchar_to_latin_1(pw, n); });
            route<char>("string=utf32_buffer", mn, e.ok8, e.e8, [&] { ST::string s; s = ub; return s; });
            route<char>("string=wchar_buffer", mn, e.ok8, e.e8, [&] { ST::string s; s = wb; return s; });
            route<char>("string=u32string", mn, e.ok8, e.e8, [&] { ST::string s; s = u; return s; });
            route<char>("string=wstring", mn, e.ok8, e.e8, [&] { ST::string s; s = w; return s; });
            route<char>("string=u32string_view", mn, e.ok8, e.e8, [&] { ST::string s; s = std::u32string_view(p, n); return s; });
            route<char>("string=wstring_view", mn, e.ok8, e.e8, [&] { ST::string s; s = std::wstring_view(pw, n); return s; });
            route<char>("string::from_utf32", mn, e.ok8, e.e8, [&] { return ST::string::from_utf32(p, n); });
            route<char>("string::from_wchar", mn, e.ok8, e.e8, [&] { return ST::string::from_wchar(pw, n); });
            if (u.find(U'\0') == S32::npos) {
                vrt::Exact<char32_t> z(u.data(), u.size(), true);
                vrt::Exact<wchar_t> zw(w.data(), w.size(), true);
                route<char>("string(const char32_t*)", mn, e.ok8, e.e8, [&] { return ST::string(z.data()); });
                route<char>("string(const wchar_t*)", mn, e.ok8, e.e8, [&] { return ST::string(zw.data()); });
                route<char>("string=const char32_t*", mn, e.ok8, e.e8, [&] { ST::string s("x"); s = z.data(); return s; });
                route<char>("string=const wchar_t*", mn, e.ok8, e.e8, [&] { ST::string s("x"); s = zw.data(); return s; });
                route<char>("string::from_utf32(cstr)", mn, e.ok8, e.e8, [&] { return ST::string::from_utf32(z.data()); });
                route<char>("string::from_wchar(cstr)", mn, e.ok8, e.e8, [&] { return ST::string::from_wchar(zw.data()); });
            }
        }
    }
    {
        const Expect e = expect(d, false);
        route<char>("operator\"\"_st(char32_t)", "n/a", e.ok8, e.e8, [&] { return ST::literals::operator""_st(p, n); });
        route<char>("operator\"\"_st(wchar_t)", "n/a", e.ok8, e.e8, [&] { return ST::literals::operator""_st(pw, n); });
        route<char32_t>("operator\"\"_stbuf(char32_t)", "n/a", true, u, [&] { return ST::literals::operator""_stbuf(p, n); });
        route<wchar_t>("operator\"\"_stbuf(wchar_t)", "n/a", true, w, [&] { return ST::literals::operator""_stbuf(pw, n); });
    }
}

// ---------------------------------------------------------------- Latin-1 source
static void from_latin1(const Input &in)
{
    g_in = &in;
    const S &b = in.u8;
    const ref::Decoded d = ref::decode_latin1(reinterpret_cast<const unsigned char *>(b.data()), b.size());
    const Expect e = expect(d, true);
    vrt::Exact<char> x(b.data(), b.size());
    const char *p = x.data();
    const size_t n = b.size();
    ST::char_buffer cb(b.data(), b.size());
    const char *mn = "n/a";
    route<char>("latin_1_to_utf8", mn, true, e.e8, [&] { return ST::latin_1_to_utf8(p, n); });
    route<char16_t>("latin_1_to_utf16", mn, true, e.e16, [&] { return ST::latin_1_to_utf16(p, n); });
    route<char32_t>("latin_1_to_utf32", mn, true, e.e32, [&] { return ST::latin_1_to_utf32(p, n); });
    route<wchar_t>("latin_1_to_wchar", mn, true, to_w(e.e32), [&] { return ST::latin_1_to_wchar(p, n); });
    route<char>("latin_1_to_utf8(buffer)", mn, true, e.e8, [&] { return ST::latin_1_to_utf8(cb); });
    route<char16_t>("latin_1_to_utf16(buffer)", mn, true, e.e16, [&] { return ST::latin_1_to_utf16(cb); });
    route<char32_t>("latin_1_to_utf32(buffer)", mn, true, e.e32, [&] { return ST::latin_1_to_utf32(cb); });
    route<wchar_t>("latin_1_to_wchar(buffer)", mn, true, to_w(e.e32), [&] { return ST::latin_1_to_wchar(cb); });
    route<char>("string::from_latin_1", mn, true, e.e8, [&] { return ST::string::from_latin_1(p, n); });
    route<char>("string::from_latin_1(buffer)", mn, true, e.e8, [&] { return ST::string::from_latin_1(cb); });
    if (b.find('\0') == S::npos) {
        vrt::Exact<char> z(b.data(), b.size(), true);
        route<char>("string::from_latin_1(cstr)", mn, true, e.e8, [&] { return ST::string::from_latin_1(z.data()); });
    }
    // ... and back: every byte string taken as Latin-1 survives any UTF form
    for (int mi = 0; mi < 3; ++mi) {
        const ST::utf_validation_t m = MODES[mi];
        const char *mm = mname(mi);
        route<char>("latin1->utf8->latin1", mm, true, b, [&] { return ST::utf8_to_latin_1(ST::latin_1_to_utf8(p, n), m, false); });
        route<char>("latin1->utf16->latin1", mm, true, b, [&] { return ST::utf16_to_latin_1(ST::latin_1_to_utf16(p, n), m, false); });
        route<char>("latin1->utf32->latin1", mm, true, b, [&] { return ST::utf32_to_latin_1(ST::latin_1_to_utf32(p, n), m, false); });
        route<char>("latin1->wchar->latin1", mm, true, b, [&] { return ST::wchar_to_latin_1(ST::latin_1_to_wchar(p, n), m, false); });
    }
    route<char>("latin1->string->latin1", mn, true, b, [&] { return ST::string::from_latin_1(p, n).to_latin_1(false); });
}

// ---------------------------------------------------------------- drivers
static void from_scalars(const std::vector<unsigned long> &cps, bool full)
{
    Input a{8, {}, {}, {}}, b{16, {}, {}, {}}, c{32, {}, {}, {}};
    for (unsigned long cp : cps) {
        ref::enc_utf8(a.u8, cp);
        ref::enc_utf16(b.u16, cp);
        c.u32 += static_cast<char32_t>(cp);
    }
    from_utf8(a, full);
    from_utf16(b, full);
    from_utf32(c, full);
    if (full) {
        // chains return the original units
        g_in = &a;
        const S &u8 = a.u8;
        route<char>("chain 8->16->32->8", "check_validity", true, u8, [&] {
            return ST::utf32_to_utf8(ST::utf16_to_utf32(ST::utf8_to_utf16(u8.data(), u8.size(), ST::check_validity), ST::check_validity), ST::check_validity); });
        route<char>("chain 8->32->16->8", "check_validity", true, u8, [&] {
            return ST::utf16_to_utf8(ST::utf32_to_utf16(ST::utf8_to_utf32(u8.data(), u8.size(), ST::check_validity), ST::check_validity), ST::check_validity); });
        route<char>("chain 8->wchar->16->string->utf32->8", "assume_valid", true, u8, [&] {
            ST::string s = ST::string::from_utf16(ST::wchar_to_utf16(ST::utf8_to_wchar(u8.data(), u8.size(), ST::assume_valid), ST::assume_valid), ST::assume_valid);
            return ST::utf32_to_utf8(s.to_utf32(), ST::assume_valid); });
    }
}

static std::vector<unsigned long> neighbours = {0x41, 0xE9, 0x20AC, 0x1F600};

// a single character appended / prepended through every operator+ / operator+= spelling: the code point converted to UTF-8
// (char is one Latin-1 unit, char16_t one BMP unit, char32_t and wchar_t one code point)
static void char_concatenation(unsigned long c)
{
    Input in{32, {}, {}, S32(1, static_cast<char32_t>(c))};
    g_in = &in;
    S enc;
    ref::enc_utf8(enc, c);
    const S base = "ab\xC3\xA9", longbase = "a base that is long enough to live on the heap \xE2\x82\xAC";
    for (const S &b : {base, longbase}) {
        const ST::string bs = ST::string::from_validated(b.data(), b.size());
        route<char>("string+char32_t", "n/a", true, b + enc, [&] { return bs + static_cast<char32_t>(c); });
        route<char>("char32_t+string", "n/a", true, enc + b, [&] { return static_cast<char32_t>(c) + bs; });
        route<char>("string+=char32_t", "n/a", true, b + enc, [&] { ST::string s(bs); s += static_cast<char32_t>(c); return s; });
        route<char>("string+wchar_t", "n/a", true, b + enc, [&] { return bs + static_cast<wchar_t>(c); });
        route<char>("wchar_t+string", "n/a", true, enc + b, [&] { return static_cast<wchar_t>(c) + bs; });
        route<char>("string+=wchar_t", "n/a", true, b + enc, [&] { ST::string s(bs); s += static_cast<wchar_t>(c); return s; });
        if (c <= 0xFFFF) {
            route<char>("string+char16_t", "n/a", true, b + enc, [&] { return bs + static_cast<char16_t>(c); });
            route<char>("char16_t+string", "n/a", true, enc + b, [&] { return static_cast<char16_t>(c) + bs; });
            route<char>("string+=char16_t", "n/a", true, b + enc, [&] { ST::string s(bs); s += static_cast<char16_t>(c); return s; });
        }
        if (c <= 0xFF) {
            route<char>("string+char", "n/a", true, b + enc, [&] { return bs + static_cast<char>(c); });
            route<char>("char+string", "n/a", true, enc + b, [&] { return static_cast<char>(c) + bs; });
            route<char>("string+=char", "n/a", true, b + enc, [&] { ST::string s(bs); s += static_cast<char>(c); return s; });
        }
    }
    vrt::count("char_concatenations");
}

static void scalar_contexts(unsigned long c, bool full)
{
    char_concatenation(c);
    from_scalars({c}, full);
    for (unsigned long nb : neighbours) {
        from_scalars({nb, c}, false);
        from_scalars({c, nb}, false);
        from_scalars({nb, c, nb}, false);
    }
    vrt::count("scalars");
    vrt::count(c < 0x80 ? "width.1" : c < 0x800 ? "width.2" : c < 0x10000 ? "width.3" : "width.4");
}

static unsigned long nth_scalar(uint64_t i) { return i < 0xD800 ? i : i + 0x800; }    // 0 .. 1,112,063
static const uint64_t NSCALARS = 0x110000 - 0x800;

static unsigned long random_scalar(Rng &r)
{
    switch (r.below(6)) {
    case 0: return r.below(0x80);
    case 1: return 0x80 + r.below(0x780);
    case 2: { unsigned long c = 0x800 + r.below(0xF800); return (c >= 0xD800 && c <= 0xDFFF) ? 0xFFFD : c; }
    case 3: return 0x10000 + r.below(0x100000);
    case 4: { static const unsigned long edge[] = {0, 0x7F, 0x80, 0x7FF, 0x800, 0xD7FF, 0xE000, 0xFFFD, 0xFFFF, 0x10000, 0x10FFFF, 0xFEFF, 0xFFFE}; return r.pick(edge); }
    default: return nth_scalar(r.below(NSCALARS));
    }
}

static void c01_body()
{
    PROP = "C01";
    vrt::require("scalars", 10000);
    vrt::require("width.1", 50);
    vrt::require("width.2", 50);
    vrt::require("width.3", 1000);
    vrt::require("width.4", 1000);
    vrt::require("sequences", 1000);
    vrt::require("latin1.strings", 256);
    vrt::require("char_concatenations", 300);
    if (vrt::thorough()) {
        vrt::note("every one of the 1,112,064 Unicode scalar values in 13 contexts ([c], and [n c], [c n], [n c n] for n in U+0041, U+00E9, U+20AC, U+1F600), through every conversion route and all three modes");
        vrt::phase("all_scalars", NSCALARS, [&](uint64_t i, Rng &) {
            scalar_contexts(nth_scalar(i), i % 64 == 0);
            vrt::distinct(vrt::fnv_u64(i, 71));
        });
    } else {
        // every scalar within +-32 of each width boundary, a stride-61 sample of the rest
        std::vector<unsigned long> pick;
        for (unsigned long edge : {0x0ul, 0x80ul, 0x800ul, 0xD800ul, 0xE000ul, 0x10000ul, 0x110000ul})
            for (long dlt = -32; dlt < 32; ++dlt) {
                long c = static_cast<long>(edge) + dlt;
                if (c >= 0 && ref::is_scalar(static_cast<unsigned long>(c))) pick.push_back(static_cast<unsigned long>(c));
            }
        for (uint64_t i = vrt::opt().seed % 61; i < NSCALARS; i += 61) pick.push_back(nth_scalar(i));
        vrt::note(sfmt("%zu scalars (all within +-32 of each encoding-width boundary + a stride-61 sample of all others, offset by the seed) in 13 contexts", pick.size()));
        vrt::phase("scalars", pick.size(), [&](uint64_t i, Rng &) {
            scalar_contexts(pick[i], i % 16 == 0);
            vrt::distinct(vrt::fnv_u64(pick[i], 71));
            if (vrt::want_sample("scalars") && pick[i] > 0x10000) vrt::sample("scalars", sfmt("U+%04lX alone and between U+0041/U+00E9/U+20AC/U+1F600 neighbours: all routes x 3 modes", pick[i]));
        });
    }
    vrt::phase("sequences", vrt::tier_count(30000, 2000000), [&](uint64_t, Rng &r) {
        size_t len = r.chance(1, 4) ? gen::pick_len(r) % 41 : r.below(12);
        std::vector<unsigned long> cps;
        for (size_t k = 0; k < len; ++k) cps.push_back(random_scalar(r));
        from_scalars(cps, r.chance(1, 3));
        vrt::count("sequences");
        vrt::distinct(vrt::fnv1a(cps.data(), cps.size() * sizeof(unsigned long), 72));
        if (vrt::want_sample("sequences") && len > 4) { S s; for (auto c : cps) s += sfmt("U+%04lX ", c); vrt::sample("sequences", s); }
    });
    // homogeneous runs of every length 0..72 (1-, 2-, 3- and 4-byte characters) followed by one character of every width
    // class and a short tail: what a word-at-a-time / block-wise fast path or an alignment-dependent loop would get wrong
    {
        static const unsigned long runch[] = {0x61, 0xE9, 0x20AC, 0x1F600};
        static const unsigned long mid[] = {0x00, 0x7F, 0x80, 0xE9, 0x7FF, 0x800, 0x20AC, 0xD7FF, 0xE000, 0xFFFF, 0x10000, 0x1F600, 0x10FFFF};
        static const size_t tails[] = {0, 1, 7, 8, 9};
        const size_t nmid = sizeof(mid) / sizeof(mid[0]);
        vrt::require("runs", 1000);
        vrt::phase("runs", 73 * 4, [&](uint64_t i, Rng &) {
            const size_t n = i / 4;
            const unsigned long rc = runch[i % 4];
            for (size_t m = 0; m < nmid; ++m)
                for (size_t t : tails) {
                    std::vector<unsigned long> cps(n, rc);
                    cps.push_back(mid[m]);
                    cps.insert(cps.end(), t, rc);
                    from_scalars(cps, (n + m + t) % 8 == 0);
                    vrt::count("runs");
                    vrt::distinct(vrt::fnv1a(cps.data(), cps.size() * sizeof(unsigned long), 74));
                }
            if (vrt::want_sample("runs") && n == 8) vrt::sample("runs", sfmt("%zu x U+%04lX, then each of 13 boundary scalars, then 0/1/7/8/9 x U+%04lX: all routes x 3 modes", n, rc, rc));
        });
    }
    // all 256 Latin-1 bytes at every position of strings of length 1..20 (around the SSO limit)
    vrt::phase("latin1", 256, [&](uint64_t byte, Rng &r) {
        for (size_t len = 1; len <= 20; ++len) {
            for (size_t pos = 0; pos < len; ++pos) {
                if (!vrt::thorough() && !(pos == 0 || pos == len - 1 || pos == len / 2)) continue;
                Input in{1, S(len, 'a'), {}, {}};
                for (size_t k = 0; k < len; ++k) in.u8[k] = static_cast<char>(r.below(256));
                in.u8[pos] = static_cast<char>(byte);
                from_latin1(in);
                vrt::count("latin1.strings");
                vrt::distinct(vrt::fnv1a(in.u8.data(), in.u8.size(), 73));
            }
        }
    });
}

// ---- malformed inputs ----------------------------------------------------
static const unsigned char A8[] = {0x00, 0x41, 0x7F, 0x80, 0xBF, 0xC0, 0xC2, 0xDF, 0xE0, 0xED, 0xEF, 0xF0, 0xF4, 0xF7, 0xF8, 0xFF, 0xA0, 0x90, 0x8F, 0x9F};
static const char16_t A16[] = {0x0041, 0xD7FF, 0xD800, 0xDBFF, 0xDC00, 0xDFFF, 0xE000, 0xFFFF, 0x0000};
static const char32_t A32[] = {0x41, 0x7F, 0x80, 0xFF, 0x100, 0xD7FF, 0xD800, 0xDFFF, 0xFFFF, 0x10000, 0x10FFFF, 0x110000, 0x7FFFFFFF, 0x80000000u, 0xFFFFFFFFu, 0};

template <typename T, size_t N>
static std::basic_string<T> nth_over(uint64_t i, const T (&alpha)[N], size_t maxlen)
{
    std::basic_string<T> out;
    uint64_t block = 1;
    for (size_t len = 0; len <= maxlen; ++len) {
        if (i < block) {
            out.assign(len, alpha[0]);
            for (size_t p = len; p-- > 0;) { out[p] = alpha[i % N]; i /= N; }
            return out;
        }
        i -= block;
        block *= N;
    }
    return out;
}

static void classify(const ref::Decoded &d)
{
    vrt::count(ref::has_bad(d) ? "inputs.with_bad_units" : "inputs.acceptable");
    if (ref::has_nonscalar(d)) vrt::count("inputs.with_tolerated_forms");
}

static void run8(const S &s, bool full)
{
    Input in{8, s, {}, {}};
    from_utf8(in, full);
    classify(ref::decode_utf8(s));
    vrt::count("inputs.utf8");
    vrt::distinct(vrt::fnv1a(s.data(), s.size(), 81));
}
static void run16(const S16 &s, bool full)
{
    Input in{16, {}, s, {}};
    from_utf16(in, full);
    classify(ref::decode_utf16(s.data(), s.size()));
    vrt::count("inputs.utf16");
    vrt::distinct(vrt::fnv1a(s.data(), s.size() * 2, 82));
}
static void run32(const S32 &s, bool full)
{
    Input in{32, {}, {}, s};
    from_utf32(in, full);
    classify(ref::decode_utf32(s.data(), s.size()));
    vrt::count("inputs.utf32");
    vrt::distinct(vrt::fnv1a(s.data(), s.size() * 4, 83));
}

// valid text of each width class to embed malformed pieces in
static const char *const CTX8[] = {"", "a", "\xC3\xA9", "\xE2\x82\xAC", "\xF0\x9F\x98\x80", "abcdefghijklmnop"};

static void malformed_phases(bool safety_only)
{
    const size_t L8 = vrt::thorough() ? 4 : 3, L16 = vrt::thorough() ? 5 : 4, L32 = vrt::thorough() ? 4 : 3;
    vrt::note(sfmt("exhaustive: all byte strings of length <= %zu over a 20-byte alphabet hitting every decoder branch, all 16-bit strings of length <= %zu over 9 units, all 32-bit strings of length <= %zu over 16 values; "
                   "each alone and (for UTF-8, length <= 3) embedded at the start/middle/end of valid text of every width class", L8, L16, L32));
    uint64_t n8 = 0, n16 = 0, n32 = 0;
    { uint64_t b = 1; for (size_t l = 0; l <= L8; ++l) { n8 += b; b *= 20; } }
    { uint64_t b = 1; for (size_t l = 0; l <= L16; ++l) { n16 += b; b *= 9; } }
    { uint64_t b = 1; for (size_t l = 0; l <= L32; ++l) { n32 += b; b *= 16; } }
    vrt::phase("small_utf8", n8, [&](uint64_t i, Rng &) {
        std::basic_string<unsigned char> u = nth_over(i, A8, L8);
        S s(u.begin(), u.end());
        run8(s, i % 8 == 0);
        if (s.size() <= 3 && !s.empty()) {
            // isolated without swallowing neighbours: at the start / middle / end of valid text
            for (const char *c : CTX8) {
                if (!*c) continue;
                run8(S(c) + s, false);
                run8(s + S(c), false);
                run8(S(c) + s + S(c), false);
            }
            vrt::count("inputs.embedded_in_valid_text");
        }
        if (vrt::want_sample("small_utf8") && s.size() == L8 && ref::has_bad(ref::decode_utf8(s))) vrt::sample("small_utf8", "bytes " + showu(s) + " alone and embedded in valid text, all routes x 3 modes");
    });
    vrt::phase("small_utf16", n16, [&](uint64_t i, Rng &) {
        S16 s = nth_over(i, A16, L16);
        run16(s, i % 8 == 0);
        if (s.size() <= 3 && !s.empty()) {
            run16(u"a" + s, false); run16(s + u"€", false); run16(S16(u"\U0001F600") + s + u"z", false);
            vrt::count("inputs.embedded_in_valid_text");
        }
        if (vrt::want_sample("small_utf16") && s.size() == L16 && ref::has_bad(ref::decode_utf16(s.data(), s.size()))) vrt::sample("small_utf16", "units " + showu(s));
    });
    vrt::phase("small_utf32", n32, [&](uint64_t i, Rng &) {
        S32 s = nth_over(i, A32, L32);
        run32(s, i % 8 == 0);
        if (vrt::want_sample("small_utf32") && s.size() == L32 && ref::has_bad(ref::decode_utf32(s.data(), s.size()))) vrt::sample("small_utf32", "units " + showu(s));
    });
    // a malformed / tolerated piece after a homogeneous run of every length (block-wise fast paths, alignment), with a short tail
    {
        static const char *const run8s[] = {"a", "\xC3\xA9", "\xE2\x82\xAC", "\xF0\x9F\x98\x80"};
        static const S bad8[] = {S("\x80"), S("\xBF\x80"), S("\xC3"), S("\xE2\x82"), S("\xF0\x9F\x98"), S("\xC0\x80"), S("\xE0\x80\x80"), S("\xED\xA0\x80"),
                                 S("\xF4\x90\x80\x80"), S("\xF7\xBF\xBF\xBF"), S("\xF8"), S("\xFF"), S("\0", 1)};
        static const S16 bad16[] = {S16(1, 0xD800), S16(1, 0xDFFF), S16({0xDC00, 0xD800}), S16({0xD800, 0xD800}), S16({0xD83D, 0x0041})};
        static const S32 bad32[] = {S32(1, 0x110000), S32(1, 0xD800), S32(1, 0xFFFFFFFFu), S32(1, 0x10FFFF)};
        const size_t maxrun = vrt::thorough() ? 72 : 40;
        vrt::require("inputs.after_runs", 1000);
        vrt::phase("after_runs", (maxrun + 1) * 4, [&](uint64_t i, Rng &) {
            const size_t n = i / 4, kind = i % 4;
            S r8; S16 r16; S32 r32;
            for (size_t k = 0; k < n; ++k) {
                r8 += run8s[kind];
                if (kind == 3) { r16 += char16_t(0xD83D); r16 += char16_t(0xDE00); } else r16 += kind == 0 ? u'a' : kind == 1 ? char16_t(0xE9) : char16_t(0x20AC);
                r32 += kind == 0 ? U'a' : kind == 1 ? char32_t(0xE9) : kind == 2 ? char32_t(0x20AC) : char32_t(0x1F600);
            }
            for (size_t t : {size_t(0), size_t(1), size_t(8)}) {
                for (const S &b : bad8) { run8(r8 + b + S(t, 'z'), false); vrt::count("inputs.after_runs"); }
                if (kind == 0 || kind == 3) {
                    for (const S16 &b : bad16) { run16(r16 + b + S16(t, u'z'), false); vrt::count("inputs.after_runs"); }
                    for (const S32 &b : bad32) { run32(r32 + b + S32(t, U'z'), false); vrt::count("inputs.after_runs"); }
                }
            }
        });
    }
    // well-formed text cut at every unit; seeded mutation of valid text
    vrt::phase("cut_and_mutate", vrt::tier_count(20000, 250000), [&](uint64_t, Rng &r) {
        std::vector<unsigned long> cps;
        size_t len = 1 + r.below(r.chance(1, 5) ? 30 : 8);
        for (size_t k = 0; k < len; ++k) cps.push_back(random_scalar(r));
        S u8; S16 u16; S32 u32;
        for (auto c : cps) { ref::enc_utf8(u8, c); ref::enc_utf16(u16, c); u32 += static_cast<char32_t>(c); }
        bool full = r.chance(1, 6);
        switch (r.below(4)) {
        case 0:         // every truncation point
            for (size_t k = 0; k <= u8.size(); ++k) run8(u8.substr(0, k), false);
            for (size_t k = 0; k <= u16.size(); ++k) run16(u16.substr(0, k), false);
            vrt::count("inputs.truncations");
            break;
        case 1: {       // cut from the front (starts with continuation bytes / low surrogate)
            size_t k8 = r.below(u8.size() + 1), k16 = r.below(u16.size() + 1);
            run8(u8.substr(k8), full); run16(u16.substr(k16), full);
            break;
        }
        default: {      // flip / insert / delete
            for (int rep = static_cast<int>(1 + r.below(3)); rep-- > 0;) {
                size_t p8 = r.below(u8.size() + 1), p16 = r.below(u16.size() + 1), p32 = r.below(u32.size() + 1);
                switch (r.below(3)) {
                case 0: if (p8 < u8.size()) u8[p8] = static_cast<char>(r.chance(1, 2) ? r.pick(A8) : r.below(256));
                        if (p16 < u16.size()) u16[p16] = r.chance(1, 2) ? r.pick(A16) : static_cast<char16_t>(0xD800 + r.below(0x800));
                        if (p32 < u32.size()) u32[p32] = r.chance(1, 2) ? r.pick(A32) : static_cast<char32_t>(r.next());
                        break;
                case 1: u8.insert(p8, 1, static_cast<char>(r.pick(A8))); u16.insert(p16, 1, r.pick(A16)); u32.insert(p32, 1, r.pick(A32)); break;
                default: if (p8 < u8.size()) u8.erase(p8, 1); if (p16 < u16.size()) u16.erase(p16, 1); if (p32 < u32.size()) u32.erase(p32, 1); break;
                }
            }
            run8(u8, full); run16(u16, full); run32(u32, full);
            break;
        }
        }
    });
    if (safety_only) {
        // C03 extras: pure garbage of length 0..64, empty, (nullptr,0), a few long inputs
        vrt::phase("garbage", vrt::tier_count(20000, 400000), [&](uint64_t, Rng &r) {
            size_t len = r.below(65);
            S s = gen::any_bytes(r, len);
            S16 t(len, u'\0');
            S32 u(len, U'\0');
            for (auto &c : t) c = static_cast<char16_t>(r.chance(1, 3) ? 0xD800 + r.below(0x800) : r.below(0x10000));
            for (auto &c : u) c = static_cast<char32_t>(r.chance(1, 3) ? r.below(0x110000) : r.next());
            bool full = r.chance(1, 5);
            run8(s, full); run16(t, full); run32(u, full);
            // high-density lead bytes: every lookahead ends at the end of the input
            S leads = gen::bytes_over(r, 1 + r.below(6), S("\xC2\xE0\xF0\xF4\x80\xBF", 6));
            run8(leads, false);
            vrt::count("inputs.garbage");
        });
        vrt::phase("null_and_empty", 1, [&](uint64_t, Rng &) {
            Input e8{8, {}, {}, {}}, e16{16, {}, {}, {}}, e32{32, {}, {}, {}}, e1{1, {}, {}, {}};
            from_utf8(e8, true); from_utf16(e16, true); from_utf32(e32, true); from_latin1(e1);
            g_in = &e8;
            for (int mi = 0; mi < 3; ++mi) {
                const ST::utf_validation_t m = MODES[mi];
                const char *mn = mname(mi);
                const char *n8 = nullptr; const char16_t *n16 = nullptr; const char32_t *n32 = nullptr; const wchar_t *nw = nullptr;
                route<char16_t>("utf8_to_utf16(null,0)", mn, true, S16(), [&] { return ST::utf8_to_utf16(n8, 0, m); });
                route<char32_t>("utf8_to_utf32(null,0)", mn, true, S32(), [&] { return ST::utf8_to_utf32(n8, 0, m); });
                route<wchar_t>("utf8_to_wchar(null,0)", mn, true, SW(), [&] { return ST::utf8_to_wchar(n8, 0, m); });
                route<char>("utf8_to_latin_1(null,0)", mn, true, S(), [&] { return ST::utf8_to_latin_1(n8, 0, m); });
                route<char>("utf16_to_utf8(null,0)", mn, true, S(), [&] { return ST::utf16_to_utf8(n16, 0, m); });
                route<char32_t>("utf16_to_utf32(null,0)", mn, true, S32(), [&] { return ST::utf16_to_utf32(n16, 0, m); });
                route<wchar_t>("utf16_to_wchar(null,0)", mn, true, SW(), [&] { return ST::utf16_to_wchar(n16, 0, m); });
                route<char>("utf16_to_latin_1(null,0)", mn, true, S(), [&] { return ST::utf16_to_latin_1(n16, 0, m); });
                route<char>("utf32_to_utf8(null,0)", mn, true, S(), [&] { return ST::utf32_to_utf8(n32, 0, m); });
                route<char16_t>("utf32_to_utf16(null,0)", mn, true, S16(), [&] { return ST::utf32_to_utf16(n32, 0, m); });
                route<char>("utf32_to_latin_1(null,0)", mn, true, S(), [&] { return ST::utf32_to_latin_1(n32, 0, m); });
                route<char>("wchar_to_utf8(null,0)", mn, true, S(), [&] { return ST::wchar_to_utf8(nw, 0, m); });
                route<char>("string(null,0)", mn, true, S(), [&] { return ST::string(n8, 0, m); });
                route<char>("string(null16,0)", mn, true, S(), [&] { return ST::string(n16, 0, m); });
                route<char>("string(null32,0)", mn, true, S(), [&] { return ST::string(n32, 0, m); });
                route<char>("string(nullw,0)", mn, true, S(), [&] { return ST::string(nw, 0, m); });
                route<char>("string(null)", mn, true, S(), [&] { return ST::string(n8, ST_AUTO_SIZE, m); });
                route<char>("string::from_utf8(null)", mn, true, S(), [&] { return ST::string::from_utf8(n8, ST_AUTO_SIZE, m); });
                route<char>("string::from_utf16(null)", mn, true, S(), [&] { return ST::string::from_utf16(n16, ST_AUTO_SIZE, m); });
                route<char>("string::from_utf32(null)", mn, true, S(), [&] { return ST::string::from_utf32(n32, ST_AUTO_SIZE, m); });
                route<char>("string::from_wchar(null)", mn, true, S(), [&] { return ST::string::from_wchar(nw, ST_AUTO_SIZE, m); });
                // null pointers with the size left to the library, through every set() / operator= / constructor spelling
                const char8_t *nu8 = nullptr;
                route<char>("string.set(null8)", mn, true, S(), [&] { ST::string s("old"); s.set(n8, ST_AUTO_SIZE, m); return s; });
                route<char>("string.set(nullu8)", mn, true, S(), [&] { ST::string s(LONG_OLD); s.set(nu8, ST_AUTO_SIZE, m); return s; });
                route<char>("string.set(null16)", mn, true, S(), [&] { ST::string s("old"); s.set(n16, ST_AUTO_SIZE, m); return s; });
                route<char>("string.set(null32)", mn, true, S(), [&] { ST::string s(LONG_OLD); s.set(n32, ST_AUTO_SIZE, m); return s; });
                route<char>("string.set(nullw)", mn, true, S(), [&] { ST::string s("old"); s.set(nw, ST_AUTO_SIZE, m); return s; });
                route<char>("string(null16)", mn, true, S(), [&] { return ST::string(n16, ST_AUTO_SIZE, m); });
                route<char>("string(null32)", mn, true, S(), [&] { return ST::string(n32, ST_AUTO_SIZE, m); });
                route<char>("string(nullw)", mn, true, S(), [&] { return ST::string(nw, ST_AUTO_SIZE, m); });
                route<char>("string(nullu8)", mn, true, S(), [&] { return ST::string(nu8, ST_AUTO_SIZE, m); });
                if (mi == 0) {
                    route<char>("string=null8", "default", true, S(), [&] { ST::string s("old"); s = n8; return s; });
                    route<char>("string=nullu8", "default", true, S(), [&] { ST::string s("old"); s = nu8; return s; });
                    route<char>("string=null16", "default", true, S(), [&] { ST::string s(LONG_OLD); s = n16; return s; });
                    route<char>("string=null32", "default", true, S(), [&] { ST::string s("old"); s = n32; return s; });
                    route<char>("string=nullw", "default", true, S(), [&] { ST::string s(LONG_OLD); s = nw; return s; });
                    route<char>("string+=null8", "default", true, S("old"), [&] { ST::string s("old"); s += n8; return s; });
                    route<char>("string+=null16", "default", true, S("old"), [&] { ST::string s("old"); s += n16; return s; });
                    route<char>("string+=null32", "default", true, S("old"), [&] { ST::string s("old"); s += n32; return s; });
                    route<char>("string+=nullw", "default", true, S("old"), [&] { ST::string s("old"); s += nw; return s; });
                    route<char>("string+null16", "default", true, S("old"), [&] { return ST::string("old") + n16; });
                    route<char>("null32+string", "default", true, S("old"), [&] { return n32 + ST::string("old"); });
                }
            }
            {
                const char *n8 = nullptr;
                route<char>("latin_1_to_utf8(null,0)", "n/a", true, S(), [&] { return ST::latin_1_to_utf8(n8, 0); });
                route<char16_t>("latin_1_to_utf16(null,0)", "n/a", true, S16(), [&] { return ST::latin_1_to_utf16(n8, 0); });
                route<char32_t>("latin_1_to_utf32(null,0)", "n/a", true, S32(), [&] { return ST::latin_1_to_utf32(n8, 0); });
                route<wchar_t>("latin_1_to_wchar(null,0)", "n/a", true, SW(), [&] { return ST::latin_1_to_wchar(n8, 0); });
                route<char>("string::from_latin_1(null)", "n/a", true, S(), [&] { return ST::string::from_latin_1(n8); });
            }
            vrt::count("inputs.null_or_empty");
        });
        vrt::phase("long_inputs", vrt::thorough() ? 24 : 6, [&](uint64_t i, Rng &r) {
            size_t len = (i % 3 == 0) ? (1u << 16) : (i % 3 == 1) ? 70000 + r.below(5000) : (vrt::thorough() && i % 6 == 2 ? (1u << 20) : 3000 + r.below(20000));
            std::vector<unsigned long> cps;
            S u8; S16 u16; S32 u32;
            for (size_t k = 0; k < len; ++k) {
                unsigned long c = random_scalar(r);
                ref::enc_utf8(u8, c); ref::enc_utf16(u16, c); u32 += static_cast<char32_t>(c);
            }
            if (i % 2) {            // sprinkle damage
                for (int k = 0; k < 50; ++k) { u8[r.below(u8.size())] = static_cast<char>(r.pick(A8)); u16[r.below(u16.size())] = r.pick(A16); u32[r.below(u32.size())] = r.pick(A32); }
                u8 += "\xF0\x9F"; u16 += static_cast<char16_t>(0xD83D);
            }
            run8(u8, false); run16(u16, false); run32(u32, false);
            Input l1{1, gen::any_bytes(r, len), {}, {}};
            from_latin1(l1);
            vrt::count("inputs.long");
        });
    }
}

// Inputs whose UTF-8 *result* is just above 256 MiB while the input itself is below 256 Mi units (the documented size
// contract is about the input).  One conversion per case (about 1 s and 0.5 GB each), checked by size, ends and terminator.
static void huge_result_phase()
{
    if (vrt::opt().scale < 1.0) return;          // not under valgrind (the scaled-down memcheck pass)
    vrt::require("inputs.huge_result", 3);
    vrt::phase("huge_results", 3, [&](uint64_t i, Rng &) {
        vrt::case_cpu_budget() = 600;
        const size_t target = (size_t(1) << 28) + 64;            // bytes of UTF-8 to produce
        g_route = i == 0 ? "latin_1_to_utf8(huge)" : i == 1 ? "utf16_to_utf8(huge)" : "utf32_to_utf8(huge)";
        g_mode = "check_validity";
        vrt::cur_rewind();
        vrt::cur_printf("%s producing %zu bytes\n", g_route, target);
        Input none{8, {}, {}, {}};
        g_in = &none;
        try {
            ST::char_buffer out;
            size_t units = 0;
            if (i == 0) { units = target / 2; std::string in(units, static_cast<char>(0xE9)); out = ST::latin_1_to_utf8(in.data(), in.size()); }
            else if (i == 1) { units = target / 3 + 1; std::u16string in(units, char16_t(0x4E2D)); out = ST::utf16_to_utf8(in.data(), in.size(), ST::check_validity); }
            else { units = target / 4; std::u32string in(units, char32_t(0x1F600)); out = ST::utf32_to_utf8(in.data(), in.size(), ST::check_validity);
                   // the same units through the straight-copy wchar_t conversions (64 Mi+ units, 256 MiB+ of data in and out)
                   ST::wchar_buffer w = ST::utf32_to_wchar(in.data(), in.size(), ST::check_validity);
                   if (w.size() != units || w[0] != wchar_t(0x1F600) || w[units - 1] != wchar_t(0x1F600) || w.data()[units] != 0) fail("wrong-units", "utf32_to_wchar of the huge input");
                   ST::utf32_buffer back = ST::wchar_to_utf32(w, ST::check_validity);
                   if (back.size() != units || back[units / 2] != char32_t(0x1F600) || back.data()[units] != 0) fail("wrong-units", "wchar_to_utf32 of the huge input");
                   vrt::evals(2); }
            vrt::evals();
            const size_t per = i == 0 ? 2 : i == 1 ? 3 : 4;
            static const char *const enc[] = {"\xC3\xA9", "\xE4\xB8\xAD", "\xF0\x9F\x98\x80"};
            if (out.size() != units * per) fail("wrong-size", sfmt("%zu units gave %zu bytes", units, out.size()));
            else if (memcmp(out.data(), enc[i], per) != 0 || memcmp(out.data() + out.size() - per, enc[i], per) != 0 || memcmp(out.data() + (out.size() / per / 2) * per, enc[i], per) != 0)
                fail("wrong-units", "first / middle / last character of the huge result");
            else if (out.data()[out.size()] != 0) fail("no-terminator", "huge result");
        } catch (const std::exception &e) {
            fail("unexpected-exception", sfmt("%s: %s", vrt::demangle(typeid(e).name()).c_str(), e.what()));
        }
        vrt::case_cpu_budget() = 30;
        vrt::count("inputs.huge_result");
    });
}

static void c02_body()
{
    PROP = "C02";
    vrt::require("inputs.utf8", 10000);
    vrt::require("inputs.utf16", 5000);
    vrt::require("inputs.utf32", 2000);
    vrt::require("inputs.with_bad_units", 10000);
    vrt::require("inputs.acceptable", 1000);
    vrt::require("inputs.with_tolerated_forms", 1000);
    vrt::require("inputs.embedded_in_valid_text", 1000);
    vrt::require("inputs.truncations", 100);
    vrt::note(sfmt("this binary was compiled with -DST_DEFAULT_VALIDATION selecting %s; calls that omit the mode are compared with that mode", mname(EXPECT_DEFAULT == ST::assume_valid ? 0 : EXPECT_DEFAULT == ST::substitute_invalid ? 1 : 2)));
    vrt::count(sfmt("configuration.default=%s", mname(EXPECT_DEFAULT == ST::assume_valid ? 0 : EXPECT_DEFAULT == ST::substitute_invalid ? 1 : 2)));
    malformed_phases(false);
}

static void c03_body()
{
    PROP = "C03";
    vrt::require("inputs.utf8", 10000);
    vrt::require("inputs.utf16", 5000);
    vrt::require("inputs.utf32", 2000);
    vrt::require("inputs.garbage", 1000);
    vrt::require("inputs.truncations", 100);
    vrt::require("inputs.null_or_empty", 1);
    vrt::require("inputs.long", 3);
    malformed_phases(true);
    huge_result_phase();
}

static void body()
{
    if (vrt::is_prop("C02")) c02_body();
    else if (vrt::is_prop("C03")) c03_body();
    else c01_body();
    vrt::alloc::check_pairing("conv");
}

#ifdef VRT_FUZZ
// libFuzzer front end (thorough tier of C02/C03): first byte selects the source encoding,
// the rest are its code units; the input goes through the same per-input monitors as the
// generated ones (run8/run16/run32: every route, every mode, reference comparison, ASan).
static void vrt_fuzz_one(const uint8_t *d, size_t n)
{
    PROP = vrt::is_prop("C03") ? "C03" : "C02";
    if (n == 0) return;
    const unsigned sel = d[0] % 3;
    ++d; --n;
    if (sel == 0) {
        run8(S(reinterpret_cast<const char *>(d), n), true);
    } else if (sel == 1) {
        S16 s(n / 2, u'\0');
        if (!s.empty()) memcpy(&s[0], d, s.size() * 2);
        run16(s, true);
    } else {
        S32 s(n / 4, U'\0');
        if (!s.empty()) memcpy(&s[0], d, s.size() * 4);
        run32(s, true);
    }
    vrt::count("fuzz.inputs");
}
#endif

VRT_MAIN(body)
