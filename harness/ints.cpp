// C12 - integer <-> text: from_int/from_uint, ST::format and string_stream
// digits against a reference digit generator, parse-back, and the to_* parsers
// against the C library's strto* family on arbitrary text.  UBSan watches the
// arithmetic (most negative values).
#include "vrt.h"
#include "vrt_alloc.h"
#include "vrt_st.h"
#include "gen_text.h"
#include "gen_scale.h"
#include "ambient.h"
#include <climits>
#include <cerrno>
#include <type_traits>
#include <optional>

using vrt::Rng;
using vrt::sfmt;
typedef std::string S;

static std::string show(const S &s) { return vrt::hex(s.data(), s.size()); }

// canonical digits of a magnitude
static S ref_digits(unsigned long long mag, int base, bool upper)
{
    if (mag == 0) return "0";
    S out;
    while (mag) {
        unsigned d = static_cast<unsigned>(mag % static_cast<unsigned>(base));
        out.insert(out.begin(), static_cast<char>(d < 10 ? '0' + d : (upper ? 'A' : 'a') + d - 10));
        mag /= static_cast<unsigned>(base);
    }
    return out;
}
template <typename T>
static S ref_text(T v, int base, bool upper)
{
    if constexpr (std::is_signed<T>::value) {
        if (v < 0) {
            unsigned long long mag = 0ull - static_cast<unsigned long long>(static_cast<long long>(v));
            return "-" + ref_digits(mag, base, upper);
        }
    }
    return ref_digits(static_cast<unsigned long long>(v), base, upper);
}

template <typename T> struct Name;
#define NAME(T, n) template <> struct Name<T> { static const char *get() { return n; } }
NAME(short, "short"); NAME(int, "int"); NAME(long, "long"); NAME(long long, "long long");
NAME(unsigned short, "unsigned short"); NAME(unsigned int, "unsigned int"); NAME(unsigned long, "unsigned long"); NAME(unsigned long long, "unsigned long long");

template <typename T>
static ST::string lib_from(T v, int base, bool upper)
{
    if constexpr (std::is_signed<T>::value) return ST::string::from_int(v, base, upper);
    else return ST::string::from_uint(v, base, upper);
}

static void viol(const char *tn, const char *what, const std::string &detail)
{
    vrt::violation(sfmt("C12:%s:%s", what, tn), detail);
}

// ---------------------------------------------------------------- the digits inside a larger output
template <typename T>
static void stream_put(ST::string_stream &ss, T v)
{
    if constexpr (sizeof(T) < sizeof(int)) {
        if constexpr (std::is_signed<T>::value) ss << static_cast<int>(v); else ss << static_cast<unsigned int>(v);
    } else ss << v;
}

// ST::format digits for {}, {d}, {x}, {X}, {o}, {b}; with literal text (no braces) before and after the field, or - `prefix_as_argument`
// - with the text before the field coming from a string argument, so that the digits land at any offset of the output
template <typename T>
static void format_digits(T v, const S &prefix, const S &tail, bool prefix_as_argument)
{
    const char *tn = Name<T>::get();
    struct F { const char *fmt; int base; bool upper; };
    static const F fmts[] = {{"{}", 10, false}, {"{d}", 10, false}, {"{x}", 16, false}, {"{X}", 16, true}, {"{o}", 8, false}, {"{b}", 2, false}};
    for (const F &f : fmts) {
        ST::string t;
        if (prefix.empty() && tail.empty()) t = ST::format(f.fmt, v);
        else if (prefix_as_argument) {
            const S fs = S("{}") + f.fmt + tail;
            vrt::Exact<char> fe(fs.data(), fs.size(), true);
            t = ST::format(fe.data(), vrt::mk(prefix), v);
        } else {
            const S fs = prefix + f.fmt + tail;
            vrt::Exact<char> fe(fs.data(), fs.size(), true);
            t = ST::format(fe.data(), v);
        }
        vrt::evals();
        const S digits = ref_text(v, f.base, f.upper);
        if (prefix.empty() && tail.empty()) {
            if (vrt::str_of(t) != digits)
                viol(tn, "format-digits", sfmt("value=%s fmt=%s got=%s want=%s", ref_text(v, 10, false).c_str(), f.fmt, vrt::str_of(t).c_str(), digits.c_str()));
        } else {
            const S got = vrt::str_of(t), want = prefix + digits + tail;
            if (got != want) {
                const size_t at = scale::first_diff(got, want);
                viol(tn, "format-digits", sfmt("value=%s fmt=%s after %zu bytes of %s: got %s want %s (first difference at %zu)", ref_text(v, 10, false).c_str(), f.fmt, prefix.size(),
                                               prefix_as_argument ? "a string argument" : "literal text", scale::brief(got, at).c_str(), scale::brief(want, at).c_str(), at));
            }
            vrt::count("format.digits_inside_big_output");
        }
    }
}

// how a stream came to hold what it holds before the number goes in
enum History { ONE_APPEND, CHUNKS, GROWN_THEN_TRUNCATED, NUMBERS, MOVED, N_HISTORIES };
static const char *history_name(unsigned h)
{
    static const char *const n[] = {"one_append", "chunks", "grown_then_truncated", "numbers", "moved"};
    return n[h % N_HISTORIES];
}

// text of exactly `fill` bytes that tells positions apart (a block copied to or from the wrong offset shows)
static S position_pattern(size_t fill, char c)
{
    S p(fill, c);
    if (c != 0) return p;
    for (size_t i = 0; i < fill; ++i) p[i] = static_cast<char>('a' + (i + i / 251 + i / 65521) % 26);
    return p;
}

// Brings `ss` to hold `prefix` (history NUMBERS rewrites `prefix`: most of it becomes decimal numbers that went in through <<).
static void fill_stream(ST::string_stream &ss, S &prefix, unsigned history, Rng *r)
{
    const size_t fill = prefix.size();
    switch (r ? history : ONE_APPEND) {
    case CHUNKS: {          // many appends: the buffer goes through every doubling on the way
        size_t done = 0;
        while (done < fill) {
            size_t n = r->chance(1, 4) ? 1 + r->below(16) : r->chance(1, 2) ? 1 + r->below(700) : 1 + r->below(40000);
            n = std::min(n, fill - done);
            if (n == 1 && r->chance(1, 2)) ss.append_char(prefix[done]); else ss.append(prefix.data() + done, n);
            done += n;
        }
        break;
    }
    case GROWN_THEN_TRUNCATED: {   // capacity left over from a bigger past
        const S junk(fill + 1 + r->below(2 * fill + 600), '#');
        if (r->chance(1, 2)) {
            ss.append(junk.data(), junk.size());
            ss.truncate(0);
            ss.append(prefix.data(), prefix.size());
        } else {
            ss.append(prefix.data(), prefix.size());
            ss.append(junk.data(), junk.size());
            if (r->chance(1, 2)) ss.truncate(fill); else ss.erase(junk.size());
        }
        break;
    }
    case NUMBERS: {         // thousands of consecutive insertions into one object
        S model;
        model.reserve(fill);
        uint64_t inserts = 0;
        while (model.size() + 24 <= fill) {
            uint64_t bits = r->next();
            const unsigned keep = 1 + static_cast<unsigned>(r->below(64));
            if (keep < 64) bits &= (1ull << keep) - 1;
            switch (r->below(4)) {
            case 0: { const long long x = static_cast<long long>(bits); ss << x; model += ref_text(x, 10, false); break; }
            case 1: { const unsigned long x = static_cast<unsigned long>(bits); ss << x; model += ref_text(x, 10, false); break; }
            case 2: { const int x = static_cast<int>(bits); ss << x; model += ref_text(x, 10, false); break; }
            default: { const unsigned x = static_cast<unsigned>(bits); ss << x; model += ref_text(x, 10, false); break; }
            }
            ss << ',';
            model += ',';
            ++inserts;
        }
        vrt::count("scale.consecutive_number_inserts", inserts);
        const size_t rest = fill - model.size();
        ss.append_char('p', rest);
        model.append(rest, 'p');
        prefix = model;
        break;
    }
    default:
        ss.append(prefix.data(), prefix.size());
        break;
    }
}

// A number streamed into a stream that already holds text: the digits end (`end_anchored`) or start just below, at and just
// beyond `mark`, and more text follows.
template <typename T>
static void nearly_full_stream(T v, size_t mark, bool end_anchored, unsigned history, char pattern, Rng *r)
{
    const char *tn = Name<T>::get();
    const S want = ref_text(v, 10, false);
    for (int d = -2; d <= 2; ++d) {
        const long start = static_cast<long>(mark) - (end_anchored ? static_cast<long>(want.size()) : 0) + d;
        if (start < 0) continue;
        const size_t fill = static_cast<size_t>(start);
        S prefix = position_pattern(fill, pattern);
        vrt::Box<ST::string_stream> ss;
        if (r && history == MOVED) {        // the stream that takes the number was move-constructed, the one that is read move-assigned
            vrt::Box<ST::string_stream> first;
            fill_stream(*first, prefix, CHUNKS, r);
            vrt::Box<ST::string_stream> second(std::move(*first));
            stream_put<T>(*second, v);
            *second << "tail";
            *ss = std::move(*second);
        } else {
            fill_stream(*ss, prefix, history, r);
            stream_put<T>(*ss, v);
            *ss << "tail";
        }
        const S got(ss->raw_buffer(), ss->size());
        vrt::evals();
        if (got != prefix + want + "tail") {
            const S all = prefix + want + "tail";
            const size_t at = scale::first_diff(got, all);
            viol(tn, "string_stream-digits:nearly-full-stream", sfmt("value=%s after %zu bytes (%s): got ...%s; %s, first difference at %zu", want.c_str(), fill, history_name(r ? history : 0),
                                                                   got.substr(got.size() > 40 ? got.size() - 40 : 0).c_str(), scale::brief(got, at).c_str(), at));
        }
        vrt::count("stream.nearly_full_inserts");
    }
}

// parse `text` with every to_* member wide enough for T and expect `v`
template <typename T>
static void parse_back(const ST::string &text, T v, int base)
{
    const char *tn = Name<T>::get();
    auto chk = [&](const char *member, long long got_s, unsigned long long got_u, const ST::conversion_result &r) {
        vrt::evals();
        bool same = std::is_signed<T>::value ? got_s == static_cast<long long>(v) : got_u == static_cast<unsigned long long>(v);
        if (!same || !r.ok() || !r.full_match())
            viol(tn, "parse-back", sfmt("value=%s text=%s base=%d via %s: got=%lld/%llu ok=%d full=%d", ref_text(v, 10, false).c_str(),
                                        vrt::str_of(text).c_str(), base, member, got_s, got_u, r.ok(), r.full_match()));
    };
    if constexpr (std::is_signed<T>::value) {
        if (sizeof(T) <= sizeof(short)) { ST::conversion_result r; short x = text.to_short(r, base); chk("to_short", x, 0, r); }
        if (sizeof(T) <= sizeof(int)) { ST::conversion_result r; int x = text.to_int(r, base); chk("to_int", x, 0, r); }
        if (sizeof(T) <= sizeof(long)) { ST::conversion_result r; long x = text.to_long(r, base); chk("to_long", x, 0, r); }
        { ST::conversion_result r; long long x = text.to_long_long(r, base); chk("to_long_long", x, 0, r); }
        { ST::conversion_result r; int64_t x = text.to_int64(r, base); chk("to_int64", x, 0, r); }
        if (static_cast<long long>(v) == text.to_long_long(base)) {} else viol(tn, "parse-back", sfmt("to_long_long(base) without result differs: text=%s base=%d", vrt::str_of(text).c_str(), base));
    } else {
        if (sizeof(T) <= sizeof(short)) { ST::conversion_result r; unsigned short x = text.to_ushort(r, base); chk("to_ushort", 0, x, r); }
        if (sizeof(T) <= sizeof(int)) { ST::conversion_result r; unsigned x = text.to_uint(r, base); chk("to_uint", 0, x, r); }
        if (sizeof(T) <= sizeof(long)) { ST::conversion_result r; unsigned long x = text.to_ulong(r, base); chk("to_ulong", 0, x, r); }
        { ST::conversion_result r; unsigned long long x = text.to_ulong_long(r, base); chk("to_ulong_long", 0, x, r); }
        { ST::conversion_result r; uint64_t x = text.to_uint64(r, base); chk("to_uint64", 0, x, r); }
        if (static_cast<unsigned long long>(v) == text.to_ulong_long(base)) {} else viol(tn, "parse-back", sfmt("to_ulong_long(base) without result differs: text=%s base=%d", vrt::str_of(text).c_str(), base));
    }
}

template <typename T>
static void value_case(T v, bool all_bases)
{
    const char *tn = Name<T>::get();
    vrt::cur_rewind();
    vrt::cur_printf("type=%s value=%s\n", tn, ref_text(v, 10, false).c_str());
    for (int base = 2; base <= 36; ++base) {
        if (!all_bases && !(base == 2 || base == 8 || base == 10 || base == 16 || base == 36 || base == 3 || base == 7)) continue;
        for (int up = 0; up < 2; ++up) {
            ST::string t = lib_from<T>(v, base, up != 0);
            vrt::evals();
            S want = ref_text(v, base, up != 0);
            if (vrt::str_of(t) != want || t.c_str()[t.size()] != 0)
                viol(tn, "from_int", sfmt("value=%s base=%d upper=%d got=%s want=%s", ref_text(v, 10, false).c_str(), base, up, vrt::str_of(t).c_str(), want.c_str()));
            parse_back<T>(t, v, base);
        }
    }
    // default arguments: base 10, lower case
    {
        ST::string t;
        if constexpr (std::is_signed<T>::value) t = ST::string::from_int(v); else t = ST::string::from_uint(v);
        vrt::evals();
        if (vrt::str_of(t) != ref_text(v, 10, false)) viol(tn, "from_int:default-base", ref_text(v, 10, false));
        for (int base : {16, 36, 11}) {
            ST::string u;
            if constexpr (std::is_signed<T>::value) u = ST::string::from_int(v, base); else u = ST::string::from_uint(v, base);
            vrt::evals();
            if (vrt::str_of(u) != ref_text(v, base, false)) viol(tn, "from_int:default-case", sfmt("base=%d got=%s want=%s", base, vrt::str_of(u).c_str(), ref_text(v, base, false).c_str()));
        }
    }
    // deprecated 64-bit spellings
    if constexpr (sizeof(T) == 8) {
        for (int base : {2, 10, 16, 36}) {
            ST::string t;
            if constexpr (std::is_signed<T>::value) t = ST::string::from_int64(static_cast<int64_t>(v), base, true);
            else t = ST::string::from_uint64(static_cast<uint64_t>(v), base, true);
            vrt::evals();
            if (vrt::str_of(t) != ref_text(v, base, true)) viol(tn, "from_int64/uint64", sfmt("value=%s base=%d got=%s", ref_text(v, 10, false).c_str(), base, vrt::str_of(t).c_str()));
        }
    }
    // the same digits through ST::format and string_stream
    format_digits<T>(v, S(), S(), false);
    {
        vrt::Box<ST::string_stream> ss;
        stream_put<T>(*ss, v);
        vrt::evals();
        S got(ss->raw_buffer(), ss->size()), want = ref_text(v, 10, false);
        if (got != want) viol(tn, "string_stream-digits", sfmt("value=%s got=%s", want.c_str(), got.c_str()));
    }
    // ... and into a stream that is already nearly full: the digits (and the sign) end just below, at and just beyond the
    // in-object capacity (256) and the first heap capacity (512), and more text follows (a regrow must keep every digit)
    for (size_t cap : {size_t(256), size_t(512)})
        nearly_full_stream<T>(v, cap, true, ONE_APPEND, 'p', nullptr);
    vrt::count(std::string("values.") + tn);
}

// boundary values of T around powers of every base
template <typename T>
static std::vector<T> boundaries()
{
    typedef std::numeric_limits<T> L;
    std::vector<T> v = {L::min(), static_cast<T>(L::min() + 1), static_cast<T>(L::min() + 2), 0, 1, 2, 9, 10, static_cast<T>(L::max() - 1), L::max(),
                        static_cast<T>(L::max() / 2), static_cast<T>(L::max() / 2 + 1)};
    if (std::is_signed<T>::value) { v.push_back(static_cast<T>(-1)); v.push_back(static_cast<T>(-9)); v.push_back(static_cast<T>(-10)); }
    for (int base = 2; base <= 36; ++base) {
        unsigned long long p = 1;
        while (p <= static_cast<unsigned long long>(L::max()) / base) {
            p *= base;
            for (long long d = -1; d <= 1; ++d) {
                unsigned long long u = p + d;
                if (u <= static_cast<unsigned long long>(L::max())) {
                    v.push_back(static_cast<T>(u));
                    if (std::is_signed<T>::value) v.push_back(static_cast<T>(0 - static_cast<T>(u)));
                }
            }
        }
    }
    // every power of two +-1 (32-bit / 64-bit narrowing slips)
    for (int b = 1; b < L::digits + (std::is_signed<T>::value ? 1 : 0); ++b) {
        unsigned long long p = 1ull << b;
        for (long long d = -1; d <= 1; ++d) {
            unsigned long long u = p + d;
            if (u <= static_cast<unsigned long long>(L::max())) {
                v.push_back(static_cast<T>(u));
                if (std::is_signed<T>::value) v.push_back(static_cast<T>(0 - static_cast<T>(u)));
            }
        }
    }
    return v;
}

template <typename T>
static void wide_phases()
{
    const char *tn = Name<T>::get();
    static const std::vector<T> b = boundaries<T>();
    std::string pn = std::string("boundary_") + tn;
    for (auto &c : pn) if (c == ' ') c = '_';
    vrt::phase(pn.c_str(), b.size(), [&](uint64_t i, Rng &) {
        value_case<T>(b[i], true);
        vrt::distinct(vrt::fnv_u64(static_cast<uint64_t>(b[i]), vrt::fnv_str(tn)));
        if (vrt::want_sample(pn)) vrt::sample(pn, sfmt("%s %s in bases 2..36, both cases, + format {}/{d}/{x}/{X}/{o}/{b} + string_stream", tn, ref_text(b[i], 10, false).c_str()));
    });
    std::string rn = std::string("random_") + tn;
    for (auto &c : rn) if (c == ' ') c = '_';
    vrt::phase(rn.c_str(), vrt::tier_count(20000, 3000000), [&](uint64_t, Rng &r) {
        uint64_t bits = r.next();
        // vary magnitude: random bit length
        unsigned keep = 1 + static_cast<unsigned>(r.below(64));
        if (keep < 64) bits &= (1ull << keep) - 1;
        T v = static_cast<T>(bits);
        if (std::is_signed<T>::value && r.chance(1, 2)) v = static_cast<T>(0 - static_cast<typename std::make_unsigned<T>::type>(v));
        value_case<T>(v, r.chance(1, 8));
        vrt::distinct(vrt::fnv_u64(static_cast<uint64_t>(v), vrt::fnv_str(tn)));
    });
}

// A conversion_result is an out-parameter: what an earlier conversion left in it must not show.  Two calls in three get
// an object that was used before (by a fully matching, resp. a partly matching conversion).
static void predirty(ST::conversion_result &r)
{
    static unsigned n = 0;
    static const ST::string full("42"), part("7x");
    switch (n++ % 3) {
    case 0: break;
    case 1: (void)full.to_int(r); vrt::count("parse.result_object_reused"); break;
    default: (void)part.to_ulong_long(r, 10); vrt::count("parse.result_object_reused"); break;
    }
}

// whatever an unrelated earlier C library call left in errno must not influence a conversion
static int stale_errno()
{
    static unsigned n = 0;
    static const int vals[] = {0, EINVAL, ERANGE, ENOENT, EDOM};
    return vals[n++ % 5];
}

// ---------------------------------------------------------------- parsing arbitrary text
// `str` holds `text`; `rot` rotates the order in which the members are called (what one member leaves behind on the thread must
// not show in the next, whichever comes first)
static void parse_on(const ST::string &str, const S &text, int base, unsigned rot = 0)
{
    vrt::cur_rewind();
    vrt::cur_printf("parse text=%s base=%d\n", show(text).c_str(), base);
    const ST::string *st = &str;
    const char *c = st->c_str();                  // what the library hands to the C library
    const bool empty = text.empty();
    auto flags = [&](const char *endp, bool &ok, bool &full) {
        if (empty) { ok = false; full = true; return; }
        ok = endp != c;
        full = endp == c + text.size();
    };
    auto report = [&](const char *member, const std::string &d) {
        vrt::violation(sfmt("C12:parse:%s", member), sfmt("text=%s base=%d %s", show(text).c_str(), base, d.c_str()));
    };
#define PARSE(member, libcall_r, libcall, reffn, RT, CAST)                                                                   \
    do {                                                                                                                     \
        char *endp = nullptr;                                                                                                \
        errno = 0;                                                                                                           \
        RT want = CAST(reffn(c, &endp, base));                                                                               \
        bool wok, wfull;                                                                                                     \
        flags(endp, wok, wfull);                                                                                             \
        if (empty) want = 0;                                                                                                 \
        ST::conversion_result r;                                                                                             \
        predirty(r);                                                                                                         \
        errno = stale_errno();                                                                                               \
        RT got = st->libcall_r;                                                                                              \
        errno = stale_errno();                                                                                               \
        RT got2 = st->libcall;                                                                                               \
        vrt::evals(2);                                                                                                       \
        if (got != want || r.ok() != wok || r.full_match() != wfull)                                                         \
            report(member, sfmt("got=%lld ok=%d full=%d want=%lld ok=%d full=%d", (long long)got, r.ok(), r.full_match(), (long long)want, wok, wfull)); \
        if (got2 != want) report(member, sfmt("(no result arg) got=%lld want=%lld", (long long)got2, (long long)want));    \
    } while (0)
    for (unsigned k = 0; k < 10; ++k) {
        switch ((k + rot) % 10) {
        case 0: PARSE("to_long", to_long(r, base), to_long(base), strtol, long, ); break;
        case 1: PARSE("to_int", to_int(r, base), to_int(base), strtol, int, static_cast<int>); break;
        case 2: PARSE("to_short", to_short(r, base), to_short(base), strtol, short, static_cast<short>); break;
        case 3: PARSE("to_long_long", to_long_long(r, base), to_long_long(base), strtoll, long long, ); break;
        case 4: PARSE("to_int64", to_int64(r, base), to_int64(base), strtoll, int64_t, static_cast<int64_t>); break;
        case 5: PARSE("to_ulong", to_ulong(r, base), to_ulong(base), strtoul, unsigned long, ); break;
        case 6: PARSE("to_uint", to_uint(r, base), to_uint(base), strtoul, unsigned int, static_cast<unsigned int>); break;
        case 7: PARSE("to_ushort", to_ushort(r, base), to_ushort(base), strtoul, unsigned short, static_cast<unsigned short>); break;
        case 8: PARSE("to_ulong_long", to_ulong_long(r, base), to_ulong_long(base), strtoull, unsigned long long, ); break;
        default: PARSE("to_uint64", to_uint64(r, base), to_uint64(base), strtoull, uint64_t, static_cast<uint64_t>); break;
        }
    }
#undef PARSE
    {
        char *endp = nullptr;
        errno = 0;
        (void)strtol(c, &endp, base);
        bool ok, full;
        flags(endp, ok, full);
        vrt::count(ok ? (full ? "parse.full_match" : "parse.partial") : (full ? "parse.empty" : "parse.no_match"));
        if (text.find('\0') != S::npos) vrt::count("parse.embedded_NUL");
        if (errno == ERANGE) vrt::count("parse.overflow");
    }
    vrt::distinct(vrt::fnv_u64(static_cast<uint64_t>(base), vrt::fnv1a(text.data(), text.size(), 51)));
}

static void parse_case(const S &text, int base)
{
    vrt::Box<ST::string> st(vrt::mk(text));
    parse_on(*st, text, base);
}

static S gen_numeral(Rng &r, int &base)
{
    static const int bases[] = {0, 0, 2, 3, 8, 10, 10, 16, 16, 36, 7, 35};
    base = r.pick(bases);
    if (r.chance(1, 6)) base = 2 + static_cast<int>(r.below(35));
    S t;
    static const char *const ws[] = {"", "", "", " ", "\t", "\n ", "\v\f\r", "  "};
    t += r.pick(ws);
    static const char *const signs[] = {"", "", "", "-", "+", "--", "+-", "- "};
    t += r.pick(signs);
    static const char *const prefixes[] = {"", "", "", "0x", "0X", "0", "0b", "00", "0x0x"};
    t += r.pick(prefixes);
    int eff = base == 0 ? 10 : base;
    size_t nd = r.chance(1, 8) ? 0 : 1 + r.below(r.chance(1, 5) ? 70 : 12);
    for (size_t i = 0; i < nd; ++i) {
        unsigned d = static_cast<unsigned>(r.below(r.chance(1, 10) ? 36 : eff));
        char ch = static_cast<char>(d < 10 ? '0' + d : (r.chance(1, 2) ? 'a' : 'A') + d - 10);
        t += ch;
    }
    switch (r.below(8)) {
    case 0: t += " "; break;
    case 1: t += "xyz"; break;
    case 2: t.push_back('\0'); break;                         // embedded NUL right after the digits
    case 3: t.push_back('\0'); t += "17"; break;
    case 4: t += ".5"; break;
    case 5: t += "\xc3\xa9"; break;
    default: break;
    }
    if (r.chance(1, 30)) t.insert(0, 1, '\0');
    return t;
}

// ---------------------------------------------------------------- scale: numerals of several KiB up to ~1 MiB
// white space, sign, prefix, a run of zeros, a run of digits, then (optionally) a byte that stops the C library and more bytes
struct BigNumeral {
    size_t W = 0, Z = 0, D = 0, J = 0;
    S sign, prefix;
    int base = 10;
    size_t planned() const { return W + sign.size() + prefix.size() + Z + D; }
};

static int effective_base(const BigNumeral &p)
{
    if (p.base != 0) return p.base;
    if (!p.prefix.empty()) return 16;
    return p.Z > 0 ? 8 : 10;
}

static void put_digits(Rng &r, S &t, size_t n, int eff, bool first_nonzero)
{
    const unsigned style = static_cast<unsigned>(r.below(3));      // one digit repeated / random digits / the largest digit
    const unsigned fixed = style == 2 ? static_cast<unsigned>(eff - 1) : static_cast<unsigned>(r.below(eff));
    const bool upper = r.chance(1, 2);
    for (size_t i = 0; i < n; ++i) {
        unsigned d = style == 1 ? static_cast<unsigned>(r.below(eff)) : fixed;
        if (i == 0 && first_nonzero && d == 0) d = 1;
        t += static_cast<char>(d < 10 ? '0' + d : (upper ? 'A' : 'a') + d - 10);
    }
}

static S big_numeral_text(Rng &r, const BigNumeral &p)
{
    const int eff = effective_base(p);
    S t;
    t.reserve(p.planned() + p.J);
    {
        static const char ws[] = " \t\n\v\f\r";
        if (r.chance(1, 2)) t.append(p.W, ws[r.below(6)]);
        else for (size_t i = 0; i < p.W; ++i) t += ws[r.below(6)];
    }
    t += p.sign;
    t += p.prefix;
    t.append(p.Z, '0');
    put_digits(r, t, p.D, eff, p.Z == 0 || p.D <= 20);
    if (p.J) {
        S stoppers = S(" ._-+,\xe9") + S(1, '\0') + S(1, '\0');
        if (eff < 36) stoppers += 'z';
        if (eff <= 16) stoppers += "gG";
        if (eff < 10) stoppers += static_cast<char>('0' + eff);
        if (eff <= 10) stoppers += "ae";
        t += stoppers[r.below(stoppers.size())];
        const size_t rest = p.J - 1;
        switch (r.below(3)) {
        case 0: put_digits(r, t, rest, eff, false); break;            // what follows would parse, had the C library not stopped
        case 1: { S al = " x.9_0\xc3"; al.push_back('\0'); t += scale::byte_background(r, rest, al); break; }
        default: t.append(rest, "x 9"[r.below(3)]); break;
        }
    }
    return t;
}

// splits `consumed` characters over white space / sign / prefix / zeros / digits
static void plan_consumed(Rng &r, BigNumeral &p, size_t consumed)
{
    static const char *const signs[] = {"", "", "-", "+"};
    p.sign = r.pick(signs);
    p.prefix = ((p.base == 0 || p.base == 16) && r.chance(1, 3)) ? (r.chance(1, 2) ? "0x" : "0X") : "";
    if (consumed < p.sign.size() + p.prefix.size() + 1) { p.sign.clear(); p.prefix.clear(); }
    if (consumed == 0) consumed = 1;
    const size_t R = consumed - p.sign.size() - p.prefix.size();
    const size_t few = 1 + r.below(std::min<size_t>(R, 15));
    switch (r.below(4)) {
    case 0:     // a long run of white space, then a value that fits
        p.D = few;
        p.Z = r.chance(1, 3) ? r.below(std::min<size_t>(R - p.D, 3) + 1) : 0;
        p.W = R - p.D - p.Z;
        break;
    case 1:     // a long run of zeros, then a value that fits
        p.D = few;
        p.W = r.chance(1, 3) ? r.below(std::min<size_t>(R - p.D, 5) + 1) : 0;
        p.Z = R - p.D - p.W;
        break;
    case 2:     // a long run of digits (the result saturates)
        p.W = r.chance(1, 3) ? r.below(std::min<size_t>(R - 1, 5) + 1) : 0;
        p.Z = r.chance(1, 4) ? r.below(std::min<size_t>(R - 1 - p.W, 3) + 1) : 0;
        p.D = R - p.W - p.Z;
        break;
    default:    // all three long
        p.W = r.below(R);
        p.Z = r.below(R - p.W);
        p.D = R - p.W - p.Z;
        if (p.D == 0) { p.D = 1; if (p.Z) --p.Z; else --p.W; }
        break;
    }
}

// ---------------------------------------------------------------- state that survives a call: sequences of conversions
// The digit generators and the parsers are pure functions of their arguments; nothing an earlier call on the thread did (a
// memo of the last value / base / letter case / text, a counter, scratch storage shared by from_int, ST::format and
// string_stream) may show in a later result.  Sequences are made of conversions whose arguments collide under a plausible
// memo key; every result is compared with the reference right away, as in the other phases.
enum Via { VIA_FROM, VIA_FORMAT, VIA_STREAM, VIA_FROM64, N_VIA };
static const char *via_name(unsigned v)
{
    static const char *const n[] = {"from_int", "format", "string_stream", "from_int64"};
    return n[v % N_VIA];
}

// type indexes: 0 short, 1 unsigned short, 2 int, 3 unsigned int, 4 long, 5 unsigned long, 6 long long, 7 unsigned long long
template <typename F>
static void with_type(unsigned type, F &&f)
{
    switch (type & 7) {
    case 0: f(short()); break;
    case 1: f(static_cast<unsigned short>(0)); break;
    case 2: f(int()); break;
    case 3: f(unsigned()); break;
    case 4: f(long()); break;
    case 5: f(static_cast<unsigned long>(0)); break;
    case 6: f(static_cast<long long>(0)); break;
    default: f(static_cast<unsigned long long>(0)); break;
    }
}
static unsigned width_of(unsigned type) { return (type & 7) < 2 ? 16 : (type & 7) < 4 ? 32 : 64; }
static bool signed_type(unsigned type) { return (type & 1) == 0; }

struct Op {
    unsigned type = 6;
    unsigned long long bits = 0;     // the value is static_cast<T>(bits)
    int base = 10;
    bool upper = false;
    unsigned via = VIA_FROM;         // falls back to from_int / from_uint where the entry point has no such base / case
};

// the bits of a value of type `type` with (about) magnitude m and the given sign: m is cut to what the type can hold
static unsigned long long value_bits(unsigned type, unsigned long long m, bool neg)
{
    const unsigned w = width_of(type);
    if (signed_type(type)) {
        const unsigned long long top = 1ull << (w - 1);
        const unsigned long long wm = w == 64 ? m : m & ((1ull << w) - 1);
        if (neg && wm == top) return 0ull - top;        // the most negative value
        m &= top - 1;
        return neg ? 0ull - m : m;
    }
    return w == 64 ? m : m & ((1ull << w) - 1);
}
static unsigned long long magnitude_of(const Op &o, bool &neg)
{
    unsigned long long m = 0;
    neg = false;
    with_type(o.type, [&](auto tag) {
        typedef decltype(tag) T;
        const T v = static_cast<T>(o.bits);
        if constexpr (std::is_signed<T>::value) {
            if (v < 0) { neg = true; m = 0ull - static_cast<unsigned long long>(static_cast<long long>(v)); return; }
        }
        m = static_cast<unsigned long long>(v);
    });
    return m;
}
static S op_text(const Op &o)
{
    S s;
    with_type(o.type, [&](auto tag) {
        typedef decltype(tag) T;
        s = sfmt("%s %s base=%d %s via %s", Name<T>::get(), ref_text(static_cast<T>(o.bits), 10, false).c_str(), o.base, o.upper ? "upper" : "lower", via_name(o.via));
    });
    return s;
}

template <typename T>
static S lib_text(T v, int base, bool upper, unsigned via, unsigned &used)
{
    if (via == VIA_FORMAT && !upper) {
        static unsigned alt = 0;
        const char *fmt = base == 10 ? ((alt++ & 1) ? "{d}" : "{}") : base == 16 ? "{x}" : base == 8 ? "{o}" : base == 2 ? "{b}" : nullptr;
        if (fmt) { used = VIA_FORMAT; return vrt::str_of(ST::format(fmt, v)); }
    }
    if (via == VIA_FORMAT && upper && base == 16) { used = VIA_FORMAT; return vrt::str_of(ST::format("{X}", v)); }
    if (via == VIA_STREAM && base == 10 && !upper) {
        used = VIA_STREAM;
        vrt::Box<ST::string_stream> ss;
        stream_put<T>(*ss, v);
        return S(ss->raw_buffer(), ss->size());
    }
    if constexpr (sizeof(T) == 8) {
        if (via == VIA_FROM64) {
            used = VIA_FROM64;
            if constexpr (std::is_signed<T>::value) return vrt::str_of(ST::string::from_int64(static_cast<int64_t>(v), base, upper));
            else return vrt::str_of(ST::string::from_uint64(static_cast<uint64_t>(v), base, upper));
        }
    }
    used = VIA_FROM;
    return vrt::str_of(lib_from<T>(v, base, upper));
}

// what two consecutive conversions have in common (counted, so that a run shows which collisions it produced)
static void classify(const Op &a, const Op &b)
{
    bool na, nb;
    const unsigned long long ma = magnitude_of(a, na), mb = magnitude_of(b, nb);
    static uint64_t &pairs = vrt::counter("memo.consecutive_conversions");
    ++pairs;
    if (a.base == b.base && a.upper == b.upper) {
        if (ma != mb) {
            const unsigned long long x = ma ^ mb;
            static uint64_t &c8 = vrt::counter("memo.adjacent_magnitudes_equal_mod_2^8"), &c16 = vrt::counter("memo.adjacent_magnitudes_equal_mod_2^16"),
                            &c31 = vrt::counter("memo.adjacent_magnitudes_equal_mod_2^31"), &c32 = vrt::counter("memo.adjacent_magnitudes_equal_mod_2^32"),
                            &c48 = vrt::counter("memo.adjacent_magnitudes_equal_mod_2^48"), &c56 = vrt::counter("memo.adjacent_magnitudes_equal_mod_2^56"),
                            &c63 = vrt::counter("memo.adjacent_magnitudes_equal_mod_2^63");
            if ((x & 0xffull) == 0) ++c8;
            if ((x & 0xffffull) == 0) ++c16;
            if ((x & 0x7fffffffull) == 0) ++c31;
            if ((x & 0xffffffffull) == 0) ++c32;
            if ((x & 0xffffffffffffull) == 0) ++c48;
            if ((x & 0xffffffffffffffull) == 0) ++c56;
            if ((x & 0x7fffffffffffffffull) == 0) ++c63;
            if (a.bits == b.bits && a.type != b.type) { static uint64_t &c = vrt::counter("memo.adjacent_same_bits_other_type_other_value"); ++c; }
        } else if (na != nb) {
            static uint64_t &c = vrt::counter("memo.adjacent_same_magnitude_other_sign"); ++c;
        } else if (a.type != b.type) {
            static uint64_t &c = vrt::counter("memo.adjacent_same_value_other_type"); ++c;
        } else {
            static uint64_t &c = vrt::counter("memo.adjacent_identical"); ++c;
        }
    } else if (ma == mb && na == nb) {
        if (a.base != b.base) { static uint64_t &c = vrt::counter("memo.adjacent_same_value_other_base"); ++c; }
        else { static uint64_t &c = vrt::counter("memo.adjacent_same_value_other_letter_case"); ++c; }
    }
    if (a.via != b.via) { static uint64_t &c = vrt::counter("memo.adjacent_through_different_entry_points"); ++c; }
}

// one conversion, compared with the reference; `prev` is the conversion made right before it (for the report)
static S run_op(const Op &o, const Op *prev, const char *what)
{
    S got;
    with_type(o.type, [&](auto tag) {
        typedef decltype(tag) T;
        const T v = static_cast<T>(o.bits);
        unsigned used = VIA_FROM;
        got = lib_text<T>(v, o.base, o.upper, o.via, used);
        vrt::evals();
        const S want = ref_text(v, o.base, o.upper);
        if (got != want)
            viol(Name<T>::get(), sfmt("consecutive:%s", via_name(used)).c_str(),
                 sfmt("%s: %s got=%s want=%s; the conversion right before it on this thread: %s", what, op_text(o).c_str(), got.c_str(), want.c_str(), prev ? op_text(*prev).c_str() : "(first of the sequence)"));
        static uint64_t *const per_via[N_VIA] = {&vrt::counter("memo.via.from_int"), &vrt::counter("memo.via.format"), &vrt::counter("memo.via.string_stream"), &vrt::counter("memo.via.from_int64")};
        ++*per_via[used];
    });
    if (prev) classify(*prev, o);
    return got;
}

// a sequence of conversions back to back, then (optionally) every text parsed back
static void run_ops(const std::vector<Op> &ops, const char *what, bool parse_after)
{
    vrt::cur_rewind();
    vrt::cur_printf("%s: %zu consecutive conversions, first: %s, last: %s\n", what, ops.size(), ops.empty() ? "" : op_text(ops.front()).c_str(), ops.empty() ? "" : op_text(ops.back()).c_str());
    std::vector<S> texts;
    for (size_t k = 0; k < ops.size(); ++k) texts.push_back(run_op(ops[k], k ? &ops[k - 1] : nullptr, what));
    if (!parse_after) return;
    for (size_t k = 0; k < ops.size(); ++k)
        with_type(ops[k].type, [&](auto tag) {
            typedef decltype(tag) T;
            parse_back<T>(vrt::mk(texts[k]), static_cast<T>(ops[k].bits), ops[k].base);
        });
}

static unsigned long long rand_bits(Rng &r, unsigned maxbits)
{
    if (maxbits == 0) return 0;
    const unsigned keep = 1 + static_cast<unsigned>(r.below(maxbits));
    unsigned long long b = r.next();
    if (keep < 64) b &= (1ull << keep) - 1;
    return b;
}

// a type for the next conversion of a sequence: the same, one of the same width, or any
static unsigned related_type(Rng &r, unsigned type)
{
    switch (r.below(4)) {
    case 0: case 1: return type;
    case 2: { const unsigned w = width_of(type); unsigned t; do t = static_cast<unsigned>(r.below(8)); while (width_of(t) != w); return t; }
    default: return static_cast<unsigned>(r.below(8));
    }
}
static unsigned type_at_least(Rng &r, unsigned bits)       // a type with more than `bits` value bits, where there is one
{
    for (int tries = 0; tries < 32; ++tries) {
        const unsigned t = static_cast<unsigned>(r.below(8));
        if (width_of(t) - (signed_type(t) ? 1 : 0) > bits) return t;
    }
    return 7;
}
static void some_base(Rng &r, int &base, bool &upper)
{
    static const int common[] = {10, 10, 10, 16, 16, 2, 8, 36};
    base = r.chance(1, 3) ? 2 + static_cast<int>(r.below(35)) : r.pick(common);
    upper = r.chance(1, 2);
}

static const unsigned memo_K[] = {8, 16, 24, 31, 32, 40, 48, 56, 60, 63};

// the conversion after `prev` in a soak: related to it in one of the ways a memo key could confuse
static Op next_related(Rng &r, const Op &prev, unsigned kind)
{
    Op o = prev;
    bool neg;
    const unsigned long long m = magnitude_of(prev, neg);
    switch (kind) {
    case 0: {       // other magnitude, equal modulo 2^K; same base and letter case
        const unsigned K = r.pick(memo_K);
        o.type = r.chance(1, 2) ? prev.type : type_at_least(r, K);
        unsigned long long h = rand_bits(r, 64 - K);
        if (r.chance(1, 4)) h = 1ull << r.below(64 - K);
        unsigned long long m2 = m ^ (h << K);
        if (r.chance(1, 4)) m2 = (m & ((1ull << K) - 1)) | (h << K);
        o.bits = value_bits(o.type, m2, r.chance(1, 4) ? !neg : neg);
        break;
    }
    case 1:         // same magnitude, other sign and / or type
        o.type = related_type(r, prev.type);
        o.bits = value_bits(o.type, m, r.chance(1, 2) ? !neg : neg);
        break;
    case 2:         // same bits, other type
        o.type = static_cast<unsigned>(r.below(8));
        break;
    case 3:         // same value, other base and / or letter case
        if (r.chance(1, 2)) o.upper = !o.upper;
        else { const int b = o.base; do some_base(r, o.base, o.upper); while (o.base == b); }
        break;
    case 4:         // a neighbour, a digit more or fewer
        switch (r.below(4)) {
        case 0: o.bits = value_bits(o.type, m + 1, neg); break;
        case 1: o.bits = value_bits(o.type, m - 1, neg); break;
        case 2: o.bits = value_bits(o.type, m * static_cast<unsigned>(o.base), neg); break;
        default: o.bits = value_bits(o.type, m / static_cast<unsigned>(o.base), neg); break;
        }
        break;
    case 5:         // the same again
        break;
    default:        // unrelated
        o.type = static_cast<unsigned>(r.below(8));
        o.bits = value_bits(o.type, rand_bits(r, 64), r.chance(1, 2));
        if (r.chance(1, 2)) some_base(r, o.base, o.upper);
        break;
    }
    return o;
}

// ---------------------------------------------------------------- same storage: numerals of identical length that share their ends
// 3..6 texts of exactly `n` bytes with the same first and last `share` bytes; the middles differ in what decides the result
// (a digit, where the digits stop, a NUL, no digit at all)
static std::vector<S> sibling_numerals(Rng &r, size_t n, int base, size_t &share)
{
    share = std::min<size_t>(16, (n - 4) / 2);
    const int eff = base == 0 ? 10 : base;
    auto digit = [&](unsigned d) { return static_cast<char>(d < 10 ? '0' + d : (r.chance(1, 2) ? 'a' : 'A') + d - 10); };
    // head: blanks, a sign, zeros
    S head;
    {
        const size_t blanks = r.chance(1, 3) ? 0 : r.below(share);
        for (size_t i = 0; i < blanks; ++i) head += " \t\n"[r.below(3)];
        if (head.size() < share && r.chance(1, 2)) head += r.chance(1, 2) ? '-' : '+';
        while (head.size() < share) head += '0';
    }
    // tail: digits that still belong to the number, or bytes behind the place where the C library stops
    const bool tail_is_digits = r.chance(1, 2);
    S tail;
    for (size_t i = 0; i < share; ++i) tail += tail_is_digits ? digit(static_cast<unsigned>(r.below(eff))) : "xyz _.g"[r.below(7)];
    const size_t mid = n - 2 * share;
    // how many significant digits fit without saturating (so that a changed digit changes the value)
    size_t room = 1;
    { unsigned long long p = eff; while (p <= 0x7fffffffffffffffull / eff) { p *= eff; ++room; } }      // digits of a 63-bit value
    const size_t sig_in_tail = tail_is_digits ? share : 0;
    const size_t count = 3 + r.below(4);
    std::vector<S> out;
    for (size_t k = 0; k < count; ++k) {
        S m(mid, '0');
        const unsigned kind = static_cast<unsigned>(r.below(6));
        const size_t sig = sig_in_tail >= room ? 0 : 1 + r.below(std::min(mid, room - sig_in_tail));      // significant digits at the end of the middle
        for (size_t i = 0; i < sig && i < mid; ++i) m[mid - 1 - i] = digit(static_cast<unsigned>(r.below(eff)));
        switch (kind) {
        case 0: if (mid) m[mid - 1] = digit(static_cast<unsigned>(1 + r.below(eff - 1))); break;             // another last digit
        case 1: if (mid) m[r.below(mid)] = "x .,_"[r.below(5)]; break;                                       // the digits stop inside the middle
        case 2: if (mid) m[r.below(mid)] = '\0'; break;                                                        // a NUL inside the middle
        case 3: if (mid) m[0] = r.chance(1, 2) ? 'z' : '-'; break;                                             // nothing to convert (or very little)
        case 4: for (size_t i = 0; i < mid; ++i) m[i] = digit(static_cast<unsigned>(r.below(eff))); break;     // saturates (when long enough)
        default: break;
        }
        out.push_back(head + m + tail);
    }
    return out;
}

static void body()
{
    ambient::enable(3);
    vrt::box_shifts() = true;
    vrt::require("values.short", 65536);
    vrt::require("values.unsigned short", 65536);
    vrt::require("values.int", 1000);
    vrt::require("values.long", 1000);
    vrt::require("values.long long", 1000);
    vrt::require("values.unsigned int", 1000);
    vrt::require("values.unsigned long", 1000);
    vrt::require("values.unsigned long long", 1000);
    vrt::require("parse.full_match", 1000);
    vrt::require("parse.partial", 1000);
    vrt::require("parse.no_match", 100);
    vrt::require("parse.embedded_NUL", 100);
    vrt::require("parse.overflow", 100);
    vrt::require("parse.empty", 1);

    vrt::note("exhaustive: every short and unsigned short value x bases 2..36 x both letter cases, formatted, re-parsed with every wide-enough to_* member, and compared with ST::format / string_stream digits");
    vrt::phase("all_16bit", 65536, [&](uint64_t i, Rng &) {
        value_case<short>(static_cast<short>(static_cast<unsigned short>(i)), true);
        value_case<unsigned short>(static_cast<unsigned short>(i), true);
        vrt::distinct(vrt::fnv_u64(i, 52));
        if (vrt::want_sample("all_16bit") && i == 0x8000) vrt::sample("all_16bit", "short -32768 and unsigned short 32768 in bases 2..36, both cases");
    });
    wide_phases<int>();
    wide_phases<unsigned int>();
    wide_phases<long>();
    wide_phases<unsigned long>();
    wide_phases<long long>();
    wide_phases<unsigned long long>();

    vrt::phase("parse_directed", 1, [&](uint64_t, Rng &) {
        static const char *const texts[] = {"", " ", "-", "+", "0", "0x", "0X", "0x1", "-0x1", "0b1", "08", "09", "1e5", "  42", "42  ", "\t-7", "9223372036854775807",
                                            "9223372036854775808", "-9223372036854775808", "-9223372036854775809", "18446744073709551615", "18446744073709551616",
                                            "-18446744073709551615", "-1", "4294967295", "4294967296", "-2147483648", "2147483648", "32768", "65536", "-32769", "zz", "ZZ", "z", "0z",
                                            "99999999999999999999999999999999999999", "0x7fffffffffffffff", "0xffffffffffffffff", "0x10000000000000000", "inf", "nan", "true"};
        for (const char *t : texts)
            for (int base : {0, 2, 8, 10, 16, 36}) parse_case(t, base);
        for (int base : {0, 10, 16}) {
            parse_case(S("42\0", 3), base);
            parse_case(S("42\0" "17", 5), base);
            parse_case(S("\0" "12", 3), base);
            parse_case(S("12\0\0", 4), base);
        }
    });
    vrt::phase("parse_random", vrt::tier_count(150000, 8000000), [&](uint64_t, Rng &r) {
        int base;
        S t = gen_numeral(r, base);
        parse_case(t, base);
        if (vrt::want_sample("parse_random") && t.size() > 6) vrt::sample("parse_random", sfmt("text=%s base=%d", show(t).c_str(), base));
    });
    // scale: texts of several KiB up to ~1 MiB.  The case index walks a grid: block size B x multiple q x what is measured in
    // multiples of B (the length the C library consumes / the total length / the length of what follows the numeral / the
    // position of an embedded NUL inside the digits / the run of white space / the run of leading zeros); every grid point is
    // tried on the multiple and right next to it
    {
        vrt::require("scale.parse_texts", 1000);
        vrt::require("scale.consumed>=64KiB", 100);
        vrt::require("scale.consumed_is_multiple_of_256", 100);
        vrt::require("scale.consumed_is_multiple_of_65536", 20);
        vrt::require("scale.full_match>=64KiB", 20);
        vrt::require("scale.full_match_on_multiple_of_65536", 3);
        vrt::require("scale.total_is_multiple_of_65536", 10);
        vrt::require("scale.embedded_NUL_beyond_64KiB", 10);
        vrt::require("scale.saturated_by_long_digit_run", 100);
        vrt::require("scale.value_after_4KiB_of_blanks_or_zeros", 100);
        vrt::require("scale.text>=256KiB", 20);
        const std::vector<size_t> &BL = scale::blocks();
        const size_t grid = BL.size() * 8, origins = 6;
        vrt::phase("scale_parse", vrt::tier_count(grid * origins, grid * origins * 30), [&](uint64_t i, Rng &r) {
            const size_t B = BL[i % BL.size()], q = 1 + (i / BL.size()) % 8;
            const unsigned origin = static_cast<unsigned>((i / grid) % origins);
            const size_t T = q * B;
            if (T > 1310720) { vrt::count("scale.skipped_too_large"); return; }
            static const int bases[] = {0, 0, 10, 10, 16, 2, 8, 36, 3, 7, 35};
            static const char *const oname[] = {"consumed length", "total length", "length after the numeral", "position of a NUL inside the digits", "white-space run", "run of leading zeros"};
            const long nudges[4] = {0, -1, 1, r.chance(1, 2) ? static_cast<long>(2 + r.below(8)) : -static_cast<long>(2 + r.below(8))};
            for (long d : nudges) {
                if (static_cast<long>(T) + d < 1) continue;
                const size_t t = static_cast<size_t>(static_cast<long>(T) + d);
                BigNumeral p;
                p.base = r.pick(bases);
                const size_t some = r.chance(1, 3) ? r.below(40) : r.chance(1, 2) ? 1000 + r.below(70000) : 131072 + r.below(140000);
                S text;
                switch (origin) {
                case 0:                     // the C library stops after t characters
                    plan_consumed(r, p, t);
                    p.J = r.chance(1, 4) ? 0 : 1 + some;
                    text = big_numeral_text(r, p);
                    break;
                case 1:                     // the text is t characters long; nothing, little or a lot follows the numeral
                    p.J = r.chance(1, 2) ? 0 : r.chance(1, 2) ? 1 + r.below(9) : 1 + r.below(t);
                    if (p.J >= t) p.J = t - 1;
                    plan_consumed(r, p, t - p.J);
                    text = big_numeral_text(r, p);
                    break;
                case 2:                     // t characters follow the numeral
                    plan_consumed(r, p, r.chance(1, 2) ? 1 + r.below(40) : scale::length(r, 300000, 1));
                    p.J = t;
                    text = big_numeral_text(r, p);
                    break;
                case 3: {                   // a NUL at offset t in the middle of a run of digits
                    plan_consumed(r, p, t);
                    p.J = 0;
                    text = big_numeral_text(r, p);
                    text.push_back('\0');
                    put_digits(r, text, 1 + some, effective_base(p), false);
                    break;
                }
                case 4:                     // exactly t characters of white space
                    plan_consumed(r, p, r.chance(1, 2) ? 1 + r.below(24) : scale::length(r, 200000, 1));
                    p.W = t;
                    p.J = r.chance(1, 2) ? 0 : 1 + r.below(300);
                    text = big_numeral_text(r, p);
                    break;
                default:                    // exactly t leading zeros
                    plan_consumed(r, p, r.chance(1, 2) ? 1 + r.below(24) : scale::length(r, 200000, 1));
                    p.Z = t;
                    p.J = r.chance(1, 2) ? 0 : 1 + r.below(300);
                    text = big_numeral_text(r, p);
                    break;
                }
                // what the C library makes of it (bookkeeping only; parse_case asks the C library itself, member by member)
                char *endp = nullptr;
                errno = 0;
                const unsigned long long val = strtoull(text.c_str(), &endp, p.base);
                const bool range = errno == ERANGE;
                const size_t consumed = static_cast<size_t>(endp - text.c_str());
                parse_case(text, p.base);
                vrt::count("scale.parse_texts");
                vrt::count(consumed == p.planned() ? "scale.consumed_as_planned" : "scale.consumed_other_than_planned");
                if (consumed >= 65536) vrt::count("scale.consumed>=64KiB");
                if (consumed && consumed % 256 == 0) vrt::count("scale.consumed_is_multiple_of_256");
                if (consumed && consumed % 65536 == 0) vrt::count("scale.consumed_is_multiple_of_65536");
                if (consumed == text.size() && consumed >= 65536) vrt::count("scale.full_match>=64KiB");
                if (consumed == text.size() && consumed % 65536 == 0) vrt::count("scale.full_match_on_multiple_of_65536");
                if (text.size() % 65536 == 0) vrt::count("scale.total_is_multiple_of_65536");
                if (text.size() >= 262144) vrt::count("scale.text>=256KiB");
                { const size_t z = text.find('\0'); if (z != S::npos && z >= 65536) vrt::count("scale.embedded_NUL_beyond_64KiB"); }
                if (range && p.D >= 4096) vrt::count("scale.saturated_by_long_digit_run");
                if (!range && val != 0 && p.W + p.Z >= 4096) vrt::count("scale.value_after_4KiB_of_blanks_or_zeros");
                if (vrt::want_sample("scale"))
                    vrt::sample("scale", sfmt("parse: text %s base=%d: %zu blanks, sign '%s', prefix '%s', %zu zeros, %zu digits, %zu more bytes; %s = %zu x %zu %+ld; the C library consumes %zu",
                                              scale::brief(text).c_str(), p.base, p.W, p.sign.c_str(), p.prefix.c_str(), p.Z, p.D, text.size() - p.planned(), oname[origin], q, B, d, consumed));
            }
            vrt::count(sfmt("scale.measured.%s", oname[origin]));
        });
    }
    // scale: digits into streams / ST::format outputs that already hold 4 KiB .. 1 MiB, the digits ending or starting on and next
    // to q x B bytes (every capacity the stream goes through is among them), the text before them put there in one piece, in
    // many pieces, left over in a buffer that was bigger once, as thousands of numbers, or in a stream that was moved
    {
        vrt::require("scale.stream_cases", 100);
        vrt::require("scale.stream>=64KiB", 50);
        vrt::require("scale.stream>=1MiB", 2);
        vrt::require("scale.consecutive_number_inserts", 10000);
        vrt::require("format.digits_inside_big_output", 1000);
        const std::vector<size_t> &BL = scale::blocks();
        const size_t grid = BL.size() * 8;
        vrt::phase("scale_stream", vrt::tier_count(grid * 4, grid * 100), [&](uint64_t i, Rng &r) {
            const size_t B = BL[i % BL.size()], q = 1 + (i / BL.size()) % 8;
            const size_t k = i / grid;
            const unsigned history = static_cast<unsigned>((k + i) % N_HISTORIES);
            const bool end_anchored = (i / BL.size() + k) % 2 == 0;
            const size_t T = q * B;
            if (T > 1310720) { vrt::count("scale.skipped_too_large"); return; }
            auto with = [&](auto sample_value) {
                typedef decltype(sample_value) T_;
                typedef std::numeric_limits<T_> L;
                T_ v;
                switch (r.below(6)) {
                case 0: v = L::min(); break;
                case 1: v = L::max(); break;
                case 2: v = static_cast<T_>(r.below(10)); break;
                case 3: v = std::is_signed<T_>::value ? static_cast<T_>(-1 - static_cast<long long>(r.below(100))) : static_cast<T_>(L::max() - r.below(100)); break;
                default: {
                    uint64_t bits = r.next();
                    const unsigned keep = 1 + static_cast<unsigned>(r.below(64));
                    if (keep < 64) bits &= (1ull << keep) - 1;
                    v = static_cast<T_>(bits);
                    if (std::is_signed<T_>::value && r.chance(1, 2)) v = static_cast<T_>(0 - static_cast<typename std::make_unsigned<T_>::type>(v));
                }
                }
                vrt::cur_rewind();
                vrt::cur_printf("scale_stream type=%s value=%s mark=%zu x %zu digits %s there, history=%s\n", Name<T_>::get(), ref_text(v, 10, false).c_str(), q, B, end_anchored ? "end" : "start", history_name(history));
                nearly_full_stream<T_>(v, T, end_anchored, history, static_cast<char>(r.chance(1, 4) ? 'p' : 0), &r);
                // ST::format: the field starts / ends there in the output
                const S digits10 = ref_text(v, 10, false);
                for (int d = -1; d <= 1; ++d) {
                    const long start = static_cast<long>(T) - (end_anchored ? static_cast<long>(digits10.size()) : 0) + d;
                    if (start < 0) continue;
                    const S prefix = position_pattern(static_cast<size_t>(start), 0);
                    format_digits<T_>(v, prefix, r.chance(1, 2) ? "tail" : "", history % 2 == 1);
                }
                if (vrt::want_sample("scale_stream"))
                    vrt::sample("scale_stream", sfmt("%s %s streamed / formatted behind text so that its digits %s at %zu x %zu -2..+2 bytes; the text before it: %s", Name<T_>::get(),
                                                     digits10.c_str(), end_anchored ? "end" : "start", q, B, history_name(history)));
            };
            switch (r.below(8)) {
            case 0: with(short()); break;
            case 1: with(static_cast<unsigned short>(0)); break;
            case 2: with(int()); break;
            case 3: with(unsigned()); break;
            case 4: with(long()); break;
            case 5: with(static_cast<unsigned long>(0)); break;
            case 6: with(static_cast<long long>(0)); break;
            default: with(static_cast<unsigned long long>(0)); break;
            }
            vrt::count("scale.stream_cases");
            vrt::count(sfmt("scale.stream_history.%s", history_name(history)));
            if (T >= 65536) vrt::count("scale.stream>=64KiB");
            if (T >= 1048576) vrt::count("scale.stream>=1MiB");
        });
    }
    // ---- state that survives a call (DESIGN 8.7): conversions back to back whose arguments collide under a plausible memo key
    {
        vrt::require("memo.consecutive_conversions", 1000000);
        vrt::require("memo.adjacent_magnitudes_equal_mod_2^8", 20000);
        vrt::require("memo.adjacent_magnitudes_equal_mod_2^16", 20000);
        vrt::require("memo.adjacent_magnitudes_equal_mod_2^31", 10000);
        vrt::require("memo.adjacent_magnitudes_equal_mod_2^32", 10000);
        vrt::require("memo.adjacent_magnitudes_equal_mod_2^48", 5000);
        vrt::require("memo.adjacent_magnitudes_equal_mod_2^56", 5000);
        vrt::require("memo.adjacent_magnitudes_equal_mod_2^63", 1000);
        vrt::require("memo.adjacent_same_magnitude_other_sign", 10000);
        vrt::require("memo.adjacent_same_value_other_type", 10000);
        vrt::require("memo.adjacent_same_bits_other_type_other_value", 1000);
        vrt::require("memo.adjacent_same_value_other_base", 10000);
        vrt::require("memo.adjacent_same_value_other_letter_case", 10000);
        vrt::require("memo.adjacent_identical", 10000);
        vrt::require("memo.adjacent_through_different_entry_points", 100000);
        vrt::require("memo.via.from_int", 100000);
        vrt::require("memo.via.format", 100000);
        vrt::require("memo.via.string_stream", 100000);
        vrt::require("memo.via.from_int64", 10000);
        vrt::require("memo.directed_sequences", 1000);

        // directed: the extremes of every type after their halves / their unsigned counterparts, runs of powers of two, the same
        // payload under different top bytes; every base x letter case, every ordered pair of entry points
        vrt::phase("memo_directed", N_VIA * N_VIA, [&](uint64_t i, Rng &r) {
            const unsigned via_a = static_cast<unsigned>(i % N_VIA), via_b = static_cast<unsigned>((i / N_VIA) % N_VIA);
            std::vector<Op> ops;
            auto add = [&](unsigned type, unsigned long long bits, int base, bool upper) {
                Op o;
                o.type = type; o.bits = bits; o.base = base; o.upper = upper;
                o.via = ops.size() % 2 ? via_b : via_a;
                ops.push_back(o);
            };
            auto flush = [&](const char *what, bool parse_after = true) {
                run_ops(ops, what, parse_after);
                vrt::count("memo.directed_sequences");
                ops.clear();
            };
            const unsigned long long payload56 = r.next() >> 8, payload48 = r.next() >> 16, payload32 = r.next() >> 32;
            for (int base = 2; base <= 36; ++base)
                for (int up = 0; up < 2; ++up) {
                    const bool u = up != 0;
                    for (unsigned t = 0; t < 8; t += 2) {       // signed type t, its unsigned counterpart t + 1
                        const unsigned w = width_of(t);
                        const unsigned long long top = 1ull << (w - 1), smin = 0ull - top, smax = top - 1, umax = w == 64 ? ~0ull : (1ull << w) - 1;
                        add(t, 0ull - top / 2, base, u); add(t, smin, base, u); add(t, 0ull - top / 2, base, u); flush("half of the most negative value, the most negative value, and back");
                        add(t, smin, base, u); add(t, smax, base, u); add(t, smin, base, u); add(t, smin + 1, base, u); flush("most negative, largest, most negative, its neighbour");
                        add(t, smax, base, u); add(t + 1, umax, base, u); add(t, smax, base, u); flush("largest signed, largest unsigned, and back");
                        add(t, ~0ull, base, u); add(t + 1, umax, base, u); add(t, ~0ull, base, u); add(t + 1, 1, base, u); flush("-1 and the unsigned value with the same bits");
                        add(t + 1, top, base, u); add(t, smin, base, u); add(t + 1, top, base, u); flush("2^(w-1) unsigned and the most negative value (same magnitude)");
                        if (w < 64) {                               // the same numbers through the wider types
                            add(t, smin, base, u); add(6, smin, base, u); add(4, smin, base, u); add(7, top, base, u); add(t + 1, top, base, u); flush("the most negative value of a narrow type through wider types");
                            add(t + 1, umax, base, u); add(7, umax, base, u); add(6, umax, base, u); add(7, umax + 1, base, u); add(t + 1, umax, base, u); flush("the largest value of a narrow unsigned type through wider types, then one more");
                        }
                    }
                    // powers of two, ascending and descending (from 2^56 on they are all equal modulo 2^56, from 2^32 on modulo 2^32 ...)
                    for (unsigned b = 0; b < 64; ++b) add(7, 1ull << b, base, u);
                    for (unsigned b = 64; b-- > 0;) add(5, 1ull << b, base, u);
                    flush("powers of two as unsigned long long upwards, as unsigned long downwards", base == 10 || base == 16);
                    for (unsigned b = 0; b < 63; ++b) add(6, 0ull - (1ull << b), base, u);
                    add(6, 1ull << 63, base, u);
                    for (unsigned b = 63; b-- > 0;) add(4, 1ull << b, base, u);
                    flush("negative powers of two as long long down to the most negative value, positive ones as long", base == 10 || base == 16);
                    for (unsigned b = 0; b < 32; ++b) { add(3, 1ull << b, base, u); add(2, 0ull - (1ull << b), base, u); }
                    flush("powers of two as unsigned int and their negatives as int, alternating", base == 10 || base == 16);
                    // one payload under different tags in the top byte / the top 16 bits / the top half; with zero in between
                    static const unsigned tags[] = {0, 1, 2, 0x7f, 0x80, 0x81, 0xff, 0};
                    for (unsigned tag : tags) add(7, payload56 | (static_cast<unsigned long long>(tag) << 56), base, u);
                    for (unsigned tag : tags) { add(5, payload56 | (static_cast<unsigned long long>(tag) << 56), base, u); add(5, 0, base, u); }
                    for (unsigned tag : tags) add(6, value_bits(6, payload56 | (static_cast<unsigned long long>(tag & 0x7f) << 56), (tag & 1) != 0), base, u);
                    flush("one 56-bit payload under different top bytes");
                    for (unsigned tag : tags) add(7, payload48 | (static_cast<unsigned long long>(tag * 0x101u) << 48), base, u);
                    for (unsigned tag : tags) add(7, payload32 | (static_cast<unsigned long long>(tag * 0x1010101u) << 32), base, u);
                    for (unsigned tag : tags) add(3, (payload32 & 0xffffff) | (static_cast<unsigned long long>(tag) << 24), base, u);
                    for (unsigned tag : tags) add(1, (payload32 & 0xff) | (static_cast<unsigned long long>(tag) << 8), base, u);
                    flush("one payload under different top 16 bits / top halves / top bytes of narrower types");
                }
            // one value through from_int, ST::format and string_stream back to back, in every order
            static const unsigned orders[6][3] = {{0, 1, 2}, {0, 2, 1}, {1, 0, 2}, {1, 2, 0}, {2, 0, 1}, {2, 1, 0}};
            for (unsigned t = 0; t < 8; ++t)
                for (unsigned k = 0; k < 40; ++k) {
                    const unsigned long long bits = k == 0 ? 1ull << (width_of(t) - 1) : k == 1 ? ~0ull : k == 2 ? (1ull << (width_of(t) - 1)) - 1 : value_bits(t, rand_bits(r, 64), r.chance(1, 2));
                    for (const auto &ord : orders) {
                        for (unsigned v : ord) { Op o; o.type = t; o.bits = bits; o.via = v; ops.push_back(o); }
                        // ... and a different value of the same length right behind it, through the first entry point again
                        bool neg;
                        const unsigned long long m = magnitude_of(ops.back(), neg);
                        Op o; o.type = t; o.bits = value_bits(t, m ^ 1, neg); o.via = ord[0];
                        ops.push_back(o);
                    }
                    run_ops(ops, "one value through from_int, ST::format and string_stream back to back", k < 3);
                    vrt::count("memo.same_value_through_three_entry_points", 6);
                    ops.clear();
                }
            vrt::distinct(vrt::fnv_u64(i, 53));
        });

        // chains of 2..6 magnitudes that are equal modulo 2^K (K by case index), through related types, in one base and letter case
        vrt::phase("memo_pairs", vrt::tier_count(960, 40000), [&](uint64_t i, Rng &r) {
            const unsigned K = memo_K[i % (sizeof(memo_K) / sizeof(memo_K[0]))];
            std::vector<Op> ops;
            for (unsigned rep = 0; rep < 24; ++rep) {
                const unsigned t0 = type_at_least(r, K);
                unsigned long long low = r.chance(1, 8) ? 0 : r.chance(1, 3) ? (r.next() & ((1ull << K) - 1)) : rand_bits(r, K);
                const size_t n = 2 + r.below(5);
                std::vector<unsigned long long> mags;
                std::vector<unsigned> types;
                std::vector<bool> negs;
                const bool neg0 = r.chance(1, 2), mixed_signs = r.chance(1, 4);
                for (size_t k = 0; k < n; ++k) {
                    unsigned long long h = (k == 0 && r.chance(1, 3)) ? 0 : r.chance(1, 4) ? 1ull << r.below(64 - K) : rand_bits(r, 64 - K);
                    mags.push_back((h << K) | low);
                    types.push_back(r.chance(2, 3) ? t0 : r.chance(1, 2) ? type_at_least(r, K) : related_type(r, t0));
                    negs.push_back(mixed_signs ? r.chance(1, 2) : neg0);
                }
                if (n >= 3 && r.chance(1, 2)) { mags[n - 1] = mags[0]; types[n - 1] = types[0]; negs[n - 1] = negs[0]; }     // ... and back to the first
                const unsigned nb = r.chance(1, 8) ? 35 : 4;
                for (unsigned b = 0; b < nb; ++b) {
                    int base; bool upper;
                    if (nb == 35) { base = 2 + static_cast<int>(b); upper = r.chance(1, 2); } else some_base(r, base, upper);
                    const bool one_via = r.chance(1, 3);
                    const unsigned via0 = static_cast<unsigned>(r.below(N_VIA));
                    for (size_t k = 0; k < n; ++k) {
                        Op o;
                        o.type = types[k]; o.bits = value_bits(types[k], mags[k], negs[k]); o.base = base; o.upper = upper;
                        o.via = one_via ? via0 : static_cast<unsigned>(r.below(N_VIA));
                        ops.push_back(o);
                        if (r.chance(1, 6)) ops.push_back(o);                                       // the same twice
                        if (r.chance(1, 10)) { Op z = o; z.bits = 0; ops.push_back(z); }            // zero in between
                    }
                    run_ops(ops, "magnitudes equal modulo a power of two, back to back", r.chance(1, 4));
                    ops.clear();
                }
            }
            vrt::count(sfmt("memo.pairs_cases.mod_2^%u", K));
            vrt::distinct(vrt::fnv_u64(r.next(), 54));
            if (vrt::want_sample("memo_pairs"))
                vrt::sample("memo_pairs", sfmt("24 chains of 2..6 values whose magnitudes are equal modulo 2^%u (other top bits, other sign, related types), each chain converted back to back in 4 or 35 (base, letter case) settings through from_int / format / string_stream", K));
        });

        // one value, every ordered pair of bases (the second conversion must not replay the digits of the first)
        vrt::phase("memo_bases", vrt::tier_count(64, 2000), [&](uint64_t, Rng &r) {
            const unsigned t = static_cast<unsigned>(r.below(8));
            const unsigned long long bits = r.chance(1, 6) ? 1ull << (width_of(t) - 1) : value_bits(t, rand_bits(r, 64), r.chance(1, 2));
            std::vector<Op> ops;
            const unsigned via0 = static_cast<unsigned>(r.below(N_VIA));
            const bool one_via = r.chance(1, 2);
            for (int b1 = 2; b1 <= 36; ++b1)
                for (int b2 = 2; b2 <= 36; ++b2) {
                    Op o;
                    o.type = t; o.bits = bits;
                    o.base = b1; o.upper = r.chance(1, 2); o.via = one_via ? via0 : static_cast<unsigned>(r.below(N_VIA));
                    ops.push_back(o);
                    o.base = b2; o.upper = b1 == b2 ? !o.upper : r.chance(1, 2); o.via = one_via ? via0 : static_cast<unsigned>(r.below(N_VIA));
                    ops.push_back(o);
                }
            run_ops(ops, "one value in every ordered pair of bases", false);
            vrt::distinct(vrt::fnv_u64(bits, 55 + t));
            if (vrt::want_sample("memo_bases")) vrt::sample("memo_bases", sfmt("%s in all 35 x 35 ordered pairs of bases, letter case varied", op_text(ops[0]).c_str()));
        });

        // soak: > 70000 consecutive conversions per entry point inside ONE case, each related to the one before it (equal modulo
        // 2^K, other sign, other type, other base / case, a neighbour, the same) or not; runs of 64..300 identical conversions
        // followed directly by one that collides with them
        vrt::require("soak.conversions", 2000000);
        vrt::require("soak.boring_runs_then_a_collision", 2000);
        vrt::phase("soak_digits", vrt::thorough() ? 96 : 16, [&](uint64_t, Rng &r) {
            const size_t per_segment = static_cast<size_t>(vrt::tier_count(70000, 200000));
            uint64_t done = 0;
            Op prev;
            prev.bits = r.next();
            for (unsigned segment = 0; segment < 5; ++segment) {       // from_int only, format only, string_stream only, from_int64 only, mixed
                size_t boring = 0;
                bool collide_next = false;
                for (size_t it = 0; it < per_segment; ++it) {
                    unsigned kind;
                    if (boring) { kind = 5; if (--boring == 0) collide_next = true; }
                    else if (collide_next) { kind = r.chance(3, 4) ? 0 : static_cast<unsigned>(1 + r.below(3)); collide_next = false; vrt::count("soak.boring_runs_then_a_collision"); }
                    else if (r.chance(1, 600)) { kind = 6; boring = 64 + r.below(237); }
                    else { static const unsigned kinds[] = {0, 0, 0, 0, 1, 2, 3, 4, 5, 6, 6, 6}; kind = r.pick(kinds); }
                    Op o = next_related(r, prev, kind);
                    switch (segment) {
                    case 0: o.via = VIA_FROM; break;
                    case 1: o.via = VIA_FORMAT; if (kind == 6 || kind == 3) { static const int fb[] = {10, 10, 16, 16, 8, 2}; o.base = r.pick(fb); o.upper = o.base == 16 && r.chance(1, 2); }
                            if (!(o.base == 10 || o.base == 16 || o.base == 8 || o.base == 2)) o.base = 10;
                            if (o.base != 16) o.upper = false;
                            break;
                    case 2: o.via = VIA_STREAM; o.base = 10; o.upper = false; break;
                    case 3: o.via = VIA_FROM64; if (width_of(o.type) != 64) o.type = 4 + (o.type & 3); break;
                    default: if (!boring) o.via = static_cast<unsigned>(r.below(N_VIA)); break;
                    }
                    if ((it & 1023) == 0) { vrt::cur_rewind(); vrt::cur_printf("soak segment %u conversion %zu: %s after %s\n", segment, it, op_text(o).c_str(), op_text(prev).c_str()); }
                    (void)run_op(o, &prev, "soak");
                    prev = o;
                    ++done;
                }
            }
            vrt::count("soak.conversions", done);
            vrt::distinct(vrt::fnv_u64(r.next(), 56));
            if (vrt::want_sample("soak"))
                vrt::sample("soak", sfmt("%zu consecutive conversions per entry point (from_int/from_uint, ST::format, string_stream <<, from_int64/from_uint64, then mixed) in one process, each related to the one before; last: %s", per_segment, op_text(prev).c_str()));
        });
    }
    // ---- same storage: the parsers on numerals of identical length that share their first and last 16 bytes, one after the other
    // in the same string object (assigned, or cleared and assigned so that the new text lands in the block of the old one) or in
    // an object built at the address of its destroyed predecessor
    {
        vrt::require("same_storage.texts", 1000);
        vrt::require("same_storage.text_at_the_address_of_the_previous_one", 300);
        vrt::require("same_storage.object_at_the_address_of_the_previous_one", 150);
        vrt::require("same_storage.results_differ_between_siblings", 300);
        static const size_t sizes[] = {8, 12, 15, 16, 20, 40, 64, 100, 256, 300, 1024, 1500, 4096, 5000, 16384, 70000};
        const size_t nsizes = sizeof(sizes) / sizeof(sizes[0]);
        vrt::phase("same_storage", vrt::tier_count(nsizes * 48, nsizes * 1200), [&](uint64_t i, Rng &r) {
            const size_t n = sizes[i % nsizes];
            const unsigned mode = static_cast<unsigned>((i / nsizes) % 3);
            static const int bases[] = {10, 10, 16, 0, 2, 8, 36, 7};
            const int base = r.pick(bases);
            size_t share;
            const std::vector<S> texts = sibling_numerals(r, n, base, share);
            const char *last_text = nullptr;
            const void *last_obj = nullptr;
            long long last_value = 0;
            std::optional<vrt::Box<ST::string>> cur;
            for (size_t k = 0; k < texts.size(); ++k) {
                const S &t = texts[k];
                switch (mode) {
                case 0:         // one object, assigned
                    if (!cur) cur.emplace(vrt::mk(t));
                    else **cur = vrt::mk(t);
                    break;
                case 1:         // one object, emptied (its block is released and parked) and assigned (the new text takes that block)
                    if (!cur) cur.emplace(vrt::mk(t));
                    else { vrt::placement_force_parks() = 1; **cur = ST::string(); **cur = vrt::mk(t); vrt::placement_force_parks() = 0; }
                    break;
                default:        // the object destroyed and its successor built at once: object block and text block are handed out again
                    if (cur) { vrt::placement_force_parks() = 2; cur.reset(); }
                    cur.emplace(vrt::mk(t));
                    vrt::placement_force_parks() = 0;
                    break;
                }
                const ST::string &s = **cur;
                if (k && s.c_str() == last_text) vrt::count("same_storage.text_at_the_address_of_the_previous_one");
                if (k && mode == 2 && static_cast<const void *>(&s) == last_obj) vrt::count("same_storage.object_at_the_address_of_the_previous_one");
                last_text = s.c_str();
                last_obj = &s;
                parse_on(s, t, base, static_cast<unsigned>(r.below(10)));
                if (r.chance(1, 3)) {           // ... and right away in another base
                    int b;
                    do b = r.pick(bases); while (b == base);
                    parse_on(s, t, b, static_cast<unsigned>(r.below(10)));
                    vrt::count("same_storage.same_text_parsed_in_another_base");
                }
                const long long v = strtoll(t.c_str(), nullptr, base);
                if (k && v != last_value) vrt::count("same_storage.results_differ_between_siblings");
                last_value = v;
                vrt::count("same_storage.texts");
            }
            cur.reset();
            vrt::count(sfmt("same_storage.mode.%s", mode == 0 ? "assigned" : mode == 1 ? "cleared_then_assigned" : "destroyed_and_rebuilt"));
            if (vrt::want_sample("same_storage"))
                vrt::sample("same_storage", sfmt("%zu numerals of %zu bytes sharing their first and last %zu bytes, base %d, parsed one after the other in the same storage; first: %s", texts.size(), n, share, base, scale::brief(texts[0]).c_str()));
        });

        // soak: > 70000 texts of 16..64 bytes parsed one after the other inside ONE case, in storage that keeps its address; runs of
        // 64..300 identical texts followed directly by one that differs from them in a single byte near the end
        vrt::require("soak.parsed_texts", 1000000);
        vrt::require("soak.parse_boring_runs_then_a_change", 500);
        vrt::require("soak.same_text_parsed_in_another_base", 20000);
        vrt::require("soak.text_at_the_address_of_the_previous_one", 300000);
        vrt::phase("soak_parse", vrt::thorough() ? 96 : 16, [&](uint64_t, Rng &r) {
            const size_t iters = static_cast<size_t>(vrt::tier_count(70000, 200000));
            std::optional<vrt::Box<ST::string>> cur;
            S t;
            int base = 10;
            size_t boring = 0;
            bool change_next = false;
            const char *last_text = nullptr;
            uint64_t same_address = 0;
            for (size_t it = 0; it < iters; ++it) {
                if (boring) { if (--boring == 0) change_next = true; }
                else if (!t.empty() && !change_next && r.chance(1, 6)) {        // the same text, another base
                    static const int other[] = {10, 16, 0, 2, 8, 36, 7};
                    int b;
                    do b = r.pick(other); while (b == base);
                    base = b;
                    vrt::count("soak.same_text_parsed_in_another_base");
                }
                else if (!t.empty() && (change_next || r.chance(1, 2))) {
                    // the same length, the same first and last 8 bytes: one byte changes (a digit, or the digits stop there)
                    if (change_next) vrt::count("soak.parse_boring_runs_then_a_change");
                    const size_t lo = change_next ? t.size() - 1 - r.below(7) : 8 + r.below(t.size() - 16 + 1);
                    const size_t at = std::min(lo, t.size() - 1);
                    const int eff = base == 0 ? 10 : base;
                    const unsigned d = static_cast<unsigned>(r.below(eff));
                    char c = r.chance(1, 5) ? "x \0.-"[r.below(5)] : static_cast<char>(d < 10 ? '0' + d : 'a' + d - 10);
                    if (c == t[at]) c = c == '1' ? '0' : '1';
                    t[at] = c;
                    change_next = false;
                } else {
                    static const int bases[] = {10, 10, 10, 16, 0, 2, 8, 36};
                    base = r.pick(bases);
                    const int eff = base == 0 ? 10 : base;
                    const size_t n = 16 + r.below(49);
                    t.clear();
                    const size_t blanks = r.chance(1, 2) ? 0 : r.below(n / 2);
                    t.append(blanks, ' ');
                    if (r.chance(1, 3)) t += '-';
                    size_t sig = 1 + r.below(18);
                    if (base == 2 || r.chance(1, 8)) sig = 1 + r.below(n);
                    while (t.size() + sig < n) t += '0';
                    while (t.size() < n) { const unsigned d = static_cast<unsigned>(r.below(eff)); t += static_cast<char>(d < 10 ? '0' + d : 'A' + d - 10); }
                    if (r.chance(1, 5)) t[n - 1 - r.below(8)] = "x _"[r.below(3)];
                    if (r.chance(1, 300)) boring = 64 + r.below(237);
                }
                // storage: three times in four the text lands where the previous one was
                switch (cur ? r.below(4) : 3) {
                case 0: vrt::placement_force_parks() = 1; **cur = ST::string(); **cur = vrt::mk(t); vrt::placement_force_parks() = 0; break;
                case 1: case 2: vrt::placement_force_parks() = 2; cur.reset(); cur.emplace(vrt::mk(t)); vrt::placement_force_parks() = 0; break;
                default: if (cur) **cur = vrt::mk(t); else cur.emplace(vrt::mk(t)); break;
                }
                if ((*cur)->c_str() == last_text) ++same_address;
                last_text = (*cur)->c_str();
                parse_on(**cur, t, base, static_cast<unsigned>(it % 10));
            }
            cur.reset();
            vrt::count("soak.parsed_texts", iters);
            vrt::count("soak.text_at_the_address_of_the_previous_one", same_address);
            if (vrt::want_sample("soak_parse"))
                vrt::sample("soak_parse", sfmt("%zu texts of 16..64 bytes parsed one after the other with all to_* members; %llu of them at the address of their predecessor; last: %s base=%d", iters, static_cast<unsigned long long>(same_address), show(t).c_str(), base));
        });
    }
    vrt::alloc::check_pairing("ints");
}

VRT_MAIN(body)
