// C12 - integer <-> text: from_int/from_uint, ST::format and string_stream
// digits against a reference digit generator, parse-back, and the to_* parsers
// against the C library's strto* family on arbitrary text.  UBSan watches the
// arithmetic (most negative values).
#include "vrt.h"
#include "vrt_alloc.h"
#include "vrt_st.h"
#include "gen_text.h"
#include <climits>
#include <cerrno>
#include <type_traits>

using vrt::Rng;
using vrt::sfmt;
typedef std::string S;

static std::string show(const S &s) { return vrt::hex(s.data(), s.size()); }

// canonical digits of a magnitude
static S ref_digits(unsigned long long mag, int base, bool upper)
{
    if (mag == 0) return "0";
    S out;
    while (mag) {
        unsigned d = static_cast<unsigned>(mag % static_cast<unsigned>(base));
        out.insert(out.begin(), static_cast<char>(d < 10 ? '0' + d : (upper ? 'A' : 'a') + d - 10));
        mag /= static_cast<unsigned>(base);
    }
    return out;
}
template <typename T>
static S ref_text(T v, int base, bool upper)
{
    if constexpr (std::is_signed<T>::value) {
        if (v < 0) {
            unsigned long long mag = 0ull - static_cast<unsigned long long>(static_cast<long long>(v));
            return "-" + ref_digits(mag, base, upper);
        }
    }
    return ref_digits(static_cast<unsigned long long>(v), base, upper);
}

template <typename T> struct Name;
#define NAME(T, n) template <> struct Name<T> { static const char *get() { return n; } }
NAME(short, "short"); NAME(int, "int"); NAME(long, "long"); NAME(long long, "long long");
NAME(unsigned short, "unsigned short"); NAME(unsigned int, "unsigned int"); NAME(unsigned long, "unsigned long"); NAME(unsigned long long, "unsigned long long");

template <typename T>
static ST::string lib_from(T v, int base, bool upper)
{
    if constexpr (std::is_signed<T>::value) return ST::string::from_int(v, base, upper);
    else return ST::string::from_uint(v, base, upper);
}

static void viol(const char *tn, const char *what, const std::string &detail)
{
    vrt::violation(sfmt("C12:%s:%s", what, tn), detail);
}

// parse `text` with every to_* member wide enough for T and expect `v`
template <typename T>
static void parse_back(const ST::string &text, T v, int base)
{
    const char *tn = Name<T>::get();
    auto chk = [&](const char *member, long long got_s, unsigned long long got_u, const ST::conversion_result &r) {
        vrt::evals();
        bool same = std::is_signed<T>::value ? got_s == static_cast<long long>(v) : got_u == static_cast<unsigned long long>(v);
        if (!same || !r.ok() || !r.full_match())
            viol(tn, "parse-back", sfmt("value=%s text=%s base=%d via %s: got=%lld/%llu ok=%d full=%d", ref_text(v, 10, false).c_str(),
                                        vrt::str_of(text).c_str(), base, member, got_s, got_u, r.ok(), r.full_match()));
    };
    if constexpr (std::is_signed<T>::value) {
        if (sizeof(T) <= sizeof(short)) { ST::conversion_result r; short x = text.to_short(r, base); chk("to_short", x, 0, r); }
        if (sizeof(T) <= sizeof(int)) { ST::conversion_result r; int x = text.to_int(r, base); chk("to_int", x, 0, r); }
        if (sizeof(T) <= sizeof(long)) { ST::conversion_result r; long x = text.to_long(r, base); chk("to_long", x, 0, r); }
        { ST::conversion_result r; long long x = text.to_long_long(r, base); chk("to_long_long", x, 0, r); }
        { ST::conversion_result r; int64_t x = text.to_int64(r, base); chk("to_int64", x, 0, r); }
        if (static_cast<long long>(v) == text.to_long_long(base)) {} else viol(tn, "parse-back", sfmt("to_long_long(base) without result differs: text=%s base=%d", vrt::str_of(text).c_str(), base));
    } else {
        if (sizeof(T) <= sizeof(short)) { ST::conversion_result r; unsigned short x = text.to_ushort(r, base); chk("to_ushort", 0, x, r); }
        if (sizeof(T) <= sizeof(int)) { ST::conversion_result r; unsigned x = text.to_uint(r, base); chk("to_uint", 0, x, r); }
        if (sizeof(T) <= sizeof(long)) { ST::conversion_result r; unsigned long x = text.to_ulong(r, base); chk("to_ulong", 0, x, r); }
        { ST::conversion_result r; unsigned long long x = text.to_ulong_long(r, base); chk("to_ulong_long", 0, x, r); }
        { ST::conversion_result r; uint64_t x = text.to_uint64(r, base); chk("to_uint64", 0, x, r); }
        if (static_cast<unsigned long long>(v) == text.to_ulong_long(base)) {} else viol(tn, "parse-back", sfmt("to_ulong_long(base) without result differs: text=%s base=%d", vrt::str_of(text).c_str(), base));
    }
}

template <typename T>
static void value_case(T v, bool all_bases)
{
    const char *tn = Name<T>::get();
    vrt::cur_rewind();
    vrt::cur_printf("type=%s value=%s\n", tn, ref_text(v, 10, false).c_str());
    for (int base = 2; base <= 36; ++base) {
        if (!all_bases && !(base == 2 || base == 8 || base == 10 || base == 16 || base == 36 || base == 3 || base == 7)) continue;
        for (int up = 0; up < 2; ++up) {
            ST::string t = lib_from<T>(v, base, up != 0);
            vrt::evals();
            S want = ref_text(v, base, up != 0);
            if (vrt::str_of(t) != want || t.c_str()[t.size()] != 0)
                viol(tn, "from_int", sfmt("value=%s base=%d upper=%d got=%s want=%s", ref_text(v, 10, false).c_str(), base, up, vrt::str_of(t).c_str(), want.c_str()));
            parse_back<T>(t, v, base);
        }
    }
    // default arguments: base 10, lower case
    {
        ST::string t;
        if constexpr (std::is_signed<T>::value) t = ST::string::from_int(v); else t = ST::string::from_uint(v);
        vrt::evals();
        if (vrt::str_of(t) != ref_text(v, 10, false)) viol(tn, "from_int:default-base", ref_text(v, 10, false));
        for (int base : {16, 36, 11}) {
            ST::string u;
            if constexpr (std::is_signed<T>::value) u = ST::string::from_int(v, base); else u = ST::string::from_uint(v, base);
            vrt::evals();
            if (vrt::str_of(u) != ref_text(v, base, false)) viol(tn, "from_int:default-case", sfmt("base=%d got=%s want=%s", base, vrt::str_of(u).c_str(), ref_text(v, base, false).c_str()));
        }
    }
    // deprecated 64-bit spellings
    if constexpr (sizeof(T) == 8) {
        for (int base : {2, 10, 16, 36}) {
            ST::string t;
            if constexpr (std::is_signed<T>::value) t = ST::string::from_int64(static_cast<int64_t>(v), base, true);
            else t = ST::string::from_uint64(static_cast<uint64_t>(v), base, true);
            vrt::evals();
            if (vrt::str_of(t) != ref_text(v, base, true)) viol(tn, "from_int64/uint64", sfmt("value=%s base=%d got=%s", ref_text(v, 10, false).c_str(), base, vrt::str_of(t).c_str()));
        }
    }
    // the same digits through ST::format and string_stream
    struct F { const char *fmt; int base; bool upper; };
    static const F fmts[] = {{"{}", 10, false}, {"{d}", 10, false}, {"{x}", 16, false}, {"{X}", 16, true}, {"{o}", 8, false}, {"{b}", 2, false}};
    for (const F &f : fmts) {
        ST::string t = ST::format(f.fmt, v);
        vrt::evals();
        S want = ref_text(v, f.base, f.upper);
        if (vrt::str_of(t) != want)
            viol(tn, "format-digits", sfmt("value=%s fmt=%s got=%s want=%s", ref_text(v, 10, false).c_str(), f.fmt, vrt::str_of(t).c_str(), want.c_str()));
    }
    {
        vrt::Box<ST::string_stream> ss;
        if constexpr (sizeof(T) < sizeof(int)) {
            if constexpr (std::is_signed<T>::value) *ss << static_cast<int>(v); else *ss << static_cast<unsigned int>(v);
        } else *ss << v;
        vrt::evals();
        S got(ss->raw_buffer(), ss->size()), want = ref_text(v, 10, false);
        if (got != want) viol(tn, "string_stream-digits", sfmt("value=%s got=%s", want.c_str(), got.c_str()));
    }
    // ... and into a stream that is already nearly full: the digits (and the sign) end just below, at and just beyond the
    // in-object capacity (256) and the first heap capacity (512), and more text follows (a regrow must keep every digit)
    {
        const S want = ref_text(v, 10, false);
        for (size_t cap : {size_t(256), size_t(512)})
            for (int d = -2; d <= 2; ++d) {
                const size_t fill = cap - want.size() + static_cast<size_t>(d + 2) - 2;
                vrt::Box<ST::string_stream> ss;
                const S prefix(fill, 'p');
                ss->append(prefix.data(), prefix.size());
                if constexpr (sizeof(T) < sizeof(int)) {
                    if constexpr (std::is_signed<T>::value) *ss << static_cast<int>(v); else *ss << static_cast<unsigned int>(v);
                } else *ss << v;
                *ss << "tail";
                vrt::evals();
                S got(ss->raw_buffer(), ss->size());
                if (got != prefix + want + "tail")
                    viol(tn, "string_stream-digits:nearly-full-stream", sfmt("value=%s after %zu bytes: got ...%s", want.c_str(), fill, got.substr(got.size() > 40 ? got.size() - 40 : 0).c_str()));
                vrt::count("stream.nearly_full_inserts");
            }
    }
    vrt::count(std::string("values.") + tn);
}

// boundary values of T around powers of every base
template <typename T>
static std::vector<T> boundaries()
{
    typedef std::numeric_limits<T> L;
    std::vector<T> v = {L::min(), static_cast<T>(L::min() + 1), static_cast<T>(L::min() + 2), 0, 1, 2, 9, 10, static_cast<T>(L::max() - 1), L::max(),
                        static_cast<T>(L::max() / 2), static_cast<T>(L::max() / 2 + 1)};
    if (std::is_signed<T>::value) { v.push_back(static_cast<T>(-1)); v.push_back(static_cast<T>(-9)); v.push_back(static_cast<T>(-10)); }
    for (int base = 2; base <= 36; ++base) {
        unsigned long long p = 1;
        while (p <= static_cast<unsigned long long>(L::max()) / base) {
            p *= base;
            for (long long d = -1; d <= 1; ++d) {
                unsigned long long u = p + d;
                if (u <= static_cast<unsigned long long>(L::max())) {
                    v.push_back(static_cast<T>(u));
                    if (std::is_signed<T>::value) v.push_back(static_cast<T>(0 - static_cast<T>(u)));
                }
            }
        }
    }
    // every power of two +-1 (32-bit / 64-bit narrowing slips)
    for (int b = 1; b < L::digits + (std::is_signed<T>::value ? 1 : 0); ++b) {
        unsigned long long p = 1ull << b;
        for (long long d = -1; d <= 1; ++d) {
            unsigned long long u = p + d;
            if (u <= static_cast<unsigned long long>(L::max())) {
                v.push_back(static_cast<T>(u));
                if (std::is_signed<T>::value) v.push_back(static_cast<T>(0 - static_cast<T>(u)));
            }
        }
    }
    return v;
}

template <typename T>
static void wide_phases()
{
    const char *tn = Name<T>::get();
    static const std::vector<T> b = boundaries<T>();
    std::string pn = std::string("boundary_") + tn;
    for (auto &c : pn) if (c == ' ') c = '_';
    vrt::phase(pn.c_str(), b.size(), [&](uint64_t i, Rng &) {
        value_case<T>(b[i], true);
        vrt::distinct(vrt::fnv_u64(static_cast<uint64_t>(b[i]), vrt::fnv_str(tn)));
        if (vrt::want_sample(pn)) vrt::sample(pn, sfmt("%s %s in bases 2..36, both cases, + format {}/{d}/{x}/{X}/{o}/{b} + string_stream", tn, ref_text(b[i], 10, false).c_str()));
    });
    std::string rn = std::string("random_") + tn;
    for (auto &c : rn) if (c == ' ') c = '_';
    vrt::phase(rn.c_str(), vrt::tier_count(20000, 3000000), [&](uint64_t, Rng &r) {
        uint64_t bits = r.next();
        // vary magnitude: random bit length
        unsigned keep = 1 + static_cast<unsigned>(r.below(64));
        if (keep < 64) bits &= (1ull << keep) - 1;
        T v = static_cast<T>(bits);
        if (std::is_signed<T>::value && r.chance(1, 2)) v = static_cast<T>(0 - static_cast<typename std::make_unsigned<T>::type>(v));
        value_case<T>(v, r.chance(1, 8));
        vrt::distinct(vrt::fnv_u64(static_cast<uint64_t>(v), vrt::fnv_str(tn)));
    });
}

// A conversion_result is an out-parameter: what an earlier conversion left in it must not show.  Two calls in three get
// an object that was used before (by a fully matching, resp. a partly matching conversion).
static void predirty(ST::conversion_result &r)
{
    static unsigned n = 0;
    static const ST::string full("42"), part("7x");
    switch (n++ % 3) {
    case 0: break;
    case 1: (void)full.to_int(r); vrt::count("parse.result_object_reused"); break;
    default: (void)part.to_ulong_long(r, 10); vrt::count("parse.result_object_reused"); break;
    }
}

// whatever an unrelated earlier C library call left in errno must not influence a conversion
static int stale_errno()
{
    static unsigned n = 0;
    static const int vals[] = {0, EINVAL, ERANGE, ENOENT, EDOM};
    return vals[n++ % 5];
}

// ---------------------------------------------------------------- parsing arbitrary text
static void parse_case(const S &text, int base)
{
    vrt::cur_rewind();
    vrt::cur_printf("parse text=%s base=%d\n", show(text).c_str(), base);
    vrt::Box<ST::string> st(vrt::mk(text));
    const char *c = st->c_str();                  // what the library hands to the C library
    const bool empty = text.empty();
    auto flags = [&](const char *endp, bool &ok, bool &full) {
        if (empty) { ok = false; full = true; return; }
        ok = endp != c;
        full = endp == c + text.size();
    };
    auto report = [&](const char *member, const std::string &d) {
        vrt::violation(sfmt("C12:parse:%s", member), sfmt("text=%s base=%d %s", show(text).c_str(), base, d.c_str()));
    };
#define PARSE(member, libcall_r, libcall, reffn, RT, CAST)                                                                   \
    do {                                                                                                                     \
        char *endp = nullptr;                                                                                                \
        errno = 0;                                                                                                           \
        RT want = CAST(reffn(c, &endp, base));                                                                               \
        bool wok, wfull;                                                                                                     \
        flags(endp, wok, wfull);                                                                                             \
        if (empty) want = 0;                                                                                                 \
        ST::conversion_result r;                                                                                             \
        predirty(r);                                                                                                         \
        errno = stale_errno();                                                                                               \
        RT got = st->libcall_r;                                                                                              \
        errno = stale_errno();                                                                                               \
        RT got2 = st->libcall;                                                                                               \
        vrt::evals(2);                                                                                                       \
        if (got != want || r.ok() != wok || r.full_match() != wfull)                                                         \
            report(member, sfmt("got=%lld ok=%d full=%d want=%lld ok=%d full=%d", (long long)got, r.ok(), r.full_match(), (long long)want, wok, wfull)); \
        if (got2 != want) report(member, sfmt("(no result arg) got=%lld want=%lld", (long long)got2, (long long)want));    \
    } while (0)
    PARSE("to_long", to_long(r, base), to_long(base), strtol, long, );
    PARSE("to_int", to_int(r, base), to_int(base), strtol, int, static_cast<int>);
    PARSE("to_short", to_short(r, base), to_short(base), strtol, short, static_cast<short>);
    PARSE("to_long_long", to_long_long(r, base), to_long_long(base), strtoll, long long, );
    PARSE("to_int64", to_int64(r, base), to_int64(base), strtoll, int64_t, static_cast<int64_t>);
    PARSE("to_ulong", to_ulong(r, base), to_ulong(base), strtoul, unsigned long, );
    PARSE("to_uint", to_uint(r, base), to_uint(base), strtoul, unsigned int, static_cast<unsigned int>);
    PARSE("to_ushort", to_ushort(r, base), to_ushort(base), strtoul, unsigned short, static_cast<unsigned short>);
    PARSE("to_ulong_long", to_ulong_long(r, base), to_ulong_long(base), strtoull, unsigned long long, );
    PARSE("to_uint64", to_uint64(r, base), to_uint64(base), strtoull, uint64_t, static_cast<uint64_t>);
#undef PARSE
    {
        char *endp = nullptr;
        errno = 0;
        (void)strtol(c, &endp, base);
        bool ok, full;
        flags(endp, ok, full);
        vrt::count(ok ? (full ? "parse.full_match" : "parse.partial") : (full ? "parse.empty" : "parse.no_match"));
        if (text.find('\0') != S::npos) vrt::count("parse.embedded_NUL");
        if (errno == ERANGE) vrt::count("parse.overflow");
    }
    vrt::distinct(vrt::fnv_u64(static_cast<uint64_t>(base), vrt::fnv1a(text.data(), text.size(), 51)));
}

static S gen_numeral(Rng &r, int &base)
{
    static const int bases[] = {0, 0, 2, 3, 8, 10, 10, 16, 16, 36, 7, 35};
    base = r.pick(bases);
    if (r.chance(1, 6)) base = 2 + static_cast<int>(r.below(35));
    S t;
    static const char *const ws[] = {"", "", "", " ", "\t", "\n ", "\v\f\r", "  "};
    t += r.pick(ws);
    static const char *const signs[] = {"", "", "", "-", "+", "--", "+-", "- "};
    t += r.pick(signs);
    static const char *const prefixes[] = {"", "", "", "0x", "0X", "0", "0b", "00", "0x0x"};
    t += r.pick(prefixes);
    int eff = base == 0 ? 10 : base;
    size_t nd = r.chance(1, 8) ? 0 : 1 + r.below(r.chance(1, 5) ? 70 : 12);
    for (size_t i = 0; i < nd; ++i) {
        unsigned d = static_cast<unsigned>(r.below(r.chance(1, 10) ? 36 : eff));
        char ch = static_cast<char>(d < 10 ? '0' + d : (r.chance(1, 2) ? 'a' : 'A') + d - 10);
        t += ch;
    }
    switch (r.below(8)) {
    case 0: t += " "; break;
    case 1: t += "xyz"; break;
    case 2: t.push_back('\0'); break;                         // embedded NUL right after the digits
    case 3: t.push_back('\0'); t += "17"; break;
    case 4: t += ".5"; break;
    case 5: t += "\xc3\xa9"; break;
    default: break;
    }
    if (r.chance(1, 30)) t.insert(0, 1, '\0');
    return t;
}

static void body()
{
    vrt::require("values.short", 65536);
    vrt::require("values.unsigned short", 65536);
    vrt::require("values.int", 1000);
    vrt::require("values.long", 1000);
    vrt::require("values.long long", 1000);
    vrt::require("values.unsigned int", 1000);
    vrt::require("values.unsigned long", 1000);
    vrt::require("values.unsigned long long", 1000);
    vrt::require("parse.full_match", 1000);
    vrt::require("parse.partial", 1000);
    vrt::require("parse.no_match", 100);
    vrt::require("parse.embedded_NUL", 100);
    vrt::require("parse.overflow", 100);
    vrt::require("parse.empty", 1);

    vrt::note("exhaustive: every short and unsigned short value x bases 2..36 x both letter cases, formatted, re-parsed with every wide-enough to_* member, and compared with ST::format / string_stream digits");
    vrt::phase("all_16bit", 65536, [&](uint64_t i, Rng &) {
        value_case<short>(static_cast<short>(static_cast<unsigned short>(i)), true);
        value_case<unsigned short>(static_cast<unsigned short>(i), true);
        vrt::distinct(vrt::fnv_u64(i, 52));
        if (vrt::want_sample("all_16bit") && i == 0x8000) vrt::sample("all_16bit", "short -32768 and unsigned short 32768 in bases 2..36, both cases");
    });
    wide_phases<int>();
    wide_phases<unsigned int>();
    wide_phases<long>();
    wide_phases<unsigned long>();
    wide_phases<long long>();
    wide_phases<unsigned long long>();

    vrt::phase("parse_directed", 1, [&](uint64_t, Rng &) {
        static const char *const texts[] = {"", " ", "-", "+", "0", "0x", "0X", "0x1", "-0x1", "0b1", "08", "09", "1e5", "  42", "42  ", "\t-7", "9223372036854775807",
                                            "9223372036854775808", "-9223372036854775808", "-9223372036854775809", "18446744073709551615", "18446744073709551616",
                                            "-18446744073709551615", "-1", "4294967295", "4294967296", "-2147483648", "2147483648", "32768", "65536", "-32769", "zz", "ZZ", "z", "0z",
                                            "99999999999999999999999999999999999999", "0x7fffffffffffffff", "0xffffffffffffffff", "0x10000000000000000", "inf", "nan", "true"};
        for (const char *t : texts)
            for (int base : {0, 2, 8, 10, 16, 36}) parse_case(t, base);
        for (int base : {0, 10, 16}) {
            parse_case(S("42\0", 3), base);
            parse_case(S("42\0" "17", 5), base);
            parse_case(S("\0" "12", 3), base);
            parse_case(S("12\0\0", 4), base);
        }
    });
    vrt::phase("parse_random", vrt::tier_count(150000, 8000000), [&](uint64_t, Rng &r) {
        int base;
        S t = gen_numeral(r, base);
        parse_case(t, base);
        if (vrt::want_sample("parse_random") && t.size() > 6) vrt::sample("parse_random", sfmt("text=%s base=%d", show(t).c_str(), base));
    });
    vrt::alloc::check_pairing("ints");
}

VRT_MAIN(body)
